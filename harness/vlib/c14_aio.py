"""
C14 path "aio": the close matrix on every `AsyncBaseTransport` the REAL asyncio backend can create, over REAL loopback /
socketpair sockets (the in-memory paths of c14_run.py exercise the library code ABOVE a transport; this one exercises the
backend's own transports and listeners, bare and under the library objects that delegate their close to them).

case = {"path": "aio", "params": {...}, "step": k | None}

params
  kind     "dgram"      backend.wrap_connected_datagram_socket() / create_udp_endpoint()  (AsyncioTransportDatagramSocketAdapter)
           "stream"     backend.wrap_stream_socket()                                       (AsyncioTransportStreamSocketAdapter)
           "tcplisten"  backend.create_tcp_listeners()                                     (ListenerSocketAdapter)
           "udplisten"  backend.create_udp_listeners()                                     (DatagramListenerSocketAdapter)
  level    what is closed:  "bare" the backend object itself
           dgram:     "endpoint" AsyncDatagramEndpoint, "client" AsyncUDPNetworkClient
           stream:    "endpoint" AsyncStreamEndpoint, "client" AsyncTCPNetworkClient, "tls" AsyncTLSStreamTransport (real
                      OpenSSL peer on the other socket), "tlsendpoint" AsyncStreamEndpoint over the TLS transport
           tcplisten: "server" AsyncStreamServer, "tls" AsyncTLSListener, "tlsserver" AsyncStreamServer(AsyncTLSListener)
           udplisten: "server" AsyncDatagramServer
  state    dgram / stream: "idle" | "recv" (another task is parked in the receive) | "sent" (something was sent before)
                           | "peerclosed" | "unread" (stream only)
           listeners:      "no" (serve() not running) | "parked" (serve() waiting for a client) | "busy" (a client is connected
                           / a datagram is being handled, its handler task parked)
  made     dgram: "wrap" | "create"         stream: "unix" (socketpair) | "tcp" (loopback)
  mode     how the close is run and disturbed
           "task"      aclose() in a task; `task.cancel()` right after task step k (k = 0: before its first step; None: never)
           "turns"     aclose() in a task; `task.cancel()` after k event loop turns of the caller (k = 0..6) - this also lands
                       BETWEEN the completion of the awaited future and the wake-up of the task
           "scope"     aclose() inside a cancel scope of the caller, `scope.cancel()` right after step k
           "force"     aclose_forcefully(obj)       "moveon0" / "timeout0"  aclose() under move_on_after(0) / timeout(0)
  closers  1 | 2 | 3 tasks closing the same object concurrently;  victim = index of the one that gets disturbed

oracle (the four clauses of C14, from the lines only; c14_aio.oracle)
  1. once a close has started the resource ends up closed: every OS socket behind the object has fileno() == -1 (and, for
     a TCP listener, this process holds no listening socket on its port any more: own-descriptor scan, confirmed by a
     real connection attempt when one is found), however the close ended;
  2. is_closing() is true;
  3. a second close (aclose()) and a third one (aclose_forcefully()) RETURN, normally - in particular no CancelledError
     in a task nobody cancelled; likewise every concurrent closer that was not disturbed;
  4. a running serve() ends.
Nothing here waits for the kernel after the set-up: transport.close() -> connection_lost() is a matter of loop turns, so
every wait is bounded in LOOP TURNS, not in seconds (set-up waits that involve the kernel: 5 s, InfraError when missed).
"""
from __future__ import annotations

import asyncio
import contextlib
import logging
import socket
import time
from typing import Any

from vlib import core
from vlib import c14_env as e14

from easynetwork.lowlevel.api_async.backend._asyncio.backend import AsyncIOBackend
from easynetwork.lowlevel.api_async.transports.utils import aclose_forcefully
from easynetwork.lowlevel.socket import INETSocketAttribute
from easynetwork.protocol import DatagramProtocol, StreamProtocol
from easynetwork.serializers.line import StringLineSerializer

HOST = "127.0.0.1"
SETTLE_TURNS = 100
OP_TURNS = 3000
OP_WALL = 8.0
MAX_TURN_K = 6


class TurnLoop(asyncio.SelectorEventLoop):
    def __init__(self) -> None:
        super().__init__()
        self.turns = 0

    def _run_once(self) -> None:
        self.turns += 1
        super()._run_once()


def kind_of(e: BaseException) -> str:
    if isinstance(e, asyncio.CancelledError):
        return "cancelled"
    if isinstance(e, TimeoutError):
        return "exc:Timeout"
    if isinstance(e, OSError):
        return "exc:OSError"
    return "exc:" + type(e).__name__


async def turns(n: int) -> None:
    for _ in range(n):
        await asyncio.sleep(0)


async def wait_io(cond, label: str, bound: float = 5.0) -> None:
    """set-up only: something the kernel / a worker thread has a part in"""
    t0 = time.monotonic()
    n = 0
    while not cond():
        n += 1
        if time.monotonic() - t0 > bound:
            raise core.InfraError(f"C14 aio set-up: {label} did not happen within {bound}s")
        await asyncio.sleep(0 if n % 20 else 0.001)


async def settle(cond, limit: int = SETTLE_TURNS) -> bool:
    n = 0
    while not cond():
        n += 1
        if n > limit:
            return False
        await asyncio.sleep(0)
    return True


async def bounded(tasks: list[asyncio.Task]) -> bool:
    """all tasks done?  Bounded by OP_TURNS loop turns AND OP_WALL seconds (both must be exceeded)"""
    loop = asyncio.get_running_loop()
    t0 = time.monotonic()
    n0 = loop.turns  # type: ignore[attr-defined]
    k = 0
    while not all(t.done() for t in tasks):
        k += 1
        if loop.turns - n0 > OP_TURNS and time.monotonic() - t0 > OP_WALL:  # type: ignore[attr-defined]
            return False
        await asyncio.sleep(0 if k % 50 else 0.0005)
    return True


def result_of(t: asyncio.Task) -> str:
    if not t.done():
        return "hang"
    if t.cancelled():
        return "cancelled"
    e = t.exception()
    return "ok" if e is None else kind_of(e)


def real_close(sock_like: Any) -> None:
    """release an OS socket the library leaked (asyncio hands out TransportSocket views without close())"""
    for s in (getattr(sock_like, "_sock", None), sock_like):
        if s is not None and hasattr(s, "close"):
            with contextlib.suppress(Exception):
                s.close()
                return


def port_held(addr: tuple[str, int]) -> bool:
    """does THIS process still own a listening TCP socket bound to that port?  (scan of /proc/self/fd: exact, and - unlike a
    connection attempt alone - not fooled by another process that was given the same ephemeral port after it was freed)"""
    import os

    try:
        fds = [int(x) for x in os.listdir("/proc/self/fd")]
    except OSError:
        return True
    for fd in fds:
        try:
            if not os.readlink(f"/proc/self/fd/{fd}").startswith("socket:"):
                continue
            dup = socket.socket(fileno=os.dup(fd))
        except OSError:
            continue
        try:
            if (dup.type == socket.SOCK_STREAM and dup.family == socket.AF_INET
                    and dup.getsockopt(socket.SOL_SOCKET, socket.SO_ACCEPTCONN) and dup.getsockname()[1] == addr[1]):
                return True
        except OSError:
            pass
        finally:
            dup.close()
    return False


def probe(addr: tuple[str, int]) -> str:
    """"refused": nothing of ours listens on the port any more;  "open": a listening socket of this process still takes
    connections there (confirmed by a real connection attempt, made only when the socket is known to be ours)"""
    if not port_held(addr):
        return "refused"
    s = socket.socket(socket.AF_INET, socket.SOCK_STREAM)
    s.settimeout(1.0)
    try:
        s.connect(addr)
    except ConnectionRefusedError:
        return "refused"
    except OSError:
        return "held"
    else:
        return "open"
    finally:
        s.close()


class Subject:
    def __init__(self) -> None:
        self.obj: Any = None
        self.socks: dict[str, Any] = {}
        self.addr: tuple[str, int] | None = None      # TCP listener: its port must refuse connections once closed
        self.serve_task: asyncio.Task | None = None
        self.bg: list[asyncio.Task] = []
        self.plain: list[Any] = []                    # plain sockets of the harness, closed at the end
        self.gate = None


def line_proto():
    return StreamProtocol(StringLineSerializer())


def dgram_proto():
    return DatagramProtocol(StringLineSerializer())


_CTX: dict[str, Any] = {}


def client_ctx():
    if "c" not in _CTX:
        _CTX["c"] = e14.client_context()        # (loading the CA file costs milliseconds: once per process)
    return _CTX["c"]


def server_ctx():
    if "s" not in _CTX:
        _CTX["s"] = e14.server_context()
    return _CTX["s"]


class Peer(e14.TLSPeer):
    """e14.TLSPeer with the process-wide server context (its own __init__ loads the certificate chain every time)"""

    def __init__(self, end: Any, handshake: str = "ok", after: str = "reply") -> None:
        import ssl

        self.end = end
        self.handshake = handshake
        self.after = after
        self.hs_delay = 0.0
        self.inc = ssl.MemoryBIO()
        self.out = ssl.MemoryBIO()
        self.obj = server_ctx().wrap_bio(self.inc, self.out, server_side=True)
        self.log: list[str] = []
        self.go_after = asyncio.Event()


class SockEnd:
    """what e14.TLSPeer needs from its end of the connection, over a real non-blocking socket"""

    def __init__(self, sock: socket.socket) -> None:
        sock.setblocking(False)
        self.sock = sock
        self.closing = False

    async def send_all(self, data) -> None:
        await asyncio.get_running_loop().sock_sendall(self.sock, bytes(data))

    async def recv_into(self, buf) -> int:
        return await asyncio.get_running_loop().sock_recv_into(self.sock, buf)

    async def aclose(self) -> None:
        self.closing = True
        self.sock.close()


# ------------------------------------------------------------------------------------------------------------------
# set-ups
# ------------------------------------------------------------------------------------------------------------------

async def setup_dgram(p: dict, be: AsyncIOBackend) -> Subject:
    from easynetwork.clients.async_udp import AsyncUDPNetworkClient
    from easynetwork.lowlevel.api_async.endpoints.datagram import AsyncDatagramEndpoint

    s = Subject()
    peer = socket.socket(socket.AF_INET, socket.SOCK_DGRAM)
    peer.bind((HOST, 0))
    s.plain.append(peer)
    level = p.get("level", "bare")
    if p.get("made") == "create" and level != "client":
        tr = await be.create_udp_endpoint(HOST, peer.getsockname()[1], local_address=(HOST, 0), family=socket.AF_INET)
        sock = None
    else:
        sock = socket.socket(socket.AF_INET, socket.SOCK_DGRAM)
        sock.bind((HOST, 0))
        sock.connect(peer.getsockname())
        tr = None
    if level == "client":
        if p.get("made") == "create":
            assert sock is not None
            sock.close()
            obj = AsyncUDPNetworkClient(peer.getsockname()[:2], dgram_proto(), be, local_address=(HOST, 0), family=socket.AF_INET)
        else:
            obj = AsyncUDPNetworkClient(sock, dgram_proto(), be)
        await obj.wait_connected()
        s.socks["sock"] = obj.socket
        send, recv = obj.send_packet, obj.recv_packet
    else:
        if tr is None:
            tr = await be.wrap_connected_datagram_socket(sock)
        s.socks["sock"] = tr.extra(INETSocketAttribute.socket)
        if level == "endpoint":
            obj = AsyncDatagramEndpoint(tr, dgram_proto())
            send, recv = obj.send_packet, obj.recv_packet
        else:
            obj = tr
            send, recv = (lambda x: tr.send(x.encode())), tr.recv
    s.obj = obj
    state = p.get("state", "idle")
    if state == "sent":
        await send("hello")
    elif state == "recv":
        async def receiver():
            with contextlib.suppress(Exception):
                await recv()
        s.bg.append(asyncio.ensure_future(receiver()))
        await turns(3)
    return s


def stream_pair(made: str) -> tuple[socket.socket, socket.socket]:
    if made != "tcp":
        return socket.socketpair()
    lst = socket.socket(socket.AF_INET, socket.SOCK_STREAM)
    try:
        lst.bind((HOST, 0))
        lst.listen(1)
        a = socket.socket(socket.AF_INET, socket.SOCK_STREAM)
        a.connect(lst.getsockname())
        lst.settimeout(5.0)
        b, _ = lst.accept()
    finally:
        lst.close()
    return a, b


async def setup_stream(p: dict, be: AsyncIOBackend) -> Subject:
    from easynetwork.clients.async_tcp import AsyncTCPNetworkClient
    from easynetwork.lowlevel.api_async.endpoints.stream import AsyncStreamEndpoint
    from easynetwork.lowlevel.api_async.transports.tls import AsyncTLSStreamTransport

    s = Subject()
    level = p.get("level", "bare")
    a, b = stream_pair("tcp" if level == "client" else p.get("made", "unix"))
    s.plain.append(b)
    if level == "client":
        obj = AsyncTCPNetworkClient(a, line_proto(), be)
        await obj.wait_connected()
        s.socks["sock"] = obj.socket
        recv = obj.recv_packet
        send = obj.send_packet
    else:
        tr = await be.wrap_stream_socket(a)
        s.socks["sock"] = tr.extra(INETSocketAttribute.socket)
        obj = tr
        if level in ("tls", "tlsendpoint"):
            peer = Peer(SockEnd(b), "ok", p.get("peer", "reply"))
            s.bg.append(asyncio.ensure_future(peer.run()))
            obj = await asyncio.wait_for(
                AsyncTLSStreamTransport.wrap(tr, client_ctx(), server_hostname="localhost",
                                             standard_compatible=bool(p.get("sc", True)), shutdown_timeout=5.0), 10.0)
            peer.go_after.set()
            await turns(3)
        if level in ("endpoint", "tlsendpoint"):
            obj = AsyncStreamEndpoint(obj, line_proto(), max_recv_size=1024)
            recv, send = obj.recv_packet, obj.send_packet
        else:
            recv, send = (lambda: obj.recv(1024)), (lambda x: obj.send_all(x.encode() + b"\n"))
    s.obj = obj
    state = p.get("state", "idle")
    if state == "peerclosed":
        b.close()
        await turns(3)
    elif state == "unread":
        b.send(b"unread\n")
        await turns(3)
    elif state == "sent":
        await send("hello")
    elif state == "recv":
        async def receiver():
            with contextlib.suppress(Exception):
                await recv()
        s.bg.append(asyncio.ensure_future(receiver()))
        await turns(3)
    return s


async def setup_tcplisten(p: dict, be: AsyncIOBackend) -> Subject:
    from easynetwork.lowlevel.api_async.servers.stream import AsyncStreamServer
    from easynetwork.lowlevel.api_async.transports.tls import AsyncTLSListener

    s = Subject()
    (lst,) = await be.create_tcp_listeners(HOST, 0, 16)
    raw = lst.extra(INETSocketAttribute.socket)
    s.socks["sock"] = raw
    s.addr = tuple(raw.getsockname()[:2])  # type: ignore[assignment]
    level = p.get("level", "bare")
    inner: Any = lst
    if level in ("tls", "tlsserver"):
        inner = AsyncTLSListener(lst, server_ctx(), handshake_timeout=30.0, shutdown_timeout=1.0,
                                 handshake_error_handler=lambda exc: None)
    gate = s.gate = asyncio.Event()
    if level in ("server", "tlsserver"):
        obj = AsyncStreamServer(inner, line_proto(), max_recv_size=1024)

        async def gen_handler(client):
            request = yield
            await gate.wait()
            await client.send_packet(request)

        serve = lambda: obj.serve(gen_handler)  # noqa: E731
    else:
        obj = inner

        async def stream_handler(stream):
            try:
                await stream.recv(1024)
                await gate.wait()
            finally:
                await aclose_forcefully(stream)

        serve = lambda: obj.serve(stream_handler)  # noqa: E731
    s.obj = obj
    state = p.get("state", "no")
    if state != "no":
        s.serve_task = asyncio.ensure_future(serve())
        await turns(4)
        if s.serve_task.done():
            raise core.InfraError(f"C14 aio set-up: serve() ended at once: {s.serve_task!r}")
    if state == "busy":
        before = len(asyncio.all_tasks())
        c = socket.socket(socket.AF_INET, socket.SOCK_STREAM)
        c.settimeout(5.0)
        c.connect(s.addr)
        s.plain.append(c)
        await wait_io(lambda: len(asyncio.all_tasks()) > before, "the accepted connection's task")
        await turns(4)
    return s


async def setup_udplisten(p: dict, be: AsyncIOBackend) -> Subject:
    from easynetwork.lowlevel.api_async.servers.datagram import AsyncDatagramServer

    s = Subject()
    (lst,) = await be.create_udp_listeners(HOST, 0)
    raw = lst.extra(INETSocketAttribute.socket)
    s.socks["sock"] = raw
    addr = tuple(raw.getsockname()[:2])
    level = p.get("level", "bare")
    gate = s.gate = asyncio.Event()
    started = asyncio.Event()
    if level == "server":
        obj = AsyncDatagramServer(lst, dgram_proto())

        async def gen_handler(ctx):
            started.set()
            yield
            await gate.wait()

        serve = lambda: obj.serve(gen_handler)  # noqa: E731
    else:
        obj = lst

        async def dgram_handler(data, address):
            started.set()
            await gate.wait()

        serve = lambda: obj.serve(dgram_handler)  # noqa: E731
    s.obj = obj
    state = p.get("state", "no")
    if state != "no":
        s.serve_task = asyncio.ensure_future(serve())
        await turns(4)
        if s.serve_task.done():
            raise core.InfraError(f"C14 aio set-up: serve() ended at once: {s.serve_task!r}")
    if state == "busy":
        c = socket.socket(socket.AF_INET, socket.SOCK_DGRAM)
        c.bind((HOST, 0))
        c.sendto(b"ping\n", addr)
        s.plain.append(c)
        await wait_io(started.is_set, "the datagram handler")
        await turns(2)
    return s


SETUPS = {"dgram": setup_dgram, "stream": setup_stream, "tcplisten": setup_tcplisten, "udplisten": setup_udplisten}


# ------------------------------------------------------------------------------------------------------------------
# one case
# ------------------------------------------------------------------------------------------------------------------

def _lib_name(chain: tuple[str, ...] | None) -> str:
    if not chain:
        return "-"
    own = ("closer", "sleep", "__sleep0", "main", "_run")
    for q in reversed(chain):
        if not q.startswith(own) and "<locals>" not in q:
            return q
    return chain[-1]


def run_case(case: dict) -> tuple[list[str], dict]:
    logging.getLogger("easynetwork").setLevel(logging.CRITICAL)
    logging.getLogger("asyncio").setLevel(logging.CRITICAL)
    p = case.get("params") or {}
    mode = p.get("mode", "task")
    k = case.get("step")
    inj = e14.Injector(k if (mode in ("task", "scope") and k) else None)
    lines: list[str] = []
    aux: dict[str, Any] = {}
    n_closers = int(p.get("closers", 1))
    victim = min(int(p.get("victim", 0)), n_closers - 1)

    async def main() -> None:
        loop = asyncio.get_running_loop()
        be = AsyncIOBackend()
        try:
            s = await SETUPS[p["kind"]](p, be)
        except (asyncio.TimeoutError, TimeoutError) as e:
            raise core.InfraError(f"C14 aio set-up timed out: {case}") from e
        try:
            await play(loop, be, s)
        finally:
            if s.gate is not None:
                s.gate.set()
            for t in ([s.serve_task] if s.serve_task is not None else []) + s.bg:
                if not t.done():
                    t.cancel()
            for t in ([s.serve_task] if s.serve_task is not None else []) + s.bg:
                with contextlib.suppress(BaseException):
                    await asyncio.wait_for(t, 5.0)
            for x in s.plain:
                with contextlib.suppress(Exception):
                    x.close()
            for x in s.socks.values():
                with contextlib.suppress(Exception):
                    if x.fileno() != -1:
                        real_close(x)

    async def play(loop, be, s: Subject) -> None:
        started = [False] * n_closers
        obj = s.obj
        scope_box: dict[str, Any] = {}

        async def closer(i: int) -> None:
            started[i] = True
            disturbed = i == victim
            if mode == "force" and disturbed:
                await aclose_forcefully(obj)
            elif mode == "moveon0" and disturbed:
                with be.move_on_after(0):
                    await obj.aclose()
            elif mode == "timeout0" and disturbed:
                with be.timeout(0):
                    await obj.aclose()
            elif mode == "scope" and disturbed:
                with be.open_cancel_scope() as scope:
                    inj.scope = scope
                    scope_box["scope"] = scope
                    await obj.aclose()
                if scope.cancelled_caught():
                    scope_box["caught"] = True
            else:
                await obj.aclose()

        tasks = [loop.create_task(closer(i)) for i in range(n_closers)]
        inj.arm(tasks[victim])
        if mode == "task" and k == 0:
            tasks[victim].cancel()
        elif mode == "turns" and k is not None:
            await turns(int(k))
            if not tasks[victim].done():
                aux["turn_chain"] = e14.coro_chain(tasks[victim].get_coro())
            tasks[victim].cancel()
        done = await bounded(tasks)
        inj.target = None
        res = [result_of(t) for t in tasks]
        outcome = res[victim]
        if outcome == "ok" and scope_box.get("caught"):
            outcome = "cancelled"
        if not done:
            for t in tasks:
                t.cancel()
            with contextlib.suppress(BaseException):
                await asyncio.wait(tasks, timeout=2.0)
        lines.append(f"steps {inj.n}")
        at = inj.injected_at or aux.get("turn_chain")
        if at is not None:
            lines.append("at " + _lib_name(at))
        lines.append(f"started {int(any(started))}")
        lines.append("outcome " + outcome)
        if n_closers > 1:
            lines.append("others " + " ".join(r for i, r in enumerate(res) if i != victim))

        def flags() -> str:
            out = " ".join(f"{n}={int(x.fileno() == -1)}" for n, x in s.socks.items())
            if s.addr is not None:
                out += " port=" + probe(s.addr)
            return out

        def all_closed() -> bool:
            return all(x.fileno() == -1 for x in s.socks.values())

        def serve_state() -> str:
            if s.serve_task is None:
                return "none"
            return "ended" if s.serve_task.done() else "running"

        await settle(lambda: all_closed() and serve_state() != "running")
        lines.append("inner " + flags())
        lines.append(f"closing {int(bool(obj.is_closing()))}")
        lines.append("serve " + serve_state())
        # a second close (graceful) and a third one (forceful), each from a task nobody cancels
        for name, fn in (("second", obj.aclose), ("third", lambda: aclose_forcefully(obj))):
            t0 = loop.turns
            t2 = loop.create_task(fn())
            ok = await bounded([t2])
            r = result_of(t2)
            if not ok:
                t2.cancel()
                with contextlib.suppress(BaseException):
                    await asyncio.wait({t2}, timeout=2.0)
            lines.append(f"{name} {r} prompt={int(loop.turns - t0 <= SETTLE_TURNS)}")
        await settle(lambda: all_closed() and serve_state() != "running")
        lines.append("inner-later " + flags())
        lines.append(f"closing-later {int(bool(obj.is_closing()))}")
        lines.append("serve-later " + serve_state())

    out = run_loop(main, inj)
    if out[0] == "exc":
        if isinstance(out[1], core.InfraError):
            raise out[1]
        lines.append(f"main-exc {type(out[1]).__name__}: {out[1]}")
    aux["chains"] = inj.chains
    aux["n"] = inj.n
    return lines, aux


def run_loop(coro_fn, inj: e14.Injector):
    e14.CountingTask._injector = inj
    loop = TurnLoop()
    loop.set_exception_handler(lambda lp, ctx: None)
    loop.set_task_factory(lambda lp, coro, **kw: e14.CountingTask(coro, loop=lp, **kw))
    asyncio.set_event_loop(loop)
    try:
        try:
            return ("ok", loop.run_until_complete(coro_fn()))
        except BaseException as e:  # noqa: BLE001
            return ("exc", e)
    finally:
        e14.CountingTask._injector = None
        try:
            for _ in range(3):
                pending = [t for t in asyncio.all_tasks(loop) if not t.done()]
                if not pending:
                    break
                for t in pending:
                    t.cancel()
                with contextlib.suppress(BaseException):
                    loop.run_until_complete(asyncio.wait(pending, timeout=5.0))
            with contextlib.suppress(BaseException):
                loop.run_until_complete(loop.shutdown_asyncgens())
            with contextlib.suppress(BaseException):
                loop.run_until_complete(loop.shutdown_default_executor())
        finally:
            asyncio.set_event_loop(None)
            loop.close()


# ------------------------------------------------------------------------------------------------------------------
# oracle / classes / generation
# ------------------------------------------------------------------------------------------------------------------

def _field(real: list[str], key: str) -> str:
    return next((ln[len(key) + 1:] for ln in real if ln.startswith(key + " ")), "")


NAMES = {
    ("dgram", "bare"): "asyncio datagram transport (backend.wrap_connected_datagram_socket / create_udp_endpoint)",
    ("dgram", "endpoint"): "AsyncDatagramEndpoint over the asyncio datagram transport",
    ("dgram", "client"): "AsyncUDPNetworkClient (asyncio backend)",
    ("stream", "bare"): "asyncio stream transport (backend.wrap_stream_socket)",
    ("stream", "endpoint"): "AsyncStreamEndpoint over the asyncio stream transport",
    ("stream", "client"): "AsyncTCPNetworkClient (asyncio backend)",
    ("stream", "tls"): "AsyncTLSStreamTransport over the asyncio stream transport",
    ("stream", "tlsendpoint"): "AsyncStreamEndpoint over AsyncTLSStreamTransport over the asyncio stream transport",
    ("tcplisten", "bare"): "TCP listener (backend.create_tcp_listeners)",
    ("tcplisten", "server"): "AsyncStreamServer over the asyncio TCP listener",
    ("tcplisten", "tls"): "AsyncTLSListener over the asyncio TCP listener",
    ("tcplisten", "tlsserver"): "AsyncStreamServer over AsyncTLSListener over the asyncio TCP listener",
    ("udplisten", "bare"): "UDP listener (backend.create_udp_listeners)",
    ("udplisten", "server"): "AsyncDatagramServer over the asyncio UDP listener",
}


def describe(case: dict, real: list[str]) -> str:
    p = case.get("params") or {}
    mode, k = p.get("mode", "task"), case.get("step")
    how = {"force": "aclose_forcefully()", "moveon0": "aclose() under move_on_after(0)", "timeout0": "aclose() under timeout(0)"}.get(mode)
    if how is None:
        if k is None:
            how = "aclose()"
        elif mode == "turns":
            how = f"aclose() cancelled after {k} loop turn(s)"
        elif mode == "scope":
            how = f"aclose() inside a cancel scope cancelled after task step {k}"
        else:
            how = f"aclose() cancelled after task step {k}"
        at = _field(real, "at")
        if at and k is not None:
            how += f" (parked in {at})"
    n = int(p.get("closers", 1))
    who = NAMES.get((p.get("kind"), p.get("level", "bare")), f"{p.get('kind')}/{p.get('level')}")
    conc = f", {n} concurrent closers (closer #{p.get('victim', 0)} is the disturbed one)" if n > 1 else ""
    return f"{who}, state {p.get('state', '-')}: {how}{conc} -> {_field(real, 'outcome')}"


def _open(flags: str) -> list[str]:
    bad = []
    for tok in flags.split():
        n, v = tok.split("=")
        if n == "port":
            if v != "refused":
                bad.append(f"port still accepts connections ({v})")
        elif v != "1":
            bad.append(f"OS socket '{n}' still open")
    return bad


def oracle(case: dict, real: list[str]) -> str | None:
    for ln in real:
        if ln.startswith(("harness-exc", "main-exc")):
            return f"unexpected failure: {ln}"
    p = case.get("params") or {}
    mode, k = p.get("mode", "task"), case.get("step")
    what = describe(case, real)
    outcome = _field(real, "outcome")
    requested = (mode in ("task", "turns", "scope") and k is not None)
    if outcome == "hang":
        return f"{what}: the close never ended"
    if outcome == "cancelled" and not requested:
        return f"{what}: the close ended with CancelledError although nobody cancelled it"
    for i, o in enumerate(_field(real, "others").split()):
        if o != "ok":
            return (f"{what}: another task closing the same object concurrently (nobody cancelled it) ended "
                    f"{'with CancelledError' if o == 'cancelled' else o}")
    serving = p.get("state") in ("parked", "busy") and p.get("kind") in ("tcplisten", "udplisten")
    if _field(real, "started") == "1":
        bad = _open(_field(real, "inner"))
        if bad:
            return f"{what}: the close has started but the resource did not end up closed: {', '.join(bad)}"
        if _field(real, "closing") != "1":
            return f"{what}: is_closing() is false after the close ended"
        if serving and _field(real, "serve") != "ended":
            return f"{what}: serve() is still running after the close"
    for name in ("second", "third"):
        v = _field(real, name)
        r = v.split()[0] if v else "missing"
        label = "a second close (aclose())" if name == "second" else "a third close (aclose_forcefully())"
        if r == "cancelled":
            return f"{what}: {label} raised CancelledError in a task nobody cancelled"
        if r != "ok":
            return f"{what}: {label} did not return normally: {r}"
        if "prompt=1" not in v and _field(real, "started") == "1":
            return f"{what}: {label} returned only after more than {SETTLE_TURNS} loop turns"
    bad = _open(_field(real, "inner-later"))
    if bad:
        return f"{what}: after the second and third close: {', '.join(bad)}"
    if _field(real, "closing-later") != "1":
        return f"{what}: is_closing() is false after the second close"
    if serving and _field(real, "serve-later") != "ended":
        return f"{what}: serve() is still running after the second close"
    return None


def nontrivial(case: dict, real: list[str]) -> str | None:
    p = case.get("params") or {}
    mode, k = p.get("mode", "task"), case.get("step")
    feats = [mode if (k is not None or mode not in ("task", "turns", "scope")) else "plain"]
    if k is not None and _field(real, "at"):
        feats.append("at-" + _field(real, "at").split(".")[-1])
    if int(p.get("closers", 1)) > 1:
        feats.append(f"closers{p['closers']}")
    if p.get("state") not in (None, "idle", "no"):
        feats.append(p["state"])
    return f"aio/{p.get('kind')}-{p.get('level', 'bare')}/" + "+".join(feats)


def shrink(case: dict):
    p = case.get("params") or {}
    if int(p.get("closers", 1)) > 1:
        yield {**case, "params": {**p, "closers": int(p["closers"]) - 1, "victim": min(int(p.get("victim", 0)), int(p["closers"]) - 2)}}
    if p.get("state") not in ("idle", "no", "parked", None):
        yield {**case, "params": {**p, "state": "parked" if p.get("kind") in ("tcplisten", "udplisten") else "idle"}}
    if p.get("level", "bare") != "bare":
        yield {**case, "params": {**p, "level": "bare", **({"made": "unix"} if p.get("kind") == "stream" else {})}}
    if p.get("made") == "create":
        yield {**case, "params": {**p, "made": "wrap"}}
    if case.get("step") and case["step"] > 1:
        yield {**case, "step": case["step"] - 1}


def known_key(case: dict, real: list[str], why: str) -> str:
    p = case.get("params") or {}
    return f"path=aio,kind={p.get('kind')},level={p.get('level', 'bare')},mode={p.get('mode')},why={'-'.join(why.split(': ', 2)[-1].split()[:5])}"


def configurations(tier: str) -> list[dict]:
    cfgs: list[dict] = []
    subjects: list[dict] = []
    for level in ("bare", "endpoint", "client"):
        for state in ("idle", "recv", "sent"):
            subjects.append({"kind": "dgram", "level": level, "state": state, "made": "wrap"})
    subjects.append({"kind": "dgram", "level": "bare", "state": "idle", "made": "create"})
    subjects.append({"kind": "dgram", "level": "client", "state": "idle", "made": "create"})
    for level, made in (("bare", "unix"), ("bare", "tcp"), ("endpoint", "unix"), ("client", "tcp")):
        for state in ("idle", "recv", "peerclosed", "unread"):
            subjects.append({"kind": "stream", "level": level, "state": state, "made": made})
    for sc in (True, False):
        subjects.append({"kind": "stream", "level": "tls", "state": "idle", "made": "unix", "sc": sc})
    subjects.append({"kind": "stream", "level": "tls", "state": "sent", "made": "tcp", "sc": True})
    subjects.append({"kind": "stream", "level": "tlsendpoint", "state": "idle", "made": "unix", "sc": True})
    for level in ("bare", "server", "tls", "tlsserver"):
        for state in ("no", "parked", "busy"):
            subjects.append({"kind": "tcplisten", "level": level, "state": state})
    for level in ("bare", "server"):
        for state in ("no", "parked", "busy"):
            subjects.append({"kind": "udplisten", "level": level, "state": state})
    for sub in subjects:
        for mode in ("task", "turns", "scope", "force", "moveon0", "timeout0"):
            cfgs.append({**sub, "mode": mode})
        tls = sub.get("level") in ("tls", "tlsendpoint")
        if sub["kind"] == "stream" and sub.get("level") in ("endpoint", "tlsendpoint"):
            # AsyncStreamEndpoint "requires task synchronization": its aclose() sits under the send guard, a concurrent
            # closer gets BusyResourceError by design - no concurrent closers at this level
            continue
        for n, victim in ((2, 0), (2, 1), (3, 1)):
            if tls and (n, victim) != (2, 0) and tier != "thorough":
                continue
            for mode in ("task", "turns", "force"):
                cfgs.append({**sub, "mode": mode, "closers": n, "victim": victim})
    return cfgs


def steps_of(params: dict, aux: dict) -> list[int]:
    """the cancellation points enumerated for a configuration, after its undisturbed base run"""
    mode = params.get("mode", "task")
    if mode == "task":
        return list(range(0, max(int(aux.get("n", 0)), 1) + 1))
    if mode == "scope":
        return list(range(1, max(int(aux.get("n", 0)), 1) + 1))
    if mode == "turns":
        return list(range(0, MAX_TURN_K + 1))
    return []


def corpus() -> list[dict]:
    def c(step, **params):
        return {"path": "aio", "params": params, "step": step}

    return [
        # a close of a UDP transport cancelled while it waits for connection_lost(), then closed again
        c(1, kind="dgram", level="bare", state="idle", made="wrap", mode="task"),
        c(1, kind="dgram", level="client", state="idle", made="wrap", mode="turns"),
        c(1, kind="dgram", level="endpoint", state="sent", made="wrap", mode="task", closers=2, victim=0),
        c(1, kind="udplisten", level="bare", state="parked", mode="task"),
        c(1, kind="udplisten", level="server", state="busy", mode="task", closers=2, victim=1),
        # a listener closed "immediately" while serve() is accepting
        c(None, kind="tcplisten", level="bare", state="parked", mode="force"),
        c(None, kind="tcplisten", level="server", state="busy", mode="moveon0"),
        c(1, kind="tcplisten", level="tls", state="parked", mode="task"),
        c(1, kind="tcplisten", level="tlsserver", state="busy", mode="scope"),
        c(2, kind="stream", level="bare", state="recv", made="tcp", mode="turns"),
        c(1, kind="stream", level="tls", state="idle", made="unix", sc=True, mode="task", closers=2, victim=0),
    ]
