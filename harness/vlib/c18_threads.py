"""
C18, standalone (threaded) servers: the REAL StandaloneTCPNetworkServer / StandaloneUDPNetworkServer with real OS threads.
Runs inside a WORKER PROCESS (see c18_pool.py): `python c18_threads.py` reads one JSON case per line on stdin and writes
one JSON result per line on stdout.

    {"mode": "threads", "kind": "tcp"|"udp", "progs": [[op, …], …], "jit": [[ms, …], …], "init_ms": d}

* `progs[i]`: calls of thread i, in order: serve | shutdown | shutdownT (shutdown(timeout=0.02)) | close | probe
  (is_serving) | echo (a fresh client connects, sends one line / datagram, waits for the answer).
  `jit[i][k]`: sleep (ms, from the case's PRNG) before the k-th call; all threads start behind one barrier.
* `init_ms`: the request handler's service_init sleeps that long (the close-guard window of the embedded serve_forever).
* epilogue (thread index n = the main thread): once every other thread is either finished or inside serve_forever:
  shutdown(), server_close(), join.

OS schedules are not controlled: this is a sampled stress run.  Lines (global order = order of the log lock):
    call <i> <op> / ret <i> <outcome>      logged by the calling thread immediately before / after the real call
    @up <i>                                is_up_event.set() of thread i's serve_forever (logged from the loop thread)
    @ret-close <i> open=<n>                listening sockets owned by this process right after server_close() returned
    @echo <i> <res> / @echo-start <i>      client outcome
    @hang <i> <op> + @stack …              watchdog expiry (call pending for more than WATCHDOG seconds)
    final closed=<b>
"""
from __future__ import annotations

import json
import logging
import os
import socket
import sys
import threading
import time
import traceback
from typing import Any

WATCHDOG = float(os.environ.get("C18_WATCHDOG", "25"))
ECHO_WAIT = 10.0


def _imports():
    from vlib import core  # noqa: F401  (sys.path for the repository under test)
    global StandaloneTCPNetworkServer, StandaloneUDPNetworkServer, AsyncStreamRequestHandler, AsyncDatagramRequestHandler
    global StreamProtocol, DatagramProtocol, StringLineSerializer, BusyResourceError, ServerAlreadyRunning, ServerClosedError
    from easynetwork.exceptions import BusyResourceError, ServerAlreadyRunning, ServerClosedError
    from easynetwork.protocol import DatagramProtocol, StreamProtocol
    from easynetwork.serializers.line import StringLineSerializer
    from easynetwork.servers.handlers import AsyncDatagramRequestHandler, AsyncStreamRequestHandler
    from easynetwork.servers.standalone_tcp import StandaloneTCPNetworkServer
    from easynetwork.servers.standalone_udp import StandaloneUDPNetworkServer


def our_socket_inodes() -> set[str]:
    res = set()
    for fd in os.listdir("/proc/self/fd"):
        try:
            t = os.readlink(f"/proc/self/fd/{fd}")
        except OSError:
            continue
        if t.startswith("socket:["):
            res.add(t[8:-1])
    return res


def our_listeners(kind: str) -> list[int]:
    """ports of the listening TCP sockets / unconnected bound UDP sockets owned by this process"""
    inodes = our_socket_inodes()
    ports = []
    path, want = ("/proc/net/tcp", "0A") if kind == "tcp" else ("/proc/net/udp", "07")
    try:
        with open(path) as f:
            next(f)
            for line in f:
                w = line.split()
                if len(w) > 9 and w[3] == want and w[9] in inodes:
                    ports.append(int(w[1].split(":")[1], 16))
    except OSError:
        pass
    return ports


class Up:
    def __init__(self, run: "Run", i: int) -> None:
        self.run, self.i = run, i

    def set(self) -> None:
        self.run.log(f"@up {self.i}")


class Run:
    def __init__(self, case: dict) -> None:
        self.case = case
        self.kind = case["kind"]
        self.progs = case["progs"]
        self.n = len(self.progs)
        self.lines: list[str] = []
        self.lock = threading.Lock()
        self.state: dict[int, tuple[str, float] | None] = {}
        self.token = ":" + os.urandom(6).hex()
        self.reply = ("ping" + self.token + "\n").encode()
        self.client_inodes: set[str] = set()
        init_s = case.get("init_ms", 0) / 1000.0
        token = self.token

        import asyncio

        class TH(AsyncStreamRequestHandler):
            async def service_init(self, exit_stack, server) -> None:
                if init_s:
                    await asyncio.sleep(init_s)

            async def handle(self, client):
                request = yield
                await client.send_packet(request + token)

        class UH(AsyncDatagramRequestHandler):
            async def service_init(self, exit_stack, server) -> None:
                if init_s:
                    await asyncio.sleep(init_s)

            async def handle(self, client):
                request = yield
                await client.send_packet(request + token)

        if self.kind == "tcp":
            self.server = StandaloneTCPNetworkServer("127.0.0.1", 0, StreamProtocol(StringLineSerializer()), TH())
        else:
            self.server = StandaloneUDPNetworkServer("127.0.0.1", 0, DatagramProtocol(StringLineSerializer()), UH())

    def log(self, s: str) -> None:
        with self.lock:
            self.lines.append(s)

    # ---- one call
    def do(self, i: int, op: str) -> None:
        srv = self.server
        if op == "echo":
            self.echo(i)
            return
        self.state[i] = (op, time.monotonic())
        self.log(f"call {i} {op}")
        out = "ok"
        try:
            if op == "serve":
                srv.serve_forever(is_up_event=Up(self, i))
            elif op == "shutdown":
                srv.shutdown()
            elif op == "shutdownT":
                srv.shutdown(timeout=0.02)
            elif op == "close":
                srv.server_close()
            elif op == "probe":
                out = f"serving={int(bool(srv.is_serving()))}"
            else:
                out = "exc:unknown-op"
        except ServerClosedError:
            out = "ServerClosedError"
        except ServerAlreadyRunning:
            out = "ServerAlreadyRunning"
        except BusyResourceError:
            out = "BusyResourceError"
        except BaseException as e:  # noqa: BLE001
            out = "exc:" + type(e).__name__
        extra = None
        if op == "close" and out == "ok":
            # a close that finds the portal already exited returns while the serve_forever thread is still running the
            # embedded server's __aexit__ (a few loop iterations, see docs/C18.md "observation 3"): give that thread a
            # grace period before judging; a server that stays open (swallowed BusyResourceError) is still caught
            first = n_open = len(our_listeners(self.kind))
            t_end = time.monotonic() + 1.5
            while n_open and time.monotonic() < t_end:
                time.sleep(0.01)
                n_open = len(our_listeners(self.kind))
            extra = f"@ret-close {i} first={first} open={n_open}"
        with self.lock:
            self.lines.append(f"ret {i} {out}")
            if extra:
                self.lines.append(extra)
        self.state[i] = None

    def echo(self, i: int) -> None:
        self.log(f"@echo-start {i}")
        ports = our_listeners(self.kind)
        if not ports:
            self.log(f"@echo {i} noaddr")
            return
        port = ports[0]
        res = "silent"
        s = socket.socket(socket.AF_INET, socket.SOCK_STREAM if self.kind == "tcp" else socket.SOCK_DGRAM)
        try:
            s.settimeout(ECHO_WAIT)
            s.connect(("127.0.0.1", port))
            if s.getsockname() == s.getpeername():
                raise ConnectionRefusedError
            s.sendall(b"ping\n")
            # a server that is not serving any more never answers: do not wait the full period for that
            deadline = time.monotonic() + ECHO_WAIT
            buf = b""
            s.settimeout(0.05)
            quiet_polls = 0
            while time.monotonic() < deadline:
                try:
                    d = s.recv(200)
                    if not d:
                        res = "eof"
                        break
                    buf += d
                    if buf.endswith(b"\n") or self.kind == "udp":
                        res = "ok" if buf.rstrip(b"\n") + b"\n" == self.reply else "garbled"
                        break
                except socket.timeout:
                    quiet_polls += 1
                    serving = False
                    try:
                        serving = bool(self.server.is_serving())
                    except Exception:
                        pass
                    if not serving and quiet_polls >= 4:
                        break
                except (ConnectionError, OSError):
                    res = "refused"
                    break
        except (ConnectionError, OSError):
            res = "refused"
        finally:
            if self.kind == "tcp":
                try:
                    s.setsockopt(socket.SOL_SOCKET, socket.SO_LINGER, b"\x01\x00\x00\x00\x00\x00\x00\x00")
                except OSError:
                    pass
            s.close()
        self.log(f"@echo {i} {res}")

    def thread_main(self, i: int, barrier: threading.Barrier) -> None:
        try:
            barrier.wait(timeout=30)
        except threading.BrokenBarrierError:
            return
        jit = self.case.get("jit", [])
        for k, op in enumerate(self.progs[i]):
            d = jit[i][k] if i < len(jit) and k < len(jit[i]) else 0
            if d:
                time.sleep(d / 1000.0)
            self.do(i, op)

    # ---- the whole history
    def run(self) -> list[str]:
        barrier = threading.Barrier(self.n + 1)
        threads = [threading.Thread(target=self.thread_main, args=(i, barrier), daemon=True) for i in range(self.n)]
        for t in threads:
            t.start()
        barrier.wait(timeout=30)
        hang = self.wait_settled(threads)
        e = self.n
        # epilogue: shutdown + server_close until the close has gone through (a shutdown racing with a start-up may
        # legitimately find nothing to stop, a close landing in the set-up of serve_forever is refused), then join
        closed = False
        for _ in range(40):
            if hang or closed:
                break
            for op in ("shutdown", "close"):
                th = threading.Thread(target=self.do, args=(e, op), daemon=True)
                th.start()
                hang = self.wait_done([th])
                if hang:
                    break
            with self.lock:
                last = next((ln for ln in reversed(self.lines) if ln.startswith(f"ret {e} ")), "")
            closed = last == f"ret {e} ok"
            if closed and our_listeners(self.kind):
                # server_close() returned normally and the server is still listening: go on until it really is
                # closed (otherwise the serve_forever threads never end and the run could only time out)
                self.log("@close-ineffective")
                closed = False
            if not closed:
                time.sleep(0.02)
        if not hang:
            hang = self.wait_done(threads)
        self.log(f"final closed={int(not our_listeners(self.kind))}")
        return self.lines

    def wait_settled(self, threads: list[threading.Thread]) -> bool:
        """wait until nothing moves any more: every live thread is inside a call and no line has been logged for a
        while (threads inside serve_forever, or inside a shutdown that waits for a server somebody else must stop,
        stay there).  Returns True on watchdog expiry."""
        last_n, last_t = -1, time.monotonic()
        while True:
            alive = [k for k, t in enumerate(threads) if t.is_alive()]
            if not alive:
                return False
            with self.lock:
                n = len(self.lines)
            now = time.monotonic()
            if n != last_n or any(self.state.get(k) is None for k in alive):
                last_n, last_t = n, now
            elif now - last_t > 0.25:
                return False
            if now - last_t > WATCHDOG:
                self.report_hang(alive[0], "settle")
                return True
            time.sleep(0.005)

    def wait_done(self, threads: list[threading.Thread]) -> bool:
        t_start = time.monotonic()
        while any(t.is_alive() for t in threads):
            if time.monotonic() - t_start > WATCHDOG:
                pend = [(i, st[0]) for i, st in list(self.state.items()) if st is not None]
                i, op = pend[0] if pend else (-1, "join")
                self.report_hang(i, op)
                return True
            time.sleep(0.005)
        return False

    def report_hang(self, i: int, op: str) -> None:
        self.log(f"@hang {i} {op}")
        frames = sys._current_frames()
        for th in threading.enumerate():
            fr = frames.get(th.ident)
            if fr is None:
                continue
            st = traceback.extract_stack(fr)[-4:]
            self.log("@stack " + th.name + " " + " <- ".join(f"{os.path.basename(f.filename)}:{f.lineno}:{f.name}" for f in reversed(st)))


def probe_fix_flag() -> int:
    """behavioural probe of the code under test: does BaseStandaloneNetworkServerImpl let a BusyResourceError raised
    behind the portal through (1) or swallow it with the other RuntimeErrors (0)?"""
    srv = StandaloneTCPNetworkServer("127.0.0.1", 0, StreamProtocol(StringLineSerializer()), _DummyHandler())
    pre = "_BaseStandaloneNetworkServerImpl__"
    object.__setattr__(srv, pre + "threads_portal", object())
    object.__setattr__(srv, pre + "server", object())

    def f(portal, server):
        raise BusyResourceError("probe")

    try:
        srv._run_sync_or(f, None)
        return 0
    except BusyResourceError:
        return 1
    finally:
        object.__setattr__(srv, pre + "threads_portal", None)
        object.__setattr__(srv, pre + "server", None)


def _DummyHandler():
    class H(AsyncStreamRequestHandler):
        async def handle(self, client):
            yield

    return H()


def main() -> None:
    sys.path.insert(0, os.path.dirname(os.path.dirname(os.path.abspath(__file__))))
    _imports()
    logging.getLogger("easynetwork").setLevel(logging.CRITICAL)
    out = sys.stdout
    for line in sys.stdin:
        line = line.strip()
        if not line:
            continue
        req = json.loads(line)
        if req.get("cmd") == "fix_flag":
            out.write(json.dumps({"fix": probe_fix_flag()}) + "\n")
            out.flush()
            continue
        try:
            lines = Run(req["case"]).run()
        except BaseException as e:  # noqa: BLE001
            lines = [f"harness-exc {type(e).__name__}: {e}"]
        out.write(json.dumps({"id": req.get("id"), "lines": lines}) + "\n")
        out.flush()
        if any(ln.startswith("@hang") for ln in lines):
            os._exit(3)        # blocked threads cannot be cleaned up: the pool starts a fresh worker


if __name__ == "__main__":
    main()
