"""
C18, standalone (threaded) servers: the REAL StandaloneTCPNetworkServer / StandaloneUDPNetworkServer with real OS threads.
Runs inside a WORKER PROCESS (see c18_pool.py): `python c18_threads.py` reads one JSON case per line on stdin and writes
one JSON result per line on stdout.

    {"mode": "threads", "kind": "tcp"|"udp", "progs": [[op, …], …], "jit": [[ms, …], …], "init_ms": d}

* `progs[i]`: calls of thread i, in order: serve | shutdown | shutdownT (shutdown(timeout=0.02)) | close | probe
  (is_serving) | echo (a fresh client connects, sends one line / datagram, waits for the answer) |
  tstart (`NetworkServerThread(server).start()`: serve_forever runs in a thread of its own — model caller <v>, numbered
  from n+1 —, start() waits for its private is_up event) | tjoin / tjoinT (`join()` / `join(timeout=0.02)` of the most
  recent NetworkServerThread that has begun to run: shutdown + Thread.join) | ws (wait, at most 0.5 s, until a
  serve_forever is parked in the request handler's service_init: makes the next call land in the start-up window
  without relying on a jitter) | bye (a fresh client connects, sends the line `bye`, reads the answer, then waits for the
  end of the stream: the request handler answers and CLOSES THE CONNECTION ITSELF (`await client.aclose()`), the client
  closes its side only after the server's FIN - the server is the active closer, its side of the connection goes to
  TIME_WAIT on the server's port; UDP: an ordinary exchange).
  `"port": "fixed"`: the server is bound to a FIXED port (reserved for this history, vlib/c18_ports.py) instead of port 0:
  a standalone server re-creates its listeners at every serve_forever(), so a restart has to bind the same port again.
  NetworkServerThread gets the real server behind `_LoggedServer` (a subclass of the public AbstractNetworkServer that
  only logs and delegates): the `serve_forever` / `shutdown` calls it makes are logged as ordinary `call`/`ret` lines.
  `jit[i][k]`: sleep (ms, from the case's PRNG) before the k-th call; all threads start behind one barrier.
* `init_ms`: the request handler's service_init sleeps that long (the close-guard window of the embedded serve_forever).
* epilogue (thread index n = the main thread): once every other thread is either finished or inside serve_forever:
  shutdown(), server_close(), join.

OS schedules are not controlled: this is a sampled stress run — except in the GATED histories (`"gated": 1`, class GRun of
vlib/c18_gates.py, a subclass of Run using the three extension points `server_options` / `busy` / `dead_loop` below) and in
the direct ThreadsPortal histories (`"mode": "portal"`, c18_gates.run_portal), which this worker also runs.
Lines (global order = order of the log lock):
    call <i> <op> / ret <i> <outcome>      logged by the calling thread immediately before / after the real call
    @up <i>                                is_up_event.set() of thread i's serve_forever (logged from the loop thread)
    @ret-close <i> open=<n>                listening sockets owned by this process right after server_close() returned
    @echo <i> <res> / @echo-start <i>      client outcome
    @call <i> tstart <v> / @ret <i> tstart <outcome> alive=<b>      NetworkServerThread.start() (alive: server thread alive)
    @call <i> tjoin <v> / @ret <i> tjoin <outcome> alive=<b>        NetworkServerThread.join()
    @bye <i> <res> eof=<b> …               client outcome of `bye` (+ what the kernel holds on the port, SO_REUSEADDR of the
                                           listening sockets read through server.get_sockets(): evidence only)
    @serve-exc <i> <text>                  what a serve_forever that ended with an unexpected exception raised
    @hang <i> <op> + @stack …              watchdog expiry (call pending for more than WATCHDOG seconds; for a start()
                                           whose server thread has ENDED: still blocked DEAD_START seconds later)
    final closed=<b>
"""
from __future__ import annotations

import json
import logging
import os
import socket
import sys
import threading
import time
import traceback
from typing import Any

WATCHDOG = float(os.environ.get("C18_WATCHDOG", "25"))
DEAD_START = float(os.environ.get("C18_DEAD_START", "10"))    # start() still blocked that long after its server thread ended
WS_WAIT = 0.5
ECHO_WAIT = 10.0


def _imports():
    from vlib import core  # noqa: F401  (sys.path for the repository under test)
    global StandaloneTCPNetworkServer, StandaloneUDPNetworkServer, AsyncStreamRequestHandler, AsyncDatagramRequestHandler
    global StreamProtocol, DatagramProtocol, StringLineSerializer, BusyResourceError, ServerAlreadyRunning, ServerClosedError
    global NetworkServerThread, _LoggedServer
    from easynetwork.servers.abc import AbstractNetworkServer
    from easynetwork.servers.threads_helper import NetworkServerThread
    from easynetwork.exceptions import BusyResourceError, ServerAlreadyRunning, ServerClosedError
    from easynetwork.protocol import DatagramProtocol, StreamProtocol
    from easynetwork.serializers.line import StringLineSerializer
    from easynetwork.servers.handlers import AsyncDatagramRequestHandler, AsyncStreamRequestHandler
    from easynetwork.servers.standalone_tcp import StandaloneTCPNetworkServer
    from easynetwork.servers.standalone_udp import StandaloneUDPNetworkServer

    class _LoggedServer(AbstractNetworkServer):
        """what a NetworkServerThread is given: the real server behind a proxy that logs the calls the helper makes
        (`serve_forever(is_up_event=<its private event>)` from the new thread = model caller v, `shutdown(timeout)` from
        the thread that calls join()) and delegates them unchanged"""

        def __init__(self, run: "Run", v: int) -> None:
            self.run, self.v = run, v
            self.began = False

        def is_serving(self) -> bool:
            return self.run.server.is_serving()

        def serve_forever(self, *, is_up_event=None) -> None:
            self.began = True
            self.run.lifecycle(self.v, "serve", is_up_event, reraise=True)

        def server_close(self) -> None:
            self.run.lifecycle(self.run.me(), "close", reraise=True)

        def shutdown(self, timeout: float | None = None) -> None:
            self.run.lifecycle(self.run.me(), "shutdown" if timeout is None else "shutdownT", timeout, reraise=True)


def our_socket_inodes() -> set[str]:
    res = set()
    for fd in os.listdir("/proc/self/fd"):
        try:
            t = os.readlink(f"/proc/self/fd/{fd}")
        except OSError:
            continue
        if t.startswith("socket:["):
            res.add(t[8:-1])
    return res


def our_listeners(kind: str) -> list[int]:
    """ports of the listening TCP sockets / unconnected bound UDP sockets owned by this process"""
    inodes = our_socket_inodes()
    ports = []
    path, want = ("/proc/net/tcp", "0A") if kind == "tcp" else ("/proc/net/udp", "07")
    try:
        with open(path) as f:
            next(f)
            for line in f:
                w = line.split()
                if len(w) > 9 and w[3] == want and w[9] in inodes:
                    ports.append(int(w[1].split(":")[1], 16))
    except OSError:
        pass
    return ports


class Up:
    def __init__(self, run: "Run", i: int, inner: Any = None) -> None:
        self.run, self.i, self.inner = run, i, inner

    def set(self) -> None:
        self.run.log(f"@up {self.i}")
        if self.inner is not None:
            self.inner.set()


class Run:
    def __init__(self, case: dict) -> None:
        self.case = case
        self.kind = case["kind"]
        self.progs = case["progs"]
        self.n = len(self.progs)
        self.lines: list[str] = []
        self.lock = threading.Lock()
        self.state: dict[int, tuple[str, float] | None] = {}
        self.token = ":" + os.urandom(6).hex()
        self.reply = ("ping" + self.token + "\n").encode()
        self.client_inodes: set[str] = set()
        init_s = case.get("init_ms", 0) / 1000.0
        token = self.token
        self.tls = threading.local()
        self.insetup = insetup = threading.Event()      # a serve_forever is parked in service_init
        self.nsts: list[tuple[Any, Any]] = []           # (NetworkServerThread, its _LoggedServer), creation order
        self.starting: dict[int, Any] = {}              # thread i is inside NetworkServerThread.start()
        self.dead_since: dict[int, float] = {}
        self.must_finish: set[int] = set()              # threads inside a join() that has to end without anybody's help
        self.n_virtual = 0

        import asyncio

        async def slow_init() -> None:
            insetup.set()
            try:
                if init_s:
                    await asyncio.sleep(init_s)
            finally:
                insetup.clear()

        class TH(AsyncStreamRequestHandler):
            async def service_init(self, exit_stack, server) -> None:
                await slow_init()

            async def handle(self, client):
                request = yield
                await client.send_packet(request + token)
                if request == "bye":
                    # the server closes the connection first (graceful close: FIN, not RST)
                    await client.aclose()

        class UH(AsyncDatagramRequestHandler):
            async def service_init(self, exit_stack, server) -> None:
                await slow_init()

            async def handle(self, client):
                request = yield
                await client.send_packet(request + token)

        opts = self.server_options()
        self.reservation = None
        port = 0
        if case.get("port") == "fixed":
            from vlib import c18_ports
            self.reservation = c18_ports.reserve(self.kind)
            port = self.reservation.port
        self.fixed_port = port
        if self.kind == "tcp":
            self.server = StandaloneTCPNetworkServer("127.0.0.1", port, StreamProtocol(StringLineSerializer()), TH(), **opts)
        else:
            self.server = StandaloneUDPNetworkServer("127.0.0.1", port, DatagramProtocol(StringLineSerializer()), UH(), **opts)

    # ---- extension points of the gated histories (vlib/c18_gates.py)
    def server_options(self) -> dict:
        """extra (public) constructor parameters of the server: `backend=`, `runner_options=`"""
        return {}

    def busy(self) -> bool:
        """a thread is parked at a gate / waits for a scripted event: the history is still moving"""
        return False

    def dead_loop(self) -> "tuple[int, str] | None":
        """a call that nothing can complete any more (its event loop has been closed long ago)"""
        return None

    def log(self, s: str) -> None:
        with self.lock:
            self.lines.append(s)

    # ---- one call
    def me(self) -> int:
        return getattr(self.tls, "i", -1)

    def lifecycle(self, i: int, op: str, arg: Any = None, reraise: bool = False) -> str:
        """one real lifecycle call of caller i, bracketed by its `call` / `ret` lines"""
        srv = self.server
        if op == "serve" and self.fixed_port:
            # what the previous runs left on the port (evidence for the replay reader)
            from vlib import c18_ports
            self.log(f"@port {i} " + c18_ports.state_text(self.fixed_port, self.kind))
        self.log(f"call {i} {op}")
        out = "ok"
        exc: BaseException | None = None
        try:
            if op == "serve":
                srv.serve_forever(is_up_event=Up(self, i, arg))
            elif op == "shutdown":
                srv.shutdown()
            elif op == "shutdownT":
                srv.shutdown(timeout=0.02 if arg is None else arg)
            elif op == "close":
                srv.server_close()
            elif op == "probe":
                out = f"serving={int(bool(srv.is_serving()))}"
            else:
                out = "exc:unknown-op"
        except ServerClosedError as e:
            out, exc = "ServerClosedError", e
        except ServerAlreadyRunning as e:
            out, exc = "ServerAlreadyRunning", e
        except BusyResourceError as e:
            out, exc = "BusyResourceError", e
        except BaseException as e:  # noqa: BLE001
            out, exc = "exc:" + type(e).__name__, e
        extra = None
        if op == "serve" and out.startswith("exc:"):
            extra = f"@serve-exc {i} " + self.describe_exc(exc)
        if op == "close" and out == "ok":
            # a close that finds the portal already exited returns while the serve_forever thread is still running the
            # embedded server's __aexit__ (a few loop iterations, see docs/C18.md "observation 3"): give that thread a
            # grace period before judging; a server that stays open (swallowed BusyResourceError) is still caught
            first = n_open = len(our_listeners(self.kind))
            t_end = time.monotonic() + 1.5
            while n_open and time.monotonic() < t_end:
                time.sleep(0.01)
                n_open = len(our_listeners(self.kind))
            extra = f"@ret-close {i} first={first} open={n_open}"
        with self.lock:
            self.lines.append(f"ret {i} {out}")
            if extra:
                self.lines.append(extra)
        if reraise and exc is not None:
            raise exc
        return out

    def describe_exc(self, exc: "BaseException | None") -> str:
        subs = [repr(sub) for sub in getattr(exc, "exceptions", ()) or ()]
        text = (f"{type(exc).__name__}({str(getattr(exc, 'message', ''))!r}: " + ", ".join(subs) + ")" if subs else repr(exc))
        text = text[:400].replace("\n", " ")
        if self.fixed_port:
            from vlib import c18_ports
            text += f" [fixed port {self.fixed_port}: {c18_ports.state_text(self.fixed_port, self.kind)}]"
        return text

    def do(self, i: int, op: str) -> None:
        self.tls.i = i
        if op == "echo":
            self.echo(i)
            return
        if op == "bye":
            self.bye(i)
            return
        if op == "ws":
            hit = self.insetup.wait(WS_WAIT)
            self.log(f"@ws {i} hit={int(hit)}")
            return
        if op in ("tstart", "tjoin", "tjoinT"):
            self.helper(i, op)
            return
        self.state[i] = (op, time.monotonic())
        self.lifecycle(i, op)
        self.state[i] = None

    def helper(self, i: int, op: str) -> None:
        """NetworkServerThread.start() / .join()"""
        if op == "tstart":
            with self.lock:
                v = self.n + 1 + self.n_virtual
                self.n_virtual += 1
                proxy = _LoggedServer(self, v)
                nst = NetworkServerThread(proxy, daemon=True, name=f"nst-{v}")
                self.nsts.append((nst, proxy))
        else:
            with self.lock:
                cands = [(t, p) for t, p in self.nsts if p.began]
            if not cands:
                self.log(f"@{op} {i} none")
                return
            nst, proxy = cands[-1]
            v = proxy.v
            if op == "tjoin":
                # the server of this helper thread was up before join() is called: join() = shutdown() + Thread.join()
                # stops it and returns by itself; the epilogue must not come to its rescue (a join() issued before the
                # server is up may find nothing to stop and then waits for whoever stops the server: not a hang)
                with self.lock:
                    if f"@up {v}" in self.lines:
                        self.must_finish.add(i)
        self.state[i] = (op, time.monotonic())
        self.log(f"@call {i} {op} {v}")
        out = "ok"
        try:
            if op == "tstart":
                self.starting[i] = nst
                try:
                    nst.start()
                finally:
                    self.starting.pop(i, None)
                    self.dead_since.pop(i, None)
            elif op == "tjoin":
                nst.join()
            else:
                nst.join(timeout=0.02)
        except BaseException as e:  # noqa: BLE001
            out = "exc:" + type(e).__name__
        self.log(f"@ret {i} {op} {out} alive={int(nst.is_alive())}")
        self.must_finish.discard(i)
        self.state[i] = None

    def stuck_start(self) -> int | None:
        """a thread still inside NetworkServerThread.start() although the server thread it waits for has ENDED more
        than DEAD_START seconds ago: nobody else can set the helper's private event any more"""
        now = time.monotonic()
        for i, nst in list(self.starting.items()):
            if nst.ident is not None and not nst.is_alive():
                if now - self.dead_since.setdefault(i, now) > DEAD_START:
                    return i
        return None

    def echo(self, i: int) -> None:
        self.log(f"@echo-start {i}")
        ports = our_listeners(self.kind)
        if not ports:
            self.log(f"@echo {i} noaddr")
            return
        port = ports[0]
        res = "silent"
        s = socket.socket(socket.AF_INET, socket.SOCK_STREAM if self.kind == "tcp" else socket.SOCK_DGRAM)
        try:
            s.settimeout(ECHO_WAIT)
            s.connect(("127.0.0.1", port))
            if s.getsockname() == s.getpeername():
                raise ConnectionRefusedError
            s.sendall(b"ping\n")
            # a server that is not serving any more never answers: do not wait the full period for that
            deadline = time.monotonic() + ECHO_WAIT
            buf = b""
            s.settimeout(0.05)
            quiet_polls = 0
            while time.monotonic() < deadline:
                try:
                    d = s.recv(200)
                    if not d:
                        res = "eof"
                        break
                    buf += d
                    if buf.endswith(b"\n") or self.kind == "udp":
                        res = "ok" if buf.rstrip(b"\n") + b"\n" == self.reply else "garbled"
                        break
                except socket.timeout:
                    quiet_polls += 1
                    serving = False
                    try:
                        serving = bool(self.server.is_serving())
                    except Exception:
                        pass
                    if not serving and quiet_polls >= 4:
                        break
                except (ConnectionError, OSError):
                    res = "refused"
                    break
        except (ConnectionError, OSError):
            res = "refused"
        finally:
            if self.kind == "tcp":
                try:
                    s.setsockopt(socket.SOL_SOCKET, socket.SO_LINGER, b"\x01\x00\x00\x00\x00\x00\x00\x00")
                except OSError:
                    pass
            s.close()
        self.log(f"@echo {i} {res}")

    def bye(self, i: int) -> None:
        """a client whose connection the SERVER closes first (the handler answers `bye` and calls client.aclose()); the
        client waits for the server's FIN before it closes its own side: the TIME_WAIT remnant is on the server's port"""
        if self.kind != "tcp":
            self.echo(i)
            return
        self.log(f"@bye-start {i}")
        ports = our_listeners(self.kind)
        if not ports:
            self.log(f"@bye {i} noaddr eof=0")
            return
        port = self.fixed_port or ports[0]
        res, eof = "silent", 0
        s = socket.socket(socket.AF_INET, socket.SOCK_STREAM)
        try:
            s.settimeout(ECHO_WAIT)
            s.connect(("127.0.0.1", port))
            if s.getsockname() == s.getpeername():
                raise ConnectionRefusedError
            s.sendall(b"bye\n")
            buf = b""
            while not buf.endswith(b"\n"):
                d = s.recv(200)
                if not d:
                    break
                buf += d
            res = "ok" if buf == ("bye" + self.token + "\n").encode() else ("eof" if not buf else "garbled")
            if res == "ok":
                # the server's FIN (its handler closes the client right after the answer)
                s.settimeout(5.0)
                while True:
                    d = s.recv(200)
                    if not d:
                        eof = 1
                        break
        except socket.timeout:
            pass
        except (ConnectionError, OSError):
            res = "refused" if res == "silent" else res
        finally:
            s.close()
        extra = ""
        try:
            from vlib import c18_ports
            # SO_REUSEADDR of the listening sockets as the public API shows them (evidence; POSIX servers set it)
            vals = sorted({int(bool(p.getsockopt(socket.SOL_SOCKET, socket.SO_REUSEADDR))) for p in self.server.get_sockets()})
            extra = f" reuseaddr={','.join(map(str, vals)) or 'na'} {c18_ports.state_text(port, self.kind).replace(' ', ',')}"
        except Exception as e:  # noqa: BLE001
            extra = f" reuseaddr=err:{type(e).__name__}"
        self.log(f"@bye {i} {res} eof={eof}{extra}")

    def thread_main(self, i: int, barrier: threading.Barrier) -> None:
        try:
            barrier.wait(timeout=30)
        except threading.BrokenBarrierError:
            return
        jit = self.case.get("jit", [])
        for k, op in enumerate(self.progs[i]):
            d = jit[i][k] if i < len(jit) and k < len(jit[i]) else 0
            if d:
                time.sleep(d / 1000.0)
            self.do(i, op)

    # ---- the whole history
    def run(self) -> list[str]:
        barrier = threading.Barrier(self.n + 1)
        threads = [threading.Thread(target=self.thread_main, args=(i, barrier), daemon=True) for i in range(self.n)]
        for t in threads:
            t.start()
        barrier.wait(timeout=30)
        hang = self.wait_settled(threads)
        e = self.n
        # epilogue: shutdown + server_close until the close has gone through (a shutdown racing with a start-up may
        # legitimately find nothing to stop, a close landing in the set-up of serve_forever is refused), then join
        closed = False
        for _ in range(40):
            if hang or closed:
                break
            for op in ("shutdown", "close"):
                th = threading.Thread(target=self.do, args=(e, op), daemon=True)
                th.start()
                hang = self.wait_done([th])
                if hang:
                    break
            with self.lock:
                last = next((ln for ln in reversed(self.lines) if ln.startswith(f"ret {e} ")), "")
            closed = last == f"ret {e} ok"
            if closed and our_listeners(self.kind):
                # server_close() returned normally and the server is still listening: go on until it really is
                # closed (otherwise the serve_forever threads never end and the run could only time out)
                self.log("@close-ineffective")
                closed = False
            if not closed:
                time.sleep(0.02)
        if not hang:
            hang = self.wait_done(threads + [t for t, _ in self.nsts])
        self.log(f"final closed={int(not our_listeners(self.kind))}")
        if self.reservation is not None:
            self.reservation.release()
        return self.lines

    def wait_settled(self, threads: list[threading.Thread]) -> bool:
        """wait until nothing moves any more: every live thread is inside a call and no line has been logged for a
        while (threads inside serve_forever, or inside a shutdown that waits for a server somebody else must stop,
        stay there).  Returns True on watchdog expiry."""
        last_n, last_t = -1, time.monotonic()
        while True:
            alive = [k for k, t in enumerate(threads) if t.is_alive()]
            if not alive:
                return False
            with self.lock:
                n = len(self.lines)
            now = time.monotonic()
            joining = [k for k in alive if k in self.must_finish]
            if n != last_n or joining or any(self.state.get(k) is None for k in alive) or self.busy():
                last_n, last_t = n, now
            elif now - last_t > 0.25:
                return False
            for k in joining:
                st = self.state.get(k)
                if st is not None and now - st[1] > WATCHDOG:
                    self.report_hang(k, st[0])
                    return True
            if now - last_t > WATCHDOG:
                self.report_hang(alive[0], "settle")
                return True
            stuck = self.stuck_start()
            if stuck is not None:
                self.report_hang(stuck, "tstart")
                return True
            dead = self.dead_loop()
            if dead is not None:
                self.report_hang(*dead)
                return True
            time.sleep(0.005)

    def wait_done(self, threads: list[threading.Thread]) -> bool:
        t_start = time.monotonic()
        while any(t.is_alive() for t in threads):
            if time.monotonic() - t_start > WATCHDOG:
                pend = [(i, st[0]) for i, st in list(self.state.items()) if st is not None]
                i, op = pend[0] if pend else (-1, "join")
                self.report_hang(i, op)
                return True
            stuck = self.stuck_start()
            if stuck is not None:
                self.report_hang(stuck, "tstart")
                return True
            dead = self.dead_loop()
            if dead is not None:
                self.report_hang(*dead)
                return True
            time.sleep(0.005)
        return False

    def report_hang(self, i: int, op: str) -> None:
        self.log(f"@hang {i} {op}")
        frames = sys._current_frames()
        for th in threading.enumerate():
            fr = frames.get(th.ident)
            if fr is None:
                continue
            st = traceback.extract_stack(fr)[-5:]
            self.log("@stack " + th.name + " " + " <- ".join(f"{os.path.basename(f.filename)}:{f.lineno}:{f.name}" for f in reversed(st)))


def probe_fix_flag() -> int:
    """behavioural probe of the code under test: does BaseStandaloneNetworkServerImpl let a BusyResourceError raised
    behind the portal through (1) or swallow it with the other RuntimeErrors (0)?"""
    srv = StandaloneTCPNetworkServer("127.0.0.1", 0, StreamProtocol(StringLineSerializer()), _DummyHandler())
    pre = "_BaseStandaloneNetworkServerImpl__"
    object.__setattr__(srv, pre + "threads_portal", object())
    object.__setattr__(srv, pre + "server", object())

    def f(portal, server):
        raise BusyResourceError("probe")

    try:
        srv._run_sync_or(f, None)
        return 0
    except BusyResourceError:
        return 1
    finally:
        object.__setattr__(srv, pre + "threads_portal", None)
        object.__setattr__(srv, pre + "server", None)


def _DummyHandler():
    class H(AsyncStreamRequestHandler):
        async def handle(self, client):
            yield

    return H()


def main() -> None:
    sys.path.insert(0, os.path.dirname(os.path.dirname(os.path.abspath(__file__))))
    _imports()
    logging.getLogger("easynetwork").setLevel(logging.CRITICAL)
    out = sys.stdout
    for line in sys.stdin:
        line = line.strip()
        if not line:
            continue
        req = json.loads(line)
        if req.get("cmd") == "fix_flag":
            out.write(json.dumps({"fix": probe_fix_flag()}) + "\n")
            out.flush()
            continue
        try:
            case = req["case"]
            if case.get("mode") == "portal":
                from vlib import c18_gates
                lines = c18_gates.run_portal(case, WATCHDOG, DEAD_START)
            elif case.get("gated"):
                from vlib import c18_gates
                lines = c18_gates.grun_class(sys.modules[__name__])(case).run()
            else:
                lines = Run(case).run()
        except BaseException as e:  # noqa: BLE001
            lines = [f"harness-exc {type(e).__name__}: {e}"]
            if "no free fixed port" in str(e):
                lines = [f"infra {e}"]
        out.write(json.dumps({"id": req.get("id"), "lines": lines}) + "\n")
        out.flush()
        if any(ln.startswith("@hang") for ln in lines):
            os._exit(3)        # blocked threads cannot be cleaned up: the pool starts a fresh worker


if __name__ == "__main__":
    main()
