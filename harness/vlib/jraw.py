"""
Raw JSON stream framer (`JSONSerializer(use_lines=False)`, `_JSONParser.raw_parse`): generators, byte-stream cases and the
frame-by-frame reference used by C01 / C02 / C06 / C07.  Everything random derives from the `rng` argument.

A *document* is described by construction, never by running the code under test:
    ok    valid JSON text                                     -> exactly one packet (json.loads of the text)
    bad   well delimited (the first enclosure closes on the last byte / a run of value bytes) but invalid JSON
                                                              -> exactly one parse error, exactly these bytes consumed
A *stream* is documents joined by gaps of optional whitespace; a plain value (number, literal, …) is always followed by at
least one whitespace byte (its terminator).
"""
from __future__ import annotations

import json
from typing import Any

from vlib import core, sers, streamdrive as sd

WS = b" \t\n\r"

STRINGS = ["", "a", "x\"y\\", "{[", "}]", "é", "\n", "\\\"", "\\\\\"", "C:\\dir\\\"q\"", "\\\\\"]", "\"", "\\", "\\\\", "a\\",
           "[\"{\\\"}\"]", " ", "\t{", "\u20ac", "\\u0041", "\x7f", "'", "''\"''"]


def gen_value(rng, depth: int = 0) -> Any:
    """a value of the JSON encoder's input space, biased to what the framer must get right: strings holding brackets,
    braces, quotes and runs of backslashes; nested empty containers; top-level strings and plain values"""
    r = rng.random()
    if depth > 3 or r < 0.35:
        k = rng.randrange(8)
        if k == 0:
            return rng.choice([0, -3, 17, 2.5, 1e20, -0.0, 123456789])
        if k == 1:
            return rng.choice([True, False, None])
        if k == 2:
            return "\\" * rng.randint(1, 5) + "\"" * rng.randint(0, 2) + rng.choice(["", "}", "]", "\\"])
        if k == 3:
            return rng.choice(["{", "[", "}", "]", "[]", "{}", "\"", "{\"a\":[", "]}\""]) * rng.randint(1, 3)
        if k == 4:
            return rng.choice([[], {}, [[]], [{}], {"": {}}, [[], []], {"a": []}, [[[[]]]]])
        return rng.choice(STRINGS)
    if r < 0.7:
        return [gen_value(rng, depth + 1) for _ in range(rng.randint(0, 3))]
    return {rng.choice(["k", "a b", "}", "\\", "\"", "{[", "\\\""]): gen_value(rng, depth + 1) for _ in range(rng.randint(0, 3))}


def encode(rng, v: Any) -> bytes:
    """a valid JSON text of `v`, with whitespace between tokens and non-ASCII bytes in strings at random"""
    r = rng.random()
    if r < 0.4:
        s = json.dumps(v, separators=(",", ":"))
    elif r < 0.6:
        s = json.dumps(v, separators=(", ", ": "))
    elif r < 0.75:
        s = json.dumps(v, indent=rng.choice([0, 1, "\t"]))
    elif r < 0.9:
        s = json.dumps(v, separators=(" ,\r\n", "\t: "), ensure_ascii=False)
    else:
        s = json.dumps(v, ensure_ascii=False)
    return s.encode("utf-8")


BAD_TEMPLATES = [b'{"a":}', b"[1,,2]", b"{]}", b"[}]", b'["a" "b"]', b'"\x01"', b"[tru]", b'{"a" 1}', b"[01]", b'{"k":[}', b"[\\]",
                 b'"\\x"', b"{[}", b"[{]", b'{"a":"b",}', b'["\\"]",]', b"[\xff]", b'"\xff"', b"{,}"]
BAD_PLAIN = [b"nul", b"1.2.3", b"-", b"tru}e", b"1}", b"+1", b"0x10", b"NaN1", b"a\\b", b"1\"2", b"'a'", b"1]"]


def is_plain(doc: bytes) -> bool:
    return doc[:1] not in (b"{", b"[", b'"')


def sized_doc(rng, n: int, bad: bool = False) -> bytes:
    """a document of exactly n bytes (n >= 1); enclosure documents for n >= 2 unless the plain shape is drawn"""
    if n <= 1 or (bad and n == 2):
        return b"7" * max(n, 1) if not bad else b"-" * max(n, 1)
    shape = rng.choice(["str", "str", "nest", "obj", "num", "arr"])
    if bad:
        if shape == "num":
            return b"1" + b"." * (n - 1)
        return b"[" + b"," * (n - 2) + b"]"
    if shape == "num":
        return bytes(rng.choice(b"123456789") for _ in range(n))
    if shape == "nest" or (shape == "obj" and n < 8):
        k = n // 2
        return b"[" * k + (b"1" if n % 2 else b"") + b"]" * k
    if shape == "obj":
        return b'{"k":' + sized_doc(rng, n - 6) + b"}"
    if shape == "arr":
        body = b""
        while True:
            el = rng.choice([b"1", b'"]"', b"[]", b'"\\""', b"{}", b'"["'])
            cand = body + (b"," if body else b"") + el
            if len(cand) > n - 2:
                break
            body = cand
        return b"[" + body + b" " * (n - 2 - len(body)) + b"]"
    body = bytearray()
    while len(body) < n - 2:
        left = n - 2 - len(body)
        unit = rng.choice([b"a", b"\\\\", b'\\"', b"{", b"]", b" ", b"\\\\\\\\", b'\\\\\\"', b"}"])
        body += unit if len(unit) <= left else b"a" * left
    return b'"' + bytes(body) + b'"'


def gen_doc(rng) -> tuple[str, bytes]:
    r = rng.random()
    if r < 0.62:
        return "ok", encode(rng, gen_value(rng))
    if r < 0.74:
        return "ok", sized_doc(rng, rng.randint(1, 14))
    if r < 0.9:
        return "bad", rng.choice(BAD_TEMPLATES)
    return "bad", rng.choice(BAD_PLAIN)


def gap_after(rng, doc: bytes, tight: bool = False) -> bytes:
    g = b"" if (tight or rng.random() < 0.55) else bytes(rng.choice(WS) for _ in range(rng.randint(1, 3)))
    if is_plain(doc) and not g:
        g = bytes([rng.choice(WS)])
    return g


def ref_item(doc: bytes) -> str:
    """frame-by-frame reference decoding of one document, written from the property: the json codec on exactly these bytes"""
    try:
        v = json.loads(doc.decode("utf-8"))
    except (ValueError, RecursionError):
        return "err parse"
    return sd.pkt_line(v)


# ------------------------------------------------------------------------------------------------
# C02-style byte-stream cases:   {"jraw": 1, "spec", "path": "copy", "docs": [{"kind","doc","gap"}], "lead", "cuts"}
# ------------------------------------------------------------------------------------------------

def stream_of(case: dict) -> bytes:
    out = bytes.fromhex(case.get("lead", ""))
    for d in case["docs"]:
        out += bytes.fromhex(d["doc"]) + bytes.fromhex(d["gap"])
    return out


def run_real(case: dict, aux_store: dict) -> list[str]:
    stream = stream_of(case)
    proto = sd.make_protocol(case["spec"], "copy")
    lines: list[str] = []
    chunks = sd.cut(stream, case["cuts"])
    aux_store[core.case_digest(case)] = {"chunks": chunks}
    sd.drive_copy(proto, chunks, lines)
    return lines


def oracle(case: dict, real: list[str]) -> str | None:
    """safe documents (leading whitespace + document within the limit): delivered items == reference decoding of each
    document, in order, one item per document, for every chunking; a last document one byte over the limit is rejected
    for its size"""
    lim = sers.limit_of(case["spec"])
    items = [ln for ln in real if ln.startswith(("pkt ", "err ", "harness-exc"))]
    if any(ln.startswith("harness-exc") for ln in items):
        return "unexpected exception: " + next(ln for ln in items if ln.startswith("harness-exc"))
    expect = []
    over_last = False
    prev_gap = bytes.fromhex(case.get("lead", ""))
    for i, d in enumerate(case["docs"]):
        doc = bytes.fromhex(d["doc"])
        size = len(doc)
        if size + len(prev_gap) > lim:
            # |document| > limit: rejected under every chunking.  (document within the limit but not together with the
            # whitespace before it: acceptance depends on whether that whitespace arrived with the previous document.)
            if i != len(case["docs"]) - 1 or size <= lim:
                return None     # not a case of this oracle (generator never builds it)
            over_last = True
            break
        expect.append(ref_item(doc))
        prev_gap = bytes.fromhex(d["gap"])
    if items[:len(expect)] != expect:
        return f"delivered {items[:8]} does not match document-by-document decoding {expect[:8]}"
    rest = items[len(expect):]
    if over_last:
        if "err limit" not in rest:
            return f"document of {size} bytes > limit {lim} was not rejected for its size: {rest[:4]}"
    elif rest:
        return f"extra items after the last document: {rest[:4]}"
    tail = [ln for ln in real if ln.startswith("buf ")]
    if tail and tail[-1].split()[1] != "-":
        return f"bytes left over after the last document: {tail[-1]}"
    return None


def nontrivial(case: dict, real: list[str]) -> str | None:
    kinds = sorted({d["kind"] for d in case["docs"]} | ({"ws"} if any(d["gap"] for d in case["docs"]) or case.get("lead") else set()))
    return "jsonraw/copy/" + "+".join(kinds)


def shrink(case: dict):
    docs = case["docs"]
    for i in range(len(docs)):
        if len(docs) > 1:
            yield {**case, "docs": docs[:i] + docs[i + 1:]}
    cuts = case["cuts"]
    if len(cuts) > 1:
        for i in range(len(cuts)):
            yield {**case, "cuts": cuts[:i] + cuts[i + 1:]}
    if case.get("lead"):
        yield {**case, "lead": ""}


def gen_stream_case(rng) -> dict:
    lim = rng.choice([8, 12, 16, 24, 32, 64, 64, 256])
    spec = {"k": "json", "use_lines": False, "limit": lim}
    docs = []
    lead = bytes(rng.choice(WS) for _ in range(rng.randint(1, 2))) if rng.random() < 0.15 else b""
    prev_gap = lead
    for _ in range(rng.randint(1, 6)):
        r = rng.random()
        room = lim - len(prev_gap)
        if r < 0.25 and room >= 1:
            # in the limit band: exactly at / one below the limit (leading whitespace included)
            n = room - rng.choice([0, 0, 1])
            if n < 1:
                continue
            bad = rng.random() < 0.2
            kind, doc = ("bad" if bad else "ok"), sized_doc(rng, n, bad)
        else:
            for _ in range(20):
                kind, doc = gen_doc(rng)
                if len(doc) <= room:
                    break
            else:
                kind, doc = "ok", b"7"
                if room < 1:
                    continue
        gap = gap_after(rng, doc, tight=rng.random() < 0.3)
        docs.append({"kind": kind, "doc": doc.hex(), "gap": gap.hex()})
        prev_gap = gap
    if not docs:
        docs.append({"kind": "ok", "doc": b"7".hex(), "gap": b"\n".hex()})
        prev_gap = b"\n"
    if rng.random() < 0.12:
        # a last document one byte over the limit: rejected for its size under every chunking
        doc = sized_doc(rng, lim + 1)
        docs.append({"kind": "over", "doc": doc.hex(), "gap": gap_after(rng, doc, tight=True).hex()})
    total = len(lead) + sum(len(d["doc"]) // 2 + len(d["gap"]) // 2 for d in docs)
    mode = rng.random()
    if mode < 0.3:
        cuts = [1]
    elif mode < 0.55 and total > 1:
        cuts = [rng.randint(1, total - 1), total]       # one cut, anywhere (also between a backslash and a quote)
    elif mode < 0.65:
        cuts = [rng.randint(1, 4)]
    else:
        cuts = [rng.choice([0, 1, 1, 2, 3, 5, lim - 1, lim, lim + 1, 40]) for _ in range(rng.randint(1, 10))]
        if all(c <= 0 for c in cuts):
            cuts.append(1)
        cuts = [max(c, 0) for c in cuts]
    return {"jraw": 1, "spec": spec, "path": "copy", "lead": lead.hex(), "docs": docs, "cuts": cuts, "hint": 1}


def corpus_stream_cases() -> list[dict]:
    spec = {"k": "json", "use_lines": False, "limit": 16}
    def case(docs, cuts, lead=b""):
        return {"jraw": 1, "spec": spec, "path": "copy", "lead": lead.hex(),
                "docs": [{"kind": k, "doc": d.hex(), "gap": g.hex()} for k, d, g in docs], "cuts": cuts, "hint": 1}
    out = []
    # a quote preceded by runs of backslashes, cut between every pair of bytes and between the backslash and the quote
    d = b'"a\\\\\\"}]\\\\"'
    for i in range(1, len(d)):
        out.append(case([("ok", d, b""), ("ok", b"[]", b"")], [i, 100]))
    out.append(case([("ok", b"{}", b" \n"), ("ok", b"12", b"\n\n"), ("bad", b"{]}", b""), ("ok", b'"x"', b"")], [1]))
    out.append(case([("ok", b"{}", b" \n"), ("ok", b"12", b"\n\n"), ("bad", b"{]}", b""), ("ok", b'"x"', b"")], [2, 3, 1, 40]))
    out.append(case([("ok", b'"' + b"a" * 14 + b'"', b""), ("ok", b"1234567890123456", b"\n"), ("over", b"[" + b" " * 15 + b"]", b"")], [5]))
    out.append(case([("ok", b"[[[[[[[[]]]]]]]]", b""), ("bad", b"tru}e", b"\r"), ("ok", b"null", b"\t")], [3], lead=b" "))
    return out


# ------------------------------------------------------------------------------------------------
# malformed soup (C06)
# ------------------------------------------------------------------------------------------------

SOUP = [b"{", b"}", b"[", b"]", b'"', b"\\", b",", b":", b" ", b"\n", b"\t", b"\r", b"1", b"a", b"\x00", b"\x80", b"\xff", b"'",
        b'\\"', b"\\\\", b"}{", b"][", b'""', b"null", b"-"]


def gen_soup(rng) -> bytes:
    r = rng.random()
    if r < 0.5:
        return b"".join(rng.choice(SOUP) for _ in range(rng.randint(0, 30)))
    if r < 0.65:
        return rng.choice([b"}", b"]", b"\x00", b"\\", b" \t", b"'a'"]) + b"".join(rng.choice(SOUP) for _ in range(rng.randint(0, 12)))
    out = b""
    for _ in range(rng.randint(1, 4)):
        _, doc = gen_doc(rng)
        if rng.random() < 0.5 and doc:
            i = rng.randrange(len(doc))
            doc = doc[:i] + rng.choice(SOUP) + doc[i + rng.randint(0, 2):]
        out += doc + gap_after(rng, doc)
    return out


# ------------------------------------------------------------------------------------------------
# C07: documents / unterminated data of an exact length, by shape
# ------------------------------------------------------------------------------------------------

SHAPES = ["str", "nest", "num", "esc", "obj", "lit"]


def shaped(shape: str, n: int) -> bytes:
    """a valid document of exactly n bytes (n >= 1) of the given shape (falls back to digits when n is too small)"""
    if shape == "nest" and n >= 2:
        return b"[" * (n // 2) + (b"1" if n % 2 else b"") + b"]" * (n // 2)
    if shape == "esc" and n >= 4:
        body = (b'\\\"' * n)[: n - 2]
        if body.endswith(b"\\") and not body.endswith(b"\\\\"):
            body = body[:-1] + b"a"
        k = len(body) - len(body.rstrip(b"\\"))
        if k % 2:
            body = body[:-1] + b"a"
        return b'"' + body + b'"'
    if shape == "obj" and n >= 7:
        return b'{"k":' + shaped("nest" if n - 6 >= 2 else "num", n - 6) + b"}"
    if shape == "str" and n >= 2:
        return b'"' + b"a" * (n - 2) + b'"'
    if shape == "lit" and n == 4:
        return b"null"
    return b"7" * max(n, 1)


def unterminated(shape: str, n: int) -> bytes:
    """n bytes that never complete a document"""
    if shape == "nest":
        return b"[" * n
    if shape == "num":
        return b"7" * n
    if shape == "esc":
        return (b'"' + b'\\"' * n)[:n]
    if shape == "obj":
        return (b'{"k":' + b"[" * n)[:n]
    if shape == "lit":
        return (b" \t\r\n" * n)[:n]          # whitespace only: counted by the limit check as well
    return b'"' + b"a" * max(n - 1, 0)
