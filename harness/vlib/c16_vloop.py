"""
Virtual-time, scripted asyncio event loop (used by C16 and C19).

* `time()` is a virtual clock (integer-valued floats: ticks); nothing ever sleeps on the selector.
* one `_run_once` = one loop turn; before every turn the harness hook `before_turn(loop)` is called: it may
  perform scripted actions (resolve futures, cancel tasks, feed datagrams, advance the clock).
* when a turn starts with nothing ready: the hook is asked again (`idle=True`); if it did nothing and timers
  are pending the clock jumps to the earliest timer; if there is nothing at all the loop raises `Stalled`
  inside the main task's runner (never blocks).
"""
from __future__ import annotations

import asyncio
import selectors
from typing import Any, Callable


class Stalled(Exception):
    pass


class _NullSelector(selectors.SelectSelector):
    """select() never blocks (the self-pipe of the loop stays registered but nobody writes to it)"""

    def select(self, timeout=None):  # type: ignore[override]
        return super().select(0)


class VLoop(asyncio.SelectorEventLoop):
    def __init__(self) -> None:
        super().__init__(_NullSelector())
        self.vnow: float = 0.0
        self.turn: int = 0
        self.hook: Callable[["VLoop", bool], bool] | None = None
        self.max_turns = 20000
        self.stalled = False

    def time(self) -> float:  # type: ignore[override]
        return self.vnow

    def advance(self, dt: float) -> None:
        self.vnow += dt

    def next_timer(self) -> float | None:
        sched = [h for h in self._scheduled if not h._cancelled]  # type: ignore[attr-defined]
        if not sched:
            return None
        return min(h._when for h in sched)  # type: ignore[attr-defined]

    def has_ready(self) -> bool:
        return any(not h._cancelled for h in self._ready)  # type: ignore[attr-defined]

    def timers_due(self) -> bool:
        nt = self.next_timer()
        return nt is not None and nt <= self.vnow

    def _run_once(self) -> None:  # type: ignore[override]
        self.turn += 1
        if self.turn > self.max_turns:
            self.stalled = True
            self.stop()
            self._ready.clear()  # type: ignore[attr-defined]
            return
        did = False
        if self.hook is not None:
            did = bool(self.hook(self, False))
        if not self.has_ready() and not self.timers_due() and not self._stopping:  # type: ignore[attr-defined]
            if self.hook is not None and not did:
                did = bool(self.hook(self, True))
            if not did and not self.has_ready() and not self.timers_due():
                nt = self.next_timer()
                if nt is not None:
                    self.vnow = max(self.vnow, nt)
                else:
                    self.stalled = True
                    self.stop()
        super()._run_once()


def run(main: Callable[[VLoop], Any], hook: Callable[[VLoop, bool], bool] | None = None, max_turns: int = 20000):
    """run coroutine `main(loop)` to completion on a fresh virtual loop; returns (result | exception, loop)"""
    loop = VLoop()
    loop.max_turns = max_turns
    loop.hook = hook
    asyncio.set_event_loop(None)
    try:
        task = loop.create_task(main(loop))
        try:
            loop.run_until_complete(task)
        except RuntimeError as e:
            if loop.stalled:
                # stop() made run_until_complete give up: cancel what is left and report
                task.cancel()
                loop.hook = None
                loop.stalled = False
                loop.turn = 0
                try:
                    loop.run_until_complete(task)
                except BaseException:
                    pass
                raise Stalled(str(e)) from None
            raise
        return task
    finally:
        try:
            loop.hook = None
            loop.turn = 0
            pending = [t for t in asyncio.all_tasks(loop) if not t.done()]
            for t in pending:
                t.cancel()
            if pending:
                loop.run_until_complete(asyncio.gather(*pending, return_exceptions=True))
            loop.run_until_complete(loop.shutdown_asyncgens())
        except BaseException:
            pass
        loop.close()
