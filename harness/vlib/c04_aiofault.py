"""
Oracle-only C04 cases, kind = "aiofault": every send path of the asyncio adapter on a connection that is NOT healthy.

A real loopback TCP connection (AF_INET: the high-level client wants it), the real asyncio event loop, the real
`AsyncIOBackend.wrap_stream_socket()` (AsyncioTransportStreamSocketAdapter + WriteFlowControl).  A case is

  api      "all"       adapter.send_all(b"".join(chunks))
           "iterable"  adapter.send_all_from_iterable(chunks)
           "endpoint"  AsyncStreamEndpoint.send_packet(chunks)
           "client"    AsyncTCPNetworkClient(sock, protocol, "asyncio").send_packet(chunks)
  first    number of packets exchanged (sent, and read by the peer) before the fault: the connection works
  fault    "rst"        the peer closes abortively (SO_LINGER 0): the kernel sends RST
           "fin"        the peer closes gracefully (FIN); whatever we send afterwards is answered with RST
           "halfclose"  the peer shuts its writing side down (FIN) and goes on reading
           "aclose"     we close our own side (aclose())
           "none"       control: nothing happens
  noticed  number of event-loop turns between the moment the fault has ARRIVED at our socket and the first send:
           0 = the send is the first thing that touches the socket (asyncio then only *schedules* connection_lost()),
           >= 3 = the reading side has reported it first
  nsend    number of sends made in a row after the fault (no other await in between)
  chunks   the packet (as for the other real kinds)

Determinism: the arrival of RST / FIN is awaited with poll() on a dup of our descriptor (POLLIN | POLLERR | POLLHUP |
POLLRDHUP) — the kernel's own notification, no sleep; it does not run the event loop and leaves SO_ERROR untouched.
After a "fin" fault the RST that answers our first send is awaited the same way before the second send.

Judged by behaviour only (property C04: "returns, or fails with TimeoutError or a connection error ... never drops
bytes"): a send on a connection whose reset has already arrived (or that we closed ourselves) can transmit nothing, so
it must RAISE; where the peer is still reading, a send that returns must have delivered exactly its bytes.
"""
from __future__ import annotations

import asyncio
import errno
import select
import socket
import struct
from typing import Any

from vlib import core
from vlib import c04_async as ca

WATCHDOG = ca.WATCHDOG
APIS = ("all", "iterable", "endpoint", "client")
FAULTS = ("rst", "fin", "halfclose", "aclose", "none")
_POLL_GONE = select.POLLIN | select.POLLERR | select.POLLHUP | getattr(select, "POLLRDHUP", 0)
_CONN_ERRNOS = {errno.ECONNRESET, errno.EPIPE, errno.ECONNABORTED, errno.ENOTCONN, errno.ESHUTDOWN, errno.EBADF}


def tcp_pair() -> tuple[socket.socket, socket.socket]:
    with socket.socket(socket.AF_INET, socket.SOCK_STREAM) as lst:
        lst.bind(("127.0.0.1", 0))
        lst.listen(1)
        c = socket.socket(socket.AF_INET, socket.SOCK_STREAM)
        try:
            c.connect(lst.getsockname())
            s, _ = lst.accept()
        except BaseException:
            c.close()
            raise
    return c, s


def _wait(fd: int, mask: int) -> bool:
    p = select.poll()
    p.register(fd, mask)
    return bool(p.poll(WATCHDOG * 1000))


def _classify(exc: BaseException | None) -> str:
    if exc is None:
        return "ok"
    if isinstance(exc, (TimeoutError, asyncio.TimeoutError)) and not isinstance(exc, ConnectionError):
        return "hang"
    if isinstance(exc, ConnectionError):
        return "conn:" + type(exc).__name__
    try:
        from easynetwork.exceptions import ClientClosedError

        if isinstance(exc, ClientClosedError):
            return "closed:ClientClosedError"
    except ImportError:  # pragma: no cover
        pass
    if isinstance(exc, OSError) and exc.errno in _CONN_ERRNOS:
        return "conn:OSError-" + errno.errorcode.get(exc.errno, str(exc.errno))
    return "exc:" + type(exc).__name__


async def _scenario(case: dict) -> list[str]:
    from easynetwork.lowlevel.api_async.backend._asyncio.backend import AsyncIOBackend
    from easynetwork.protocol import StreamProtocol

    chunks = ca._chunks(case)
    data = b"".join(chunks)
    api, fault = case["api"], case["fault"]
    loop = asyncio.get_running_loop()
    lines: list[str] = []
    sock, peer = tcp_pair()
    peer.setblocking(False)
    raw = sock.dup()          # only polled; the library owns `sock`
    closer: Any = None
    try:
        # ---- the sender
        if api == "client":
            from easynetwork.clients.async_tcp import AsyncTCPNetworkClient

            client = AsyncTCPNetworkClient(sock, StreamProtocol(ca._serializer()), "asyncio")
            await client.wait_connected()
            closer = client.aclose

            async def send() -> None:
                await client.send_packet(chunks)
        else:
            tr = await AsyncIOBackend().wrap_stream_socket(sock)
            closer = tr.aclose
            if api == "endpoint":
                from easynetwork.lowlevel.api_async.endpoints.stream import AsyncStreamEndpoint

                ep = AsyncStreamEndpoint(tr, StreamProtocol(ca._serializer()), max_recv_size=1024)
                closer = ep.aclose

                async def send() -> None:
                    await ep.send_packet(chunks)
            elif api == "iterable":
                async def send() -> None:
                    await tr.send_all_from_iterable(iter(chunks))
            else:
                async def send() -> None:
                    await tr.send_all(data)

        got = bytearray()          # everything the peer has read

        async def peer_reader() -> None:
            try:
                while True:
                    b = await loop.sock_recv(peer, 1 << 16)
                    if not b:
                        return
                    got.extend(b)
            except OSError:
                return

        reader: asyncio.Task | None = asyncio.ensure_future(peer_reader())

        async def peer_has(n: int) -> bool:
            """the peer has read n bytes (it reads all the time: a matter of loop turns, the watchdog is for a sick machine)"""
            try:
                async with asyncio.timeout(WATCHDOG):
                    while len(got) < n and not reader.done():
                        await asyncio.sleep(0)
            except TimeoutError:
                pass
            return len(got) >= n

        async def stop_reader() -> None:
            nonlocal reader
            if reader is not None:
                reader.cancel()
                try:
                    await reader
                except BaseException:  # noqa: BLE001
                    pass
                reader = None

        # ---- the connection works
        for i in range(case.get("first", 0)):
            async with asyncio.timeout(WATCHDOG):
                await send()
            if not await peer_has(len(data) * (i + 1)) or bytes(got) != data * (i + 1):
                return lines + [f"setup-problem first#{i} peer read {len(got)} of {len(data) * (i + 1)} bytes"]
        nfirst = len(got)
        # ---- the fault, and its arrival
        if fault in ("rst", "fin"):
            await stop_reader()       # (the peer's receive queue is empty: a graceful close sends FIN, not RST)
        if fault == "rst":
            peer.setsockopt(socket.SOL_SOCKET, socket.SO_LINGER, struct.pack("ii", 1, 0))
            peer.close()
            if not _wait(raw.fileno(), _POLL_GONE):
                return lines + ["setup-problem the RST never arrived"]
        elif fault == "fin":
            peer.close()
            if not _wait(raw.fileno(), _POLL_GONE):
                return lines + ["setup-problem the FIN never arrived"]
        elif fault == "halfclose":
            peer.shutdown(socket.SHUT_WR)
            if not _wait(raw.fileno(), _POLL_GONE):
                return lines + ["setup-problem the FIN never arrived"]
        elif fault == "aclose":
            async with asyncio.timeout(WATCHDOG):
                await closer()
        for _ in range(case.get("noticed", 0)):
            await asyncio.sleep(0)
        # ---- the sends under test
        nok = 0
        for i in range(case.get("nsend", 1)):
            exc: BaseException | None = None
            try:
                async with asyncio.timeout(WATCHDOG):
                    await send()
            except BaseException as e:  # noqa: BLE001
                exc = e
            out = _classify(exc)
            lines.append(f"send#{i} {out}")
            if out == "ok":
                nok += 1
            if out == "hang":
                break
            if fault == "fin" and out == "ok" and data and i + 1 < case.get("nsend", 1):
                # the peer's kernel answers data sent to a closed socket with RST: wait for it (no event-loop turn)
                if not _wait(raw.fileno(), select.POLLERR | select.POLLHUP):
                    lines.append("setup-problem the RST answering our data never arrived")
                    break
                lines.append("rst-arrived")
        # ---- what the peer can read
        if fault in ("halfclose", "none", "aclose"):
            await peer_has(nfirst + len(data) * nok)
            for _ in range(20):          # anything more than what the successful sends account for?
                await asyncio.sleep(0)
            lines.append("peer " + ca._digest_line(bytes(got[nfirst:]))[5:])
        lines.append(f"data {len(data)}")
    finally:
        raw.close()
        if reader is not None:
            reader.cancel()
        if closer is not None:
            t = asyncio.ensure_future(closer())
            try:
                await asyncio.wait_for(asyncio.shield(t), WATCHDOG)
                lines.append("close ok")
            except (asyncio.TimeoutError, TimeoutError):
                t.cancel()
                lines.append("close hang")
            except BaseException as e:  # noqa: BLE001
                lines.append(f"close exc {type(e).__name__}")
        else:
            sock.close()
        try:
            peer.close()
        except OSError:
            pass
    return lines


def run_real(case: dict) -> list[str]:
    async def main() -> list[str]:
        try:
            return await asyncio.wait_for(_scenario(case), 4 * WATCHDOG)
        except asyncio.TimeoutError:
            return ["send#0 hang"]

    import logging

    lg = logging.getLogger("asyncio")
    old = lg.level
    lg.setLevel(logging.CRITICAL)      # asyncio warns "socket.send() raised exception." after 5 writes on a lost connection
    try:
        return asyncio.run(main())
    finally:
        lg.setLevel(old)


def oracle(case: dict, real: list[str]) -> str | None:
    data = b"".join(ca._chunks(case))
    fault, api = case["fault"], case["api"]
    where = f"{api} after {fault} (noticed={case.get('noticed', 0)}, first={case.get('first', 0)})"
    for ln in real:
        if ln.startswith("setup-problem"):
            return None                     # the environment did not produce the fault: no judgement
    if "close hang" in real:
        return f"{where}: the transport never finishes closing"
    sends = [ln.split()[1] for ln in real if ln.startswith("send#")]
    if not sends:
        return f"{where}: no send was made ({real})"
    # pass 1 (the worst first): a send that RETURNED although nothing could be transmitted any more
    rst_seen = fault == "rst"
    nok = 0
    for i, out in enumerate(sends):
        if out == "hang":
            return f"{where}: send #{i} did not return within {WATCHDOG:.0f} s"
        if out == "ok":
            nok += 1
            if data and (rst_seen or fault == "aclose"):
                why = "we had closed the connection ourselves" if fault == "aclose" else \
                    "the peer's RST had already arrived at our socket"
                return (f"{where}: send #{i} of {len(data)} bytes RETURNED NORMALLY although {why}: "
                        f"nothing was transmitted, the bytes are dropped without any error")
            if fault == "fin" and "rst-arrived" in real:
                rst_seen = True
    # pass 2: the way of failing
    for i, out in enumerate(sends):
        if out.startswith("exc:") and fault != "aclose":
            # (a send on an object we have closed ourselves is a usage error: any exception will do)
            return (f"{where}: send #{i} failed with {out[4:]}, which is neither a connection error nor TimeoutError "
                    f"(sends: {' '.join(sends)})")
        if fault == "none" and out != "ok":
            return f"{where}: send #{i} on a healthy connection ended with {out}"
    peer = next((ln[5:] for ln in real if ln.startswith("peer ")), None)
    if peer is not None and fault in ("halfclose", "none"):
        exp = ca._digest_line(data * nok)[5:]
        if peer != exp:
            return f"{where}: {nok} sends returned normally but the peer (still reading) read {peer} instead of {exp}"
    if peer is not None and fault == "aclose" and peer != ca._digest_line(b"")[5:]:
        return f"{where}: bytes reached the peer after our own aclose(): {peer}"
    return None


def nontrivial(case: dict, real: list[str]) -> str | None:
    if any(ln.startswith("setup-problem") for ln in real):
        return None
    return f"aiofault/{case['api']}/{case['fault']}/{'unnoticed' if not case.get('noticed') else 'noticed'}"


def shrink(case: dict):
    n = len(case["chunks"])
    for i in range(n if n > 1 else 0):
        yield {**case, "chunks": case["chunks"][:i] + case["chunks"][i + 1:], "kinds": case["kinds"][:i] + case["kinds"][i + 1:]}
    for i, h in enumerate(case["chunks"]):
        if isinstance(h, list) or (h != "-" and len(h) > 2):
            yield {**case, "chunks": case["chunks"][:i] + ["61"] + case["chunks"][i + 1:]}
    if case.get("nsend", 1) > 1:
        yield {**case, "nsend": case["nsend"] - 1}
    if case.get("first", 0):
        yield {**case, "first": case["first"] - 1}
    if case.get("noticed", 0):
        yield {**case, "noticed": 0}


def known_key(case: dict, real: list[str], why: str) -> str:
    what = "returned-normally" if "RETURNED NORMALLY" in why else ("wrong-exception" if "failed with" in why else
           ("hang" if "did not return" in why or "never finishes" in why else "peer-bytes"))
    return f"kind=aiofault,api={case['api']},fault={case['fault']},{what}"


def _mk(api: str, fault: str, noticed: int, first: int, nsend: int, chunks: list, seed: int = 7) -> dict:
    return {"kind": "aiofault", "api": api, "fault": fault, "noticed": noticed, "first": first, "nsend": nsend,
            "chunks": chunks, "kinds": ["b"] * len(chunks), "seed": seed, "entry": api, "timeout": None, "sendmsg": True}


def corpus() -> list[dict]:
    cs = []
    for api in APIS:
        for fault in FAULTS:
            for noticed in (0, 4):
                if fault in ("aclose", "none") and noticed:
                    continue
                cs.append(_mk(api, fault, noticed, 1, 2, ["7365636f6e64", "0a"]))
        cs.append(_mk(api, "rst", 0, 0, 1, ["61"]))
    return cs


def generate(rng, tier: str, boost: int):
    n = (80 if tier == "quick" else 800) * min(boost, 2)
    for i in range(n):
        chunks: list[Any] = []
        for _ in range(rng.randint(1, 4)):
            r = rng.random()
            if r < 0.2:
                chunks.append("-")
            elif r < 0.9:
                chunks.append(bytes(rng.randrange(256) for _ in range(rng.randint(1, 9))).hex())
            else:
                chunks.append([rng.choice([5000, 20000]), rng.randrange(256)])
        if all(c == "-" for c in chunks):
            chunks.append("78")
        fault = rng.choice(["rst", "rst", "rst", "fin", "fin", "halfclose", "aclose", "none"])
        yield _mk(rng.choice(APIS), fault, rng.choice([0, 0, 0, 1, 2, 3, 6]) if fault not in ("aclose", "none") else 0,
                  rng.choice([0, 1, 1, 2]), rng.choice([1, 1, 2, 3]), chunks, rng.randrange(1 << 30))
