"""
C08 environment (self-contained):

  VLoop / run        virtual-time asyncio loop; "nothing runnable, nothing scheduled, main not done" = Hang (a deadlock is a
                     RESULT of the run, detected without any wall-clock wait)
  Rec                the recorder shared by the instrumented pieces.  Three kinds of entries, kept in one chronological list:
                       line  an observable action of the wrapper, in the format of the Lean driver (Drv/Tls08.lean)
                       op    an input of the model: `call …` / `resume …` (what the environment did)
                       eng   an input of the model: one answer of the SSL engine
  LoggedLock         the asyncio.Lock that AsyncIOBackend.create_fair_lock() returns, subclassed only to log acq/park/rel
  HBackend           the real AsyncIOBackend with create_fair_lock redirected (public extension point)
  MemTransport       in-memory AsyncStreamTransport (EasyNetwork's own ABC): scripted fragmentation of what it delivers,
                     scripted suspensions, injected OSError, overlap detection, byte accounting
  ScriptedEngine / ScriptedContext
                     stands in for ssl.SSLObject / ssl.SSLContext: AsyncTLSStreamTransport.wrap() calls
                     `ssl_context.wrap_bio(read_bio, write_bio, …)` and gets the scripted engine, which works on the two REAL
                     ssl.MemoryBIO objects wrap() created
  RecordingSSLObject / RecordingContext
                     the same for real OpenSSL: every call is forwarded to the real SSLObject and its outcome logged
"""
from __future__ import annotations

import asyncio
import heapq
import ssl
import zlib
from collections import deque
from typing import Any, Callable

from vlib import core  # noqa: F401  (puts VERIF_REPO/src on sys.path)

from easynetwork.lowlevel.api_async.backend._asyncio.backend import AsyncIOBackend
from easynetwork.lowlevel.api_async.transports.abc import AsyncStreamTransport


class Hang(Exception):
    """the loop has nothing left to run but the main coroutine is not done"""


class VLoop(asyncio.SelectorEventLoop):
    def __init__(self) -> None:
        super().__init__()
        self._vtime = 0.0
        self.turns = 0
        self.max_turns = 400000
        self.unhandled: list[str] = []
        self.set_exception_handler(self._on_exc)

    def _on_exc(self, loop, context) -> None:
        exc = context.get("exception")
        self.unhandled.append(f"{context.get('message')}: {type(exc).__name__ if exc else ''}")

    def time(self) -> float:
        return self._vtime

    def _run_once(self) -> None:
        self.turns += 1
        if self.turns > self.max_turns:
            raise Hang("too many loop turns")
        if not self._ready:
            while self._scheduled and self._scheduled[0]._cancelled:
                h = heapq.heappop(self._scheduled)
                h._scheduled = False
            if self._scheduled:
                when = self._scheduled[0]._when
                if when - self._vtime > 1e6 and not self._stopping:
                    # only the harness's "never" timeouts (handshake_timeout=1e9) are left: nobody can make progress
                    raise Hang("nothing runnable, only a far-future timeout scheduled")
                if when > self._vtime:
                    self._vtime = when
            elif not self._stopping:
                raise Hang("nothing runnable, nothing scheduled")
        super()._run_once()


def run(coro_fn: Callable[[], Any], loop_factory: Callable[[], "VLoop"] | None = None):
    """run `coro_fn()` as task "0" on a fresh virtual loop; returns ("ok", value) | ("exc", e) | ("hang", msg)"""
    loop = (loop_factory or VLoop)()
    asyncio.set_event_loop(loop)
    try:
        from sniffio import thread_local
        old, thread_local.name = thread_local.name, "asyncio"
    except Exception:  # pragma: no cover
        thread_local, old = None, None
    try:
        task = loop.create_task(coro_fn(), name="0")
        try:
            loop.run_until_complete(task)
            out: tuple = ("ok", task.result())
        except Hang as e:
            out = ("hang", str(e))
        except BaseException as e:  # noqa: BLE001
            out = ("exc", e)
        return out, loop
    finally:
        if thread_local is not None:
            thread_local.name = old
        try:
            loop.set_exception_handler(lambda _l, _c: None)
            for _ in range(50):
                pending = [t for t in asyncio.all_tasks(loop) if not t.done()]
                if not pending:
                    break
                for t in pending:
                    t.cancel()
                loop.turns = 0
                try:
                    loop.run_until_complete(asyncio.gather(*pending, return_exceptions=True))
                except BaseException:  # noqa: BLE001
                    pass
            for t in asyncio.all_tasks(loop):
                t._log_destroy_pending = False  # type: ignore[attr-defined]
            try:
                loop.run_until_complete(loop.shutdown_asyncgens())
            except BaseException:  # noqa: BLE001
                pass
        finally:
            asyncio.set_event_loop(None)
            loop.close()


def cur() -> str:
    t = asyncio.current_task()
    return t.get_name() if t is not None else "?"


def fmt(b: bytes) -> str:
    """the driver's <data> format"""
    b = bytes(b)
    if not b:
        return "-"
    if len(b) <= 24:
        return b.hex()
    return f"{len(b)}:{zlib.adler32(b)}"


class Rec:
    def __init__(self) -> None:
        self.entries: list[str] = []      # "<line>" | "op <…>" | "eng <…>"
        self.enabled = True

    def line(self, s: str) -> None:
        if self.enabled:
            self.entries.append(s)

    def op(self, s: str) -> None:
        if self.enabled:
            self.entries.append("op " + s)

    def eng(self, s: str) -> None:
        if self.enabled:
            self.entries.append("eng " + s)


async def pause(k: float) -> None:
    """k >= 1 integer: k bare yields; 0 < k < 1: virtual sleep of k seconds; 0: nothing"""
    if k >= 1:
        for _ in range(int(k)):
            await asyncio.sleep(0)
    elif k > 0:
        await asyncio.sleep(k)


# ------------------------------------------------------------------------------------------------
class LoggedLock(asyncio.Lock):
    def __init__(self, rec: Rec, name: str) -> None:
        super().__init__()
        self.rec = rec
        self.name = name

    async def acquire(self):
        t = cur()
        ws = getattr(self, "_waiters", None)
        free = (not self._locked) and (ws is None or all(w.cancelled() for w in ws))
        if not free:
            self.rec.line(f"park {t} {self.name}")
        try:
            r = await super().acquire()
        except BaseException:
            self.rec.line(f"lock-cancelled {t} {self.name}")
            raise
        if not free:
            self.rec.op(f"resume {t} ok")
        self.rec.line(f"acq {t} {self.name}")
        return r

    def release(self) -> None:
        super().release()
        self.rec.line(f"rel {cur()} {self.name}")


class HBackend(AsyncIOBackend):
    """AsyncIOBackend whose create_fair_lock() returns logged locks: the transport creates the send lock first, then
    the receive lock (AsyncTLSStreamTransport.__post_init__)"""

    def __init__(self, rec: Rec | None) -> None:
        super().__init__()
        self.rec = rec
        self.names = ["send", "recv"]

    def create_fair_lock(self):
        if self.rec is None or not self.names:
            return super().create_fair_lock()
        return LoggedLock(self.rec, self.names.pop(0))


# ------------------------------------------------------------------------------------------------
class MemTransport(AsyncStreamTransport):
    """
    One end of an in-memory byte pipe.
      inbox            bytes available to recv_into (filled by `feed`), `eof_in` = no more will come
      frags            sizes of the pieces recv_into hands out (cycled when `cycle`, else "everything" when used up)
      rpause / spause  suspension before a recv_into / send_all completes (see `pause`); used up -> 1 yield
      recv_err_at / send_err_at   the n-th (1-based) call raises OSError after its suspension (0 = never)
      on_send(data)    where written bytes go
      classify(data)   provenance of a send_all payload ("bio", "plain", "mixed", "empty")
      lend             recv_into KEEPS the caller's buffer across one more suspension: once bytes are available a loop
                       callback copies them into the lent buffer and resolves a future, the caller resumes one loop
                       iteration later (what asyncio's BufferedProtocol does).  With two transports of this kind in one
                       process (peer = "easynet") two fills can land before either reader has looked at its buffer.
    """

    def __init__(self, backend: HBackend, rec: Rec | None, *, frags: list[int] | None = None, cycle: bool = False,
                 rpause: list[float] | None = None, spause: list[float] | None = None,
                 recv_err_at: int = 0, send_err_at: int = 0, lend: bool = False) -> None:
        super().__init__()
        self._backend = backend
        self.rec = rec
        self.lend = bool(lend)
        self.inbox = bytearray()
        self.eof_in = False
        self.frags = deque(frags or [])
        self.cycle = cycle
        self.rpause = deque(rpause or [])
        self.spause = deque(spause or [])
        self.recv_err_at = recv_err_at
        self.send_err_at = send_err_at
        self.on_send: Callable[[bytes], None] | None = None
        self.classify: Callable[[bytes], str] | None = None
        self.sent: list[bytes] = []
        self.taken = bytearray()
        self.nrecv = 0
        self.nsend = 0
        self.active_recv = 0
        self.active_send = 0
        self.overlap: list[str] = []
        self.closing = False
        self.aclose_calls = 0
        self._waiter: asyncio.Future | None = None

    # ---- plumbing
    def backend(self):
        return self._backend

    def is_closing(self) -> bool:
        return self.closing

    @property
    def extra_attributes(self):
        return {}

    def feed(self, data: bytes) -> None:
        self.inbox += data
        self._wake()

    def feed_eof(self) -> None:
        self.eof_in = True
        self._wake()

    def _wake(self) -> None:
        w = self._waiter
        if w is not None and not w.done():
            w.set_result(None)

    def _next_pause(self, q: deque) -> float:
        if not q:
            return 1
        k = q.popleft()
        if self.cycle:
            q.append(k)
        return k

    def _line(self, s: str) -> None:
        if self.rec is not None:
            self.rec.line(s)

    def _op(self, s: str) -> None:
        if self.rec is not None:
            self.rec.op(s)

    async def aclose(self) -> None:
        self.aclose_calls += 1
        self._line(f"inner.aclose {cur()}")
        self.closing = True
        self._wake()
        await asyncio.sleep(0)

    # ---- reading
    async def recv_into(self, buffer) -> int:
        t = cur()
        self._line(f"rcv {t}")
        self.nrecv += 1
        k = self.nrecv
        self.active_recv += 1
        if self.active_recv > 1:
            self.overlap.append("recv_into")
        try:
            await pause(self._next_pause(self.rpause))
            if self.recv_err_at and k == self.recv_err_at:
                self._op(f"resume {t} err")
                raise OSError(5, "scripted recv error")
            while not self.inbox and not self.eof_in:
                if self.closing:
                    self._op(f"resume {t} err")
                    raise OSError(9, "transport closed")
                self._waiter = asyncio.get_running_loop().create_future()
                try:
                    await self._waiter
                finally:
                    self._waiter = None
            if not self.inbox:
                self._op(f"resume {t} eof")
                return 0
            if self.frags:
                want = self.frags.popleft()
                if self.cycle:
                    self.frags.append(want)
            else:
                want = 1 << 30
            with memoryview(buffer) as mv:
                mv = mv.cast("B") if mv.itemsize != 1 else mv
                if self.lend and mv.nbytes:
                    loop = asyncio.get_running_loop()
                    fut: asyncio.Future = loop.create_future()

                    def fill() -> None:                   # a loop callback, like the selector's read event
                        k = max(1, min(want, len(self.inbox), mv.nbytes))
                        blob = bytes(self.inbox[:k])
                        mv[:k] = blob
                        del self.inbox[:k]
                        self.taken += blob
                        if not fut.done():
                            fut.set_result(blob)

                    loop.call_soon(fill)
                    data = await fut                       # the buffer is filled one iteration before we run again
                    n = len(data)
                    self._op(f"resume {t} data {data.hex()}")
                    return n
                n = max(1, min(want, len(self.inbox), mv.nbytes))
                data = bytes(self.inbox[:n])
                mv[:n] = data
            del self.inbox[:n]
            self.taken += data
            self._op(f"resume {t} data {data.hex()}")
            return n
        finally:
            self.active_recv -= 1

    async def recv(self, bufsize: int) -> bytes:
        buf = bytearray(bufsize)
        n = await self.recv_into(buf)
        return bytes(buf[:n])

    # ---- writing
    async def send_all(self, data) -> None:
        t = cur()
        data = bytes(data)
        self.sent.append(data)
        kind = self.classify(data) if self.classify is not None else ("empty" if not data else "bio")
        self._line(f"xmit {t} {len(data)} {kind}")
        self.nsend += 1
        k = self.nsend
        self.active_send += 1
        if self.active_send > 1:
            self.overlap.append("send_all")
        try:
            await pause(self._next_pause(self.spause))
            if (self.send_err_at and k == self.send_err_at) or self.closing:
                self._op(f"resume {t} err")
                raise OSError(32, "scripted send error")
            if self.on_send is not None:
                self.on_send(data)
        finally:
            self.active_send -= 1
        self._op(f"resume {t} ok")

    async def send_eof(self) -> None:
        await asyncio.sleep(0)


# ------------------------------------------------------------------------------------------------
def bio_eof(bio: ssl.MemoryBIO) -> bool:
    """has write_eof() been called?  (probe: a write after write_eof raises; only used when the run is over)"""
    try:
        bio.write(b"\x00")
    except ssl.SSLError:
        return True
    return False


class _EngineBase:
    """what the transport asks of an SSLObject besides read / write / do_handshake"""

    context: Any = None

    def getpeercert(self, binary_form: bool = False):
        return {}

    def cipher(self):
        return ("TLS_FAKE", "TLSv1.3", 128)

    def compression(self):
        return None

    def version(self):
        return "TLSv1.3"


OUTCOMES = ("ok", "wantread", "wantwrite", "zeroreturn", "eoferror", "error")


def raise_outcome(o: str) -> None:
    if o == "wantread":
        raise ssl.SSLWantReadError(ssl.SSL_ERROR_WANT_READ, "The operation did not complete (read)")
    if o == "wantwrite":
        raise ssl.SSLWantWriteError(ssl.SSL_ERROR_WANT_WRITE, "The operation did not complete (write)")
    if o == "zeroreturn":
        raise ssl.SSLZeroReturnError(ssl.SSL_ERROR_ZERO_RETURN, "TLS/SSL connection has been closed (EOF)")
    if o == "eoferror":
        raise ssl.SSLEOFError(ssl.SSL_ERROR_EOF, "EOF occurred in violation of protocol")
    raise ssl.SSLError(ssl.SSL_ERROR_SSL, "scripted SSL error")


class ScriptedEngine(_EngineBase):
    """
    Answers follow three scripts (one per method, so that they do not depend on the task schedule):
        [outcome, cin, cout, arg]   cin = bytes taken out of the incoming BIO (clamped to what is there),
                                    cout = bytes appended to the outgoing BIO,
                                    arg  = read ok: bytes returned (clamped to what was asked, >= 0)
                                           write ok: bytes accepted (clamped to 1..len; 0 for an empty view)
    A used-up script answers ok (read: up to 3 bytes, write: everything).  `wantread` with the incoming BIO at EOF
    becomes `eoferror` (as OpenSSL does), so every run ends.
    Outgoing bytes are 0x80 | counter; plaintext handed out by read is the lower-case alphabet by position.
    """

    def __init__(self, rec: Rec, rbio: ssl.MemoryBIO, wbio: ssl.MemoryBIO, hs: list, reads: list, writes: list) -> None:
        self.rec = rec
        self.rbio, self.wbio = rbio, wbio
        self.scripts = {"hs": deque(hs), "read": deque(reads), "write": deque(writes)}
        self.out_all = bytearray()        # everything appended to the outgoing BIO
        self.consumed = bytearray()       # everything taken out of the incoming BIO
        self.accepted = bytearray()       # plaintext accepted by write
        self.handed = bytearray()         # plaintext returned by read
        self.ncalls = 0

    def _next(self, kind: str) -> list:
        s = self.scripts[kind]
        return list(s.popleft()) if s else ["ok", 0, 0, None]

    def _io(self, cin: int, cout: int) -> tuple[int, int]:
        cin = min(int(cin), self.rbio.pending)
        if cin:
            self.consumed += self.rbio.read(cin)
        if cout:
            start = len(self.out_all)
            blob = bytes(0x80 | ((start + i) % 113) for i in range(int(cout)))
            self.out_all += blob
            try:
                self.wbio.write(blob)
            except ssl.SSLError:
                del self.out_all[start:]
                cout = 0
        return cin, int(cout)

    def _call(self, kind: str, shown: str, nbytes: int, data: bytes | None):
        t = cur()
        self.ncalls += 1
        if self.ncalls > 100000:
            raise RuntimeError("the wrapper keeps calling the SSL object without ever suspending (spin)")
        pend = self.rbio.pending
        o, cin, cout, arg = (self._next(kind) + [None] * 4)[:4]
        if o == "wantread" and self.rbio.eof:
            o = "eoferror"
        cin, cout = self._io(cin, cout)
        if o != "ok":
            self.rec.line(f"ssl {t} {shown} in={pend} -> {o} out={cout}")
            self.rec.eng(f"{kind} {o} {cin} {cout}")
            raise_outcome(o)
        if kind == "hs":
            self.rec.line(f"ssl {t} {shown} in={pend} -> ok out={cout}")
            self.rec.eng(f"hs ok {cin} {cout}")
            return None
        if kind == "read":
            k = 3 if arg is None else int(arg)
            k = max(0, min(k, nbytes))
            start = len(self.handed)
            blob = bytes(97 + ((start + i) % 26) for i in range(k))
            self.handed += blob
            self.rec.line(f"ssl {t} {shown} in={pend} -> ok {fmt(blob)} out={cout}")
            self.rec.eng(f"read ok {cin} {cout} {blob.hex() or '-'}")
            return blob
        assert data is not None
        n = len(data) if arg is None else int(arg)
        n = 0 if not data else max(1, min(n, len(data)))
        self.accepted += data[:n]
        self.rec.line(f"ssl {t} {shown} in={pend} -> ok {n} out={cout}")
        self.rec.eng(f"write ok {cin} {cout} {n}")
        return n

    def do_handshake(self) -> None:
        self._call("hs", "hs", 0, None)

    def read(self, n: int = 1024, buffer=None):
        if buffer is None:
            return self._call("read", f"read {n}", n, None)
        with memoryview(buffer) as mv:
            mv = mv.cast("B") if mv.itemsize != 1 else mv
            blob = self._call("read", f"read {n}", min(n, mv.nbytes), None)
            mv[:len(blob)] = blob
            return len(blob)

    def write(self, data) -> int:
        with memoryview(data) as mv:
            raw = bytes(mv)
            if mv.itemsize != 1:
                raise TypeError("ssl.write() needs a bytes-like view of itemsize 1")   # what a strict engine would say
        return self._call("write", f"write {fmt(raw)}", 0, raw)

    def unwrap(self):
        raise ssl.SSLError(ssl.SSL_ERROR_SSL, "scripted engine has no shutdown")


class ScriptedContext:
    def __init__(self, rec: Rec, hs: list, reads: list, writes: list) -> None:
        self.rec, self.hs, self.reads, self.writes = rec, hs, reads, writes
        self.engine: ScriptedEngine | None = None

    def wrap_bio(self, incoming, outgoing, server_side=False, server_hostname=None, session=None):
        self.engine = ScriptedEngine(self.rec, incoming, outgoing, self.hs, self.reads, self.writes)
        self.engine.context = self
        return self.engine


# ------------------------------------------------------------------------------------------------
class RecordingSSLObject:
    """forwards to a real ssl.SSLObject and logs, for every call: the incoming-BIO level before it, how many bytes it
    consumed, the bytes it appended to the outgoing BIO (read back and restored in the same order), its outcome"""

    def __init__(self, rec: Rec, obj: ssl.SSLObject, rbio: ssl.MemoryBIO, wbio: ssl.MemoryBIO) -> None:
        self._rec, self._obj, self._rbio, self._wbio = rec, obj, rbio, wbio
        self.out_all = bytearray()
        self.accepted = bytearray()
        self.handed = bytearray()
        self.calls: list[dict] = []       # per call: kind, outcome, pend, cin, cout(bytes), n / data

    @property
    def context(self):
        return self._obj.context

    def getpeercert(self, binary_form: bool = False):
        return self._obj.getpeercert(binary_form)

    def cipher(self):
        return self._obj.cipher()

    def compression(self):
        return self._obj.compression()

    def version(self):
        return self._obj.version()

    def _new_output(self, before: int) -> bytes:
        after = self._wbio.pending
        if after <= before:
            return b""
        allp = self._wbio.read()
        try:
            self._wbio.write(allp)
        except ssl.SSLError:      # write_eof() was called: the session is over anyway
            pass
        return allp[before:]

    def _run(self, kind: str, shown: str, fn: Callable[[], Any]):
        t = cur()
        if len(self.calls) > 400000:
            raise RuntimeError("the wrapper keeps calling the SSL object without ever suspending (spin)")
        pend, wb = self._rbio.pending, self._wbio.pending
        try:
            res = fn()
        except ssl.SSLError as e:
            o = ("wantread" if isinstance(e, ssl.SSLWantReadError) else "wantwrite" if isinstance(e, ssl.SSLWantWriteError)
                 else "zeroreturn" if isinstance(e, ssl.SSLZeroReturnError) else "eoferror" if isinstance(e, ssl.SSLEOFError)
                 else "error")
            cin = pend - self._rbio.pending
            new = self._new_output(wb)
            self.out_all += new
            self.calls.append({"kind": kind, "out": o, "pend": pend, "cin": cin, "cout": new})
            self._rec.line(f"ssl {t} {shown} in={pend} -> {o} out={len(new)}")
            self._rec.eng(f"{kind} {o} {cin} {len(new)}")
            raise
        cin = pend - self._rbio.pending
        new = self._new_output(wb)
        self.out_all += new
        return t, pend, cin, new, res

    def do_handshake(self) -> None:
        t, pend, cin, new, _ = self._run("hs", "hs", self._obj.do_handshake)
        self.calls.append({"kind": "hs", "out": "ok", "pend": pend, "cin": cin, "cout": new})
        self._rec.line(f"ssl {t} hs in={pend} -> ok out={len(new)}")
        self._rec.eng(f"hs ok {cin} {len(new)}")

    def read(self, n: int = 1024, buffer=None):
        if buffer is None:
            t, pend, cin, new, res = self._run("read", f"read {n}", lambda: self._obj.read(n))
            blob = bytes(res)
        else:
            t, pend, cin, new, res = self._run("read", f"read {n}", lambda: self._obj.read(n, buffer))
            with memoryview(buffer) as mv:
                mv = mv.cast("B") if mv.itemsize != 1 else mv
                blob = bytes(mv[:res])
        self.handed += blob
        self.calls.append({"kind": "read", "out": "ok", "pend": pend, "cin": cin, "cout": new, "data": blob})
        self._rec.line(f"ssl {t} read {n} in={pend} -> ok {fmt(blob)} out={len(new)}")
        self._rec.eng(f"read ok {cin} {len(new)} {blob.hex() or '-'}")
        return res

    def write(self, data) -> int:
        with memoryview(data) as mv:
            raw = bytes(mv)
        t, pend, cin, new, res = self._run("write", f"write {fmt(raw)}", lambda: self._obj.write(data))
        self.accepted += raw[:res]
        self.calls.append({"kind": "write", "out": "ok", "pend": pend, "cin": cin, "cout": new, "n": res, "len": len(raw)})
        self._rec.line(f"ssl {t} write {fmt(raw)} in={pend} -> ok {res} out={len(new)}")
        self._rec.eng(f"write ok {cin} {len(new)} {res}")
        return res

    def unwrap(self):
        return self._obj.unwrap()


class RecordingContext:
    def __init__(self, rec: Rec, ctx: ssl.SSLContext) -> None:
        self.rec, self.ctx = rec, ctx
        self.engine: RecordingSSLObject | None = None

    def wrap_bio(self, incoming, outgoing, server_side=False, server_hostname=None, session=None):
        obj = self.ctx.wrap_bio(incoming, outgoing, server_side=server_side, server_hostname=server_hostname, session=session)
        self.engine = RecordingSSLObject(self.rec, obj, incoming, outgoing)
        return self.engine
