"""
C15 connection kind "tls": the accepted connection is the library's own `AsyncTLSStreamTransport`, created by the library's
own `AsyncTLSListener` (what `AsyncTCPNetworkServer(..., ssl=ctx)` puts in front of every listener), over an in-memory WIRE
transport whose other end is a real `ssl.SSLObject` client (memory BIOs) living inside the harness.  Everything stays on the
virtual-time loop of vlib/c15_env.py: the handshake and the TLS closing handshake are real (the peer answers every flight
inside the server's `send_all()`), they cost loop turns but no virtual time.

    TLSWire(SessionTransport)     the wire.  `incoming` is the list of CIPHERTEXT pieces with absolute arrival times; it GROWS
                                  while the session runs (handshake flights of the peer, then - as soon as the peer's handshake
                                  is complete - the whole scripted plaintext, one TLS record per scripted chunk, then the peer's
                                  close_notify).  What the server writes is fed to the peer's SSL object; `written` holds the
                                  PLAINTEXT the peer decrypted (the responses).  `nread` = number of plaintext bytes whose records
                                  the server has completely taken out of the wire (oracle rule 4b).

Case fields (all optional; `case["conn"] == "tls"`)
    tls_max    "1.3" (default) | "1.2"           highest protocol version the peer offers
    rec_cuts   [k, ...] cyclic, one per record   0 = the record arrives in one piece; k > 0: cut k bytes after its start
                                                 (1..5 = inside the record header); k < 0: |k| bytes before its end (inside the
                                                 authentication tag); the LAST piece arrives at the scripted time of the chunk
    rec_early  [bool, ...] cyclic, per record    the first piece arrives as early as the stream order allows (the arrival time
                                                 of the previous chunk) instead of together with the last one: the server sits
                                                 on a partial record while the yielded timeout runs
    coalesce   bool                              records whose chunks arrive at the same time come in ONE read of the wire
                                                 (the SSL object then hands out several records without touching the wire)
    end        "eof"  = close_notify, then the wire's EOF (a clean TLS shutdown)          | "reset" | "oserror" (wire errors)
               "ragged" = the wire's EOF without close_notify (SSL EOF error: a disconnection for the high-level server,
                          an OSError thrown into the generator for a low-level server without filter)

The peer answers the server's close_notify with its own at once and hangs up (it stops sending: scripted records that have
not "left" yet are dropped), as a well-behaved TLS peer does; so closing never waits for the shutdown timeout.
"""
from __future__ import annotations

import asyncio
import ssl
from pathlib import Path
from typing import Any

from vlib import c15_run as run

CERT = str(Path(__file__).with_name("c14_certs") / "cert.pem")
KEY = str(Path(__file__).with_name("c14_certs") / "key.pem")

_SERVER_CTX: ssl.SSLContext | None = None
_CLIENT_CTX: dict[str, ssl.SSLContext] = {}


def server_context() -> ssl.SSLContext:
    global _SERVER_CTX
    if _SERVER_CTX is None:
        ctx = ssl.SSLContext(ssl.PROTOCOL_TLS_SERVER)
        ctx.load_cert_chain(CERT, KEY)
        _SERVER_CTX = ctx
    return _SERVER_CTX


def client_context(tls_max: str = "1.3") -> ssl.SSLContext:
    ctx = _CLIENT_CTX.get(tls_max)
    if ctx is None:
        ctx = ssl.SSLContext(ssl.PROTOCOL_TLS_CLIENT)
        ctx.check_hostname = False
        ctx.verify_mode = ssl.CERT_NONE
        if tls_max == "1.2":
            ctx.maximum_version = ssl.TLSVersion.TLSv1_2
        _CLIENT_CTX[tls_max] = ctx
    return ctx


def is_disconnect(exc: BaseException) -> bool:
    """what the high-level TCP server treats as "the client went away" (ConnectionError, SSL EOF)"""
    return isinstance(exc, (ConnectionError, ssl.SSLEOFError))


class TLSWire(run.SessionTransport):
    def __init__(self, case: dict, plain: list[tuple[float, bytes]], t_end: float, **kw: Any) -> None:
        end = case.get("end", "eof")
        self.tls_end = end
        super().__init__([], "eof" if end in ("eof", "ragged") else end, t_end, **kw)
        self.case = case
        self.plain = list(plain)
        self.p_in = ssl.MemoryBIO()
        self.p_out = ssl.MemoryBIO()
        self.obj = client_context(case.get("tls_max", "1.3")).wrap_bio(self.p_in, self.p_out, server_side=False,
                                                                       server_hostname="localhost")
        self.hs_done = False
        self.cn_sent = False            # the peer has sent its close_notify
        self.cn_received = False        # the peer has seen the server's close_notify
        self.peer_log: list[str] = []
        self.done_marks: list[int | None] = []    # per item of `incoming`: plaintext bytes complete once it is consumed
        self.wire_read = 0
        self.version: str | None = None
        # ClientHello
        try:
            self.obj.do_handshake()
        except ssl.SSLWantReadError:
            pass
        self._flush_out(0.0)

    # ---- the peer
    def _now(self) -> float:
        try:
            return asyncio.get_running_loop().time()
        except RuntimeError:
            return 0.0

    def _flush_out(self, t: float, mark: int | None = None) -> None:
        data = self.p_out.read()
        if data:
            self.incoming.append((t, data))
            self.done_marks.append(mark)

    def _schedule_plaintext(self) -> None:
        """the peer's handshake is complete: everything it is going to say, one record per scripted chunk"""
        case = self.case
        cuts = [int(c) for c in (case.get("rec_cuts") or [0])]
        early = [bool(e) for e in (case.get("rec_early") or [False])]
        now = self._now()
        blobs: list[tuple[float, bytes, int]] = []       # (arrival, ciphertext, plaintext bytes complete after it)
        done = 0
        for t, chunk in self.plain:
            self.obj.write(chunk)
            ct = self.p_out.read()
            done += len(chunk)
            t = max(t, now)
            if case.get("coalesce") and blobs and blobs[-1][0] == t:
                blobs[-1] = (t, blobs[-1][1] + ct, done)
            else:
                blobs.append((t, ct, done))
        prev_t = now
        for i, (t, ct, done) in enumerate(blobs):
            k = cuts[i % len(cuts)]
            if k < 0:
                k = len(ct) + k
            if 0 < k < len(ct):
                t_first = prev_t if early[i % len(early)] else t
                self.incoming.append((t_first, ct[:k]))
                self.done_marks.append(None)
                self.incoming.append((t, ct[k:]))
                self.done_marks.append(done)
            else:
                self.incoming.append((t, ct))
                self.done_marks.append(done)
            prev_t = t

    def _peer_feed(self, data: bytes) -> None:
        now = self._now()
        self.p_in.write(data)
        if not self.hs_done:
            try:
                self.obj.do_handshake()
            except ssl.SSLWantReadError:
                self._flush_out(now)
                return
            except ssl.SSLError as e:
                self.peer_log.append("handshake-error " + type(e).__name__)
                return
            self.hs_done = True
            self.version = self.obj.version()
            self._flush_out(now)
            self._schedule_plaintext()
        while True:
            try:
                d = self.obj.read(65536)
            except ssl.SSLWantReadError:
                break
            except ssl.SSLZeroReturnError:
                self._peer_got_close_notify(now)
                break
            except ssl.SSLError as e:
                self.peer_log.append("read-error " + type(e).__name__)
                break
            if not d:
                # (CPython: a clean close_notify read while we have not sent ours comes back as an empty read)
                self._peer_got_close_notify(now)
                break
            self.written.append(bytes(d))

    def _peer_got_close_notify(self, now: float) -> None:
        if self.cn_received:
            return
        self.cn_received = True
        # the peer stops talking: what has not left yet (arrival in the future) is never sent
        keep = self.pos + (1 if self.off else 0)
        while keep < len(self.incoming) and self.incoming[keep][0] <= now:
            keep += 1
        del self.incoming[keep:]
        del self.done_marks[keep:]
        if not self.cn_sent:
            self.cn_sent = True
            try:
                self.obj.unwrap()
            except ssl.SSLError:     # (WantRead included)
                pass
            self._flush_out(now)
        # ... and hangs up
        self.end = "eof"
        self.end_time = now

    # ---- AsyncStreamTransport
    async def send_all(self, data) -> None:
        if self.closing:
            raise OSError(9, "transport closed")
        if self.send_error is not None:
            raise self.send_error
        self._peer_feed(bytes(data))
        await asyncio.sleep(0)

    async def _wait_readable(self) -> bytes | None:
        if self.closing:
            return await super()._wait_readable()        # (the `after_close` behaviours; never grows any more)
        loop = asyncio.get_running_loop()
        slept = False
        while True:
            if self.closing:
                self.recv_while_closed += 1
                raise OSError(9, "transport closed")
            if self.pos < len(self.incoming):
                t, data = self.incoming[self.pos]
                if t > loop.time():
                    await asyncio.sleep(t - loop.time())
                    slept = True
                    continue
                if not slept:
                    await asyncio.sleep(0)
                    slept = True
                    continue
                return data[self.off:]
            if not self.hs_done:
                # the peer has nothing to say before the server answers: a handshake that does not advance
                await asyncio.sleep(3600.0)
                slept = True
                continue
            if self.end_time > loop.time():
                await asyncio.sleep(self.end_time - loop.time())
                slept = True
                continue
            if self.tls_end == "eof" and not self.cn_sent:
                # the peer is done: clean TLS shutdown (close_notify), then the wire's EOF
                self.cn_sent = True
                try:
                    self.obj.unwrap()
                except ssl.SSLError:
                    pass
                self._flush_out(loop.time())
                continue
            if not slept:
                await asyncio.sleep(0)
            return None

    def _consume(self, n: int) -> None:
        loop = asyncio.get_running_loop()
        self.recv_log.append((loop.time(), n))
        self.wire_read += n
        t, data = self.incoming[self.pos]
        self.off += n
        if self.off >= len(data):
            mark = self.done_marks[self.pos] if self.pos < len(self.done_marks) else None
            if mark is not None:
                self.nread = mark
            self.pos += 1
            self.off = 0


class TLSConnection:
    """the `c15_run.Connection` of kind "tls" (same interface)"""

    kind = "tls"

    def __init__(self, case: dict, be=None, adopt=None) -> None:
        incoming, t_end, chunks = run.build_incoming(case)
        self.incoming, self.t_end, self.chunks = incoming, t_end, chunks       # the PLAINTEXT schedule (oracle rule 4)
        kw = {"be": be} if be is not None else {}
        self.wire = TLSWire(case, incoming, t_end, after_close=case.get("after_close", "ebadf"), **kw)
        if adopt is not None:
            adopt(self.wire, "rw")
        self.reader = self.writer = self.wire
        self.transport = self.wire          # what the in-memory listener accepts; AsyncTLSListener wraps it

    def closed(self) -> bool:
        return bool(self.wire.closed and self.wire.is_closing())

    def final_lines(self) -> list[str]:
        w = self.wire
        return [f"transport closed={int(self.closed())} aclose_calls={min(w.aclose_calls, 9)}",
                f"tls version={w.version} handshake={int(w.hs_done)} peer-close-notify={int(w.cn_sent)} "
                f"server-close-notify={int(w.cn_received)}" + ("".join(" " + x for x in w.peer_log))]

    def fill_aux(self, aux: dict) -> None:
        aux["written"] = b"".join(self.wire.written)
        aux["recv_log"] = self.wire.recv_log
        aux["recv_while_closed"] = self.wire.recv_while_closed


def wrap_listener(listener: Any) -> Any:
    """the library's TLS listener in front of the in-memory one (what AsyncTCPNetworkServer(ssl=...) builds)"""
    from easynetwork.lowlevel.api_async.transports.tls import AsyncTLSListener

    return AsyncTLSListener(listener, server_context())
