"""
C12 real-code runners.  Every runner returns (lines, aux): canonical trace lines of the REAL code under the
deterministic environment of c12_env, ending with `wire <hex>` and the `rx …` lines obtained by parsing the
wire back into packets with the real consumer.

Targets
  aclient   AsyncTCPNetworkClient.send_packet from N tasks            (send lock = logged FairLock / asyncio.Lock)
  sclient   server-side client object (AsyncTCPNetworkServer, in-memory listener) .send_packet from N tasks
  endpoint  AsyncStreamEndpoint.send_packet from N tasks, NO lock     (ResourceGuard -> BusyResourceError)
  fairlock  FairLock driven directly: acquire / hold / release rounds, timeouts cancelling waiters
  tls       AsyncTLSStreamTransport.send_all_from_iterable from N tasks, no upper lock (backlog + send lock)
  tlsclient AsyncTCPNetworkClient over the TLS transport
  tcp/udp   blocking thread-safe clients, real threads (stress run; order not controlled)
"""
from __future__ import annotations

import asyncio
import errno
from typing import Any

from vlib import core, sers
from vlib import c12_env as env

from easynetwork.clients.async_tcp import AsyncTCPNetworkClient
from easynetwork.exceptions import BusyResourceError, ClientClosedError, StreamProtocolParseError
from easynetwork.lowlevel._stream import StreamDataConsumer
from easynetwork.lowlevel.api_async.endpoints.stream import AsyncStreamEndpoint, AsyncStreamSenderEndpoint
from easynetwork.protocol import StreamProtocol
from easynetwork.serializers.abc import AbstractIncrementalPacketSerializer
from easynetwork.serializers.tools import GeneratorStreamReader


class Chunked(AbstractIncrementalPacketSerializer[bytes, bytes]):
    """round 5: packets are raw byte strings (no separator byte inside) sent as `n` pieces followed by the separator, so that
    send_all_from_iterable() really gets several chunks per packet (pieces may be EMPTY when the payload is shorter than n:
    an empty chunk is a chunk); `views` = the buffer type of each piece, cycled: "b" bytes, "a" bytearray, "m" memoryview,
    "H" memoryview with 2-byte items (even lengths only)"""

    def __init__(self, n: int, sep: bytes = b"\n", views: str = "b", limit: int = 65536) -> None:
        self.n, self.sep, self.views, self.limit = max(1, n), sep, views or "b", limit

    def incremental_serialize(self, packet: bytes):
        packet = bytes(packet)
        size = max(1, -(-len(packet) // self.n))
        pieces = [packet[i * size:(i + 1) * size] for i in range(self.n)] + [self.sep]
        for i, piece in enumerate(pieces):
            v = self.views[i % len(self.views)]
            if v == "a":
                yield bytearray(piece)
            elif v == "m":
                yield memoryview(piece)
            elif v == "H" and len(piece) % 2 == 0 and piece:
                yield memoryview(piece).cast("H")
            else:
                yield piece

    def incremental_deserialize(self):
        reader = GeneratorStreamReader()
        data = yield from reader.read_until(self.sep, self.limit, keep_end=False)
        return data, reader.read_all()


def build_serializer(spec: dict) -> Any:
    if spec["k"] == "chunked":
        return Chunked(spec["n"], bytes.fromhex(spec.get("sep", "0a")), spec.get("views", "b"))
    return sers.build(spec)


def build_protocol(spec: dict) -> StreamProtocol:
    return StreamProtocol(build_serializer(spec))


def packet_of(spec: dict, hexs: str) -> Any:
    b = bytes.fromhex(hexs)
    if spec["k"] == "line":
        return b.decode("ascii")
    return b


def packet_hex(spec: dict, p: Any) -> str:
    if isinstance(p, str):
        p = p.encode("ascii")
    return bytes(p).hex() or "-"


def expected_chunks(spec: dict, hexs: str) -> bytes:
    """the bytes one send of this packet must put on the wire (real serializer, separately from the run)"""
    return b"".join(build_protocol(spec).generate_chunks(packet_of(spec, hexs)))


def parse_wire(spec: dict, wire: bytes) -> list[str]:
    """the byte stream as the peer sees it, parsed back into packets by the real consumer"""
    out: list[str] = []
    cons = StreamDataConsumer(build_protocol(spec))
    chunk: bytes | None = wire
    for _ in range(len(wire) + 2):
        try:
            p = cons.next(chunk)
        except StopIteration:
            break
        except StreamProtocolParseError as e:
            out.append(f"rx-err {type(e.error).__name__}")
        else:
            out.append(f"rx {packet_hex(spec, p)}")
        chunk = None
    left = cons.get_buffer()
    if len(left):
        out.append(f"rx-left {bytes(left).hex()}")
    return out


def exc_enum(e: BaseException) -> str:
    if isinstance(e, BusyResourceError):
        return "busy"
    if isinstance(e, ClientClosedError):
        return "closed"
    if isinstance(e, asyncio.CancelledError):
        return "cancelled"
    if isinstance(e, TimeoutError):
        return "timeout"
    if isinstance(e, ConnectionError):
        return "conn-" + type(e).__name__
    if isinstance(e, OSError):
        return "oserror-" + errno.errorcode.get(e.errno or 0, str(e.errno))
    return "exc-" + type(e).__name__


async def _quiet(aw) -> None:
    """clean-up after the observed part of a run: its failures are not observables of C12"""
    try:
        await aw
    except Exception:
        pass


class Senders:
    """N tasks each sending its packets in sequence through `send(packet)`; cancels delivered only to
    senders parked in the lock (the property says nothing about a send cancelled half-way)"""

    def __init__(self, case: dict, trace: env.Trace, send, parked, on_started=None) -> None:
        self.case, self.trace, self.send, self.parked = case, trace, send, parked
        self.tasks: dict[str, asyncio.Task] = {}
        self.on_started = on_started        # called once the sender tasks exist (C12/TLS: readers created after the senders)

    async def _one(self, name: str, s: dict) -> None:
        spec = self.case["spec"]
        if s.get("delay"):
            await asyncio.sleep(float(s["delay"]))
        gaps = s.get("gaps", [])
        for j, h in enumerate(s["packets"]):
            self.trace.ev(f"send {name} {j}")
            try:
                await self.send(packet_of(spec, h))
            except asyncio.CancelledError:
                self.trace.ev(f"sent {name} {j} cancelled")
                asyncio.current_task().uncancel()
                if not self.case.get("continue_after_cancel", True):
                    return
            except Exception as e:
                self.trace.ev(f"sent {name} {j} {exc_enum(e)}")
            else:
                self.trace.ev(f"sent {name} {j} ok")
            g = gaps[j] if j < len(gaps) else 0
            await env.pause(g)

    def _maybe_cancel(self, name: str) -> None:
        t = self.tasks.get(name)
        if t is not None and not t.done() and name in self.parked():
            self.trace.ev(f"cancel-req {name}")
            t.cancel()

    async def run(self) -> None:
        loop = asyncio.get_running_loop()
        order = self.case.get("start_order") or list(range(len(self.case["senders"])))
        for i in order:
            name = f"s{i}"
            self.tasks[name] = loop.create_task(self._one(name, self.case["senders"][i]), name=name)
        if self.on_started is not None:
            self.on_started()
        for i, when in self.case.get("cancels", []):
            loop.call_at(float(when), self._maybe_cancel, f"s{i}")
        await asyncio.gather(*self.tasks.values())


def finish(case: dict, trace: env.Trace, wire: bytes, res: Any, loop: env.VLoop) -> list[str]:
    return finish_lines(case, trace, wire, isinstance(res, env.Deadlock) or loop.deadlocked)


def finish_lines(case: dict, trace: env.Trace, wire: bytes, deadlocked: bool) -> list[str]:
    lines = list(trace.lines)
    if deadlocked:
        lines.append("deadlock")
    lines.append(f"wire {core.hexs(bytes(wire))}")
    lines.extend(parse_wire(case["spec"], bytes(wire)))
    return lines


# ------------------------------------------------------------------------------------------------
# Every target is a SESSION: `session_x(case, trace, box)` returns the coroutine function that builds the library object,
# runs the senders on it and cleans up.  `run_x` runs one session alone on a fresh loop; c12_multi runs several sessions
# (of mixed kinds) concurrently in ONE loop.  `env.make_backend` gives the session its own HBackend, or the backend shared
# by all the sessions of the loop.
# ------------------------------------------------------------------------------------------------

def _wire_of(box: dict) -> bytes:
    return box["tr"].wire if "tr" in box else b""


def session_aclient(case: dict, trace: env.Trace, box: dict):
    async def main() -> None:
        backend = env.make_backend(trace, lock_kind=case.get("lock", "fair"))
        tr = env.MemTransport(backend, trace, env.Script(case["script"]), mode=case.get("mode", "iter"))
        box["tr"] = tr
        backend.transports.append(tr)
        backend.lock_names = [""]
        backend.connect_pause = case.get("connect_pause", 0)
        client = AsyncTCPNetworkClient(env.attr_socket(), build_protocol(case["spec"]), backend)
        if case.get("connect_first", True):
            await client.wait_connected()
        lock = backend.fair_locks[0]
        await Senders(case, trace, client.send_packet, lambda: lock.parked).run()
        trace.ev(f"final {lock.state()}")
        trace.enabled = False
        await _quiet(client.aclose())

    return main


def run_aclient(case: dict) -> list[str]:
    trace = env.Trace()
    box: dict[str, Any] = {}
    res, loop = env.run(session_aclient(case, trace, box), trace)
    return finish(case, trace, _wire_of(box), res, loop)


def session_endpoint(case: dict, trace: env.Trace, box: dict):
    """no lock above the endpoint: ResourceGuard must refuse the concurrent call instead of interleaving.
    target `sendpoint` = the write-only AsyncStreamSenderEndpoint (same contract)"""
    async def main() -> None:
        backend = env.make_backend(trace)
        tr = env.MemTransport(backend, trace, env.Script(case["script"]), mode=case.get("mode", "iter"))
        box["tr"] = tr
        if case["target"] == "sendpoint":
            ep: Any = AsyncStreamSenderEndpoint(tr, build_protocol(case["spec"]))
        else:
            ep = AsyncStreamEndpoint(tr, build_protocol(case["spec"]), max_recv_size=1024)
        await Senders(case, trace, ep.send_packet, lambda: set()).run()
        trace.enabled = False
        await _quiet(ep.aclose())

    return main


def run_endpoint(case: dict) -> list[str]:
    trace = env.Trace()
    box: dict[str, Any] = {}
    res, loop = env.run(session_endpoint(case, trace, box), trace)
    return finish(case, trace, _wire_of(box), res, loop)


def session_fairlock(case: dict, trace: env.Trace, box: dict):
    """FairLock alone: every task does rounds of  [timeout d:] acquire ; hold ; release"""
    async def main() -> None:
        lock = env.LoggedFairLock(trace) if case.get("lock", "fair") == "fair" else env.LoggedAsyncioLock(trace)
        loop = asyncio.get_running_loop()
        tasks: dict[str, asyncio.Task] = {}

        async def one(name: str, s: dict) -> None:
            if s.get("delay"):
                await asyncio.sleep(float(s["delay"]))
            for j, (hold, tmo, gap) in enumerate(s["rounds"]):
                trace.ev(f"send {name} {j}")
                try:
                    if tmo:
                        async with asyncio.timeout(float(tmo)):
                            await lock.acquire()
                    else:
                        await lock.acquire()
                except TimeoutError:
                    trace.ev(f"sent {name} {j} cancelled")
                    await env.pause(gap)
                    continue
                except asyncio.CancelledError:
                    trace.ev(f"sent {name} {j} cancelled")
                    asyncio.current_task().uncancel()
                    await env.pause(gap)
                    continue
                try:
                    await env.pause(hold)
                finally:
                    lock.release()
                trace.ev(f"sent {name} {j} ok")
                await env.pause(gap)

        def maybe_cancel(name: str) -> None:
            t = tasks.get(name)
            if t is not None and not t.done() and name in lock.parked:
                trace.ev(f"cancel-req {name}")
                t.cancel()

        order = case.get("start_order") or list(range(len(case["senders"])))
        for i in order:
            tasks[f"s{i}"] = loop.create_task(one(f"s{i}", case["senders"][i]), name=f"s{i}")
        for i, when in case.get("cancels", []):
            loop.call_at(float(when), maybe_cancel, f"s{i}")
        await asyncio.gather(*tasks.values())
        trace.ev(f"final {lock.state()}")

    return main


def fairlock_lines(trace: env.Trace, deadlocked: bool) -> list[str]:
    lines = list(trace.lines)
    if deadlocked:
        lines.append("deadlock")
    return lines


def run_fairlock(case: dict) -> list[str]:
    trace = env.Trace()
    res, loop = env.run(session_fairlock(case, trace, {}), trace)
    return fairlock_lines(trace, isinstance(res, env.Deadlock) or loop.deadlocked)


def session_sclient(case: dict, trace: env.Trace, box: dict, more: tuple = ()):
    """the client object a request handler gets from AsyncTCPNetworkServer (servers/async_tcp._ConnectedClientAPI).
    `more` (c12_multi): further connections `(obj, case, trace, box)` accepted by the SAME server, each with its own
    server-side client object, senders and in-memory transport"""
    import logging

    from easynetwork.servers.async_tcp import AsyncTCPNetworkServer
    from easynetwork.servers.handlers import AsyncStreamRequestHandler

    async def main() -> None:
        me = env.OBJ.get()
        backend = env.make_backend(trace, lock_kind=case.get("lock", "fair"))
        conns = {me: (case, trace, box)}
        for obj, c, t, b in more:
            backend.register(t, c.get("lock", "fair"), obj=obj)       # (a group of connections needs the routing backend)
            conns[obj] = (c, t, b)
        trs = []
        for obj, (c, t, b) in conns.items():
            tr = env.MemTransport(backend, t, env.Script(c["script"]), mode=c.get("mode", "iter"))
            tr.obj = obj
            b["tr"] = tr
            trs.append(tr)
            if obj == me:
                backend.lock_names = [""]
            else:
                backend.record(obj).lock_names = [""]
        backend.listener_transports.extend(trs)
        done = asyncio.Event()
        left = [len(conns)]

        class Handler(AsyncStreamRequestHandler):
            async def on_connection(self, client) -> None:
                c, t, _b = conns[env.OBJ.get()]
                lock = backend.fair_locks[0]
                try:
                    await Senders(c, t, client.send_packet, lambda: lock.parked).run()
                    t.ev(f"final {lock.state()}")
                finally:
                    t.enabled = False
                    left[0] -= 1
                    if left[0] <= 0:
                        done.set()

            async def handle(self, client):
                yield

        logger = logging.getLogger("c12.sclient")
        logger.disabled = True
        server = AsyncTCPNetworkServer("127.0.0.1", 0, build_protocol(case["spec"]), Handler(), backend, logger=logger)
        task = asyncio.get_running_loop().create_task(server.serve_forever(), name="server")
        waiter = asyncio.get_running_loop().create_task(done.wait(), name="done")
        await asyncio.wait([task, waiter], return_when=asyncio.FIRST_COMPLETED)
        for _c, t, _b in conns.values():
            t.enabled = False
        await server.shutdown()
        await server.server_close()
        waiter.cancel()
        await asyncio.gather(task, waiter, return_exceptions=True)

    return main


def run_sclient(case: dict) -> list[str]:
    trace = env.Trace()
    box: dict[str, Any] = {}
    res, loop = env.run(session_sclient(case, trace, box), trace)
    return finish(case, trace, _wire_of(box), res, loop)
