"""
C17 unit cases: one real filter object alone (no sockets), and CPython's own exception-group semantics.

  split    `BaseExceptionGroup.split(cls)` of the real interpreter on a generated tree            (vs Lean `split`)
  cls      the class CPython gives the group object (`ExceptionGroup` vs `BaseExceptionGroup`)    (vs Lean `clsOf`)
  filter   tcp.suppress_and_log      : the real `AsyncTCPNetworkServer.__suppress_and_log_remaining_exception` context manager
           udp.client_context_aexit  : the real `_ClientContext.__aexit__`
           tls.handler_wrapper       : the real `AsyncTCPNetworkServer.__client_tls_handshake_error_handler` (logging decision;
                                       Exception trees only — the `except Exception` around it is exercised by the server cases)
"""
from __future__ import annotations

import asyncio
import logging
import socket
from typing import Any

from vlib import core  # noqa: F401
from vlib import c17_run as R

from easynetwork.lowlevel import _utils
from easynetwork.lowlevel.socket import INETSocketAttribute, IPv4SocketAddress
from easynetwork.protocol import StreamProtocol
from easynetwork.serializers.line import StringLineSerializer
from easynetwork.servers.async_tcp import AsyncTCPNetworkServer
from easynetwork.servers import async_udp


class _Dummy(R.AsyncStreamRequestHandler):  # type: ignore[type-arg]
    async def handle(self, client):  # type: ignore[override]
        yield


_server: AsyncTCPNetworkServer | None = None


def _tcp_server() -> AsyncTCPNetworkServer:
    global _server
    if _server is None:
        loop = R._get_loop()
        asyncio.set_event_loop(loop)

        async def mk() -> AsyncTCPNetworkServer:
            return AsyncTCPNetworkServer(R.HOST, 0, StreamProtocol(StringLineSerializer()), _Dummy(),
                                         logger=logging.getLogger("c17.server"))

        _server = loop.run_until_complete(mk())
    return _server


class _FakeLowlevelServer:
    def extra(self, attr: Any, default: Any = None) -> Any:
        if attr is INETSocketAttribute.family:
            return socket.AF_INET
        raise KeyError(attr)


class _FakeLowlevelClient:
    address = ("127.0.0.1", 4242)
    server = _FakeLowlevelServer()


def _capture():
    cap = R.Capture()
    loggers = [logging.getLogger("c17.server"), logging.getLogger("easynetwork")]
    saved = [(lg, lg.level, lg.propagate, list(lg.handlers)) for lg in loggers]
    for lg in loggers:
        lg.handlers[:] = [cap]
        lg.setLevel(logging.DEBUG)
        lg.propagate = False

    def restore() -> None:
        for lg, lvl, prop, hs in saved:
            lg.handlers[:] = hs
            lg.setLevel(lvl)
            lg.propagate = prop
    return cap, restore


def _opt(e: BaseException | None) -> str:
    return "-" if e is None else R.exc_tree_text(e)


def run_unit(case: dict) -> list[str]:
    op = case["op"]
    tree = case["tree"]
    if op == "split":
        e = R.make_exc(tree)
        assert isinstance(e, BaseExceptionGroup)
        m, r = e.split(R.ALPHABET.get(case["cls"]) or R.GROUPS[case["cls"]])
        return [f"match {_opt(m)}", f"rest {_opt(r)}"]
    if op == "cls":
        e = R.make_exc(tree)
        return [f"cls {type(e).__name__ if isinstance(e, BaseExceptionGroup) else R.exc_tree_text(e)}"]
    assert op == "filter"
    name = case["filter"]
    cap, restore = _capture()
    out: str
    try:
        exc = R.make_exc(tree)
        if name == "tcp.suppress_and_log":
            srv = _tcp_server()
            cm = getattr(srv, "_AsyncTCPNetworkServer__suppress_and_log_remaining_exception")
            try:
                with cm(client_address=IPv4SocketAddress("127.0.0.1", 4242)):
                    raise exc
            except BaseException as e:  # noqa: BLE001
                out = "out escapes " + R.exc_tree_text(e)
            else:
                out = "out swallowed"
        elif name == "udp.client_context_aexit":
            ctx = async_udp._ClientContext(_FakeLowlevelClient(), {}, _utils.Flag(), logging.getLogger("c17.server"))  # type: ignore[arg-type]
            loop = R._get_loop()

            async def go() -> str:
                try:
                    try:
                        raise exc
                    except BaseException as e:  # noqa: BLE001
                        if await ctx.__aexit__(type(e), e, e.__traceback__):
                            return "out swallowed"
                        raise
                except BaseException as e2:  # noqa: BLE001
                    return "out escapes " + R.exc_tree_text(e2)

            t = loop.create_task(go())
            try:
                loop.run_until_complete(t)
            except (KeyboardInterrupt, SystemExit) as e:
                if not R.is_marker(e):
                    raise
            out = t.result()
        elif name == "tls.handler_wrapper":
            h = getattr(AsyncTCPNetworkServer, "_AsyncTCPNetworkServer__client_tls_handshake_error_handler")
            h(logging.getLogger("c17.server"), exc)
            out = "out swallowed"
        else:
            raise core.InfraError(f"C17: no unit runner for filter {name}")
    finally:
        restore()
    return cap.lines + [out]
