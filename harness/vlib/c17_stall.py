"""
C17 responsiveness runner ("other clients are served UNAFFECTED", added after seeded change C17-m8 was missed).

The isolation cases of c17_run.py judge *outcomes* (who was answered what); a server that answers everybody but freezes
for seconds every time a failed client is torn down passes them.  Here one asyncio loop hosts the REAL
AsyncTCPNetworkServer (plain / TLS), a healthy client B doing request / response round trips, a loop heartbeat, and a
client A whose client task ends in one of the ways a client task can end

    end        how A's client task ends
    h_raise    handle() answers A's request with a big packet and raises the exception tree
    h_pre      handle() raises before its first yield (on_connection sent the big packet)
    h_return   handle() returns before its first yield (on_connection sent the big packet)
    oc_raise   on_connection() sends the big packet and raises
    od_raise   handle() raises after the big packet, then on_disconnection() raises too
    bad        A sends a packet the protocol cannot parse; handle() has no `except` (on_connection sent the big packet)
    h_timeout  handle() waits at `yield 0.05`: the TimeoutError propagates (on_connection sent the big packet)
    h_close    handle() sends the big packet, closes the client itself (`await client.aclose()`) and returns
    peer_rst   handle() sends the big packet and waits for the next request; A resets the connection (SO_LINGER 0)
    peer_fin   the same, A closes its end normally

crossed with A READING what it is sent / NOT reading (tiny SO_RCVBUF, reading paused: the big packet — 128 KiB and more,
accepted by the server's kernel send queue, SO_SNDBUF raised through the public socket proxy — stays unacknowledged), plain
TCP / TLS, StreamProtocol / BufferedStreamProtocol, default / eager task factory, every exception class.

Observed (behaviour only; wall-clock is compared with one generous threshold and never printed):
  * B's round trips before / while / after A's task ends, a NEW client afterwards: answered exactly;
  * the longest gap between two consecutive runs of a 10 ms `call_later` heartbeat of the server's loop, and the longest
    time one `socket.close()` of an ACCEPTED socket took inside the loop thread — the event loop's `connect_accepted_socket`
    (ours: public extension point, nothing of the library is patched) hands asyncio an instance of a `socket.socket`
    subclass over the same descriptor that measures its own close(): `long` = 1.0 s or more (unchanged tree: well under
    10 ms; SO_LINGER with a 3 s timeout on a socket with unsent data: 3 s);
  * the SO_LINGER value and the number of unsent bytes (SIOCOUTQ) of A's server-side socket at the moment it is closed;
  * A's connection closed at both ends, on_disconnection once iff on_connection completed, server still serving.
A `long` measurement is confirmed by one re-run of the same case before it is reported; one that does not show up
again is an infrastructure problem (`infra …` line -> InfraError unless real violations were found), never a violation.
"""
from __future__ import annotations

import asyncio
import contextlib
import fcntl
import logging
import socket
import struct
import termios
import threading
import time
from typing import Any

from vlib import core  # noqa: F401  (sys.path for the repository under test)
from vlib import c17_run as R

from easynetwork.exceptions import BaseProtocolParseError
from easynetwork.protocol import BufferedStreamProtocol, StreamProtocol
from easynetwork.serializers.line import StringLineSerializer
from easynetwork.servers.async_tcp import AsyncTCPNetworkServer
from easynetwork.servers.handlers import AsyncStreamRequestHandler, INETClientAttribute

HOST = "127.0.0.1"
LONG = 1.0              # seconds: the event loop must never be blocked that long because one client failed
HEARTBEAT = 0.010
ENDS = ("h_raise", "h_pre", "h_return", "oc_raise", "od_raise", "bad", "h_timeout", "h_close", "peer_rst", "peer_fin")
RAISING_ENDS = ("h_raise", "h_pre", "oc_raise", "od_raise")      # ends that take an exception tree
OC_SENDS = ("h_pre", "h_return", "oc_raise", "bad", "h_timeout")  # the big packet is sent by on_connection


# ----------------------------------------------------------------------------------------------------------------------
# the loop: accepted sockets measure their own close()
# ----------------------------------------------------------------------------------------------------------------------
class MSock(socket.socket):
    """the accepted socket asyncio's transport gets: the same descriptor; close() records what the kernel was asked to do"""
    rec: list[dict]
    peer_port: int | None = None
    loop_thread: int | None = None

    def close(self) -> None:  # type: ignore[override]
        if self.fileno() == -1:
            return super().close()
        ent: dict[str, Any] = {"port": self.peer_port, "in_loop": threading.get_ident() == self.loop_thread}
        try:
            onoff, secs = struct.unpack("ii", self.getsockopt(socket.SOL_SOCKET, socket.SO_LINGER, 8))
            ent["linger"] = (onoff, secs)
        except OSError:
            ent["linger"] = None
        try:
            ent["outq"] = struct.unpack("i", fcntl.ioctl(self.fileno(), termios.TIOCOUTQ, b"\0\0\0\0"))[0]
        except OSError:
            ent["outq"] = None
        t0 = time.monotonic()
        try:
            super().close()
        finally:
            ent["dt"] = time.monotonic() - t0
            self.rec.append(ent)


class StallLoop(asyncio.SelectorEventLoop):
    def __init__(self) -> None:
        super().__init__()
        self.closes: list[dict] = []
        self.hb_gap = 0.0
        self._hb_last: float | None = None
        self._hb_on = False

    async def connect_accepted_socket(self, protocol_factory, sock, **kw):  # type: ignore[override]
        try:
            port = sock.getpeername()[1]
        except OSError:
            port = None
        m = MSock(fileno=sock.detach())
        m.setblocking(False)
        m.rec, m.peer_port, m.loop_thread = self.closes, port, threading.get_ident()
        return await super().connect_accepted_socket(protocol_factory, m, **kw)

    # ---- heartbeat
    def hb_start(self) -> None:
        self._hb_on = True
        self._hb_last = time.monotonic()
        self.call_later(HEARTBEAT, self._hb)

    def hb_stop(self) -> None:
        self._hb()
        self._hb_on = False

    def _hb(self) -> None:
        if not self._hb_on:
            return
        now = time.monotonic()
        if self._hb_last is not None:
            self.hb_gap = max(self.hb_gap, now - self._hb_last)
        self._hb_last = now
        self.call_later(HEARTBEAT, self._hb)


# ----------------------------------------------------------------------------------------------------------------------
# plan + scripted handler
# ----------------------------------------------------------------------------------------------------------------------
class Plan:
    def __init__(self, case: dict, scale: float) -> None:
        self.case = case
        self.end: str = case["end"]
        self.tree: Any = case.get("tree") or "RuntimeError"
        self.tree2: Any = case.get("tree2") or "ValueError"
        self.big = "x" * (int(case.get("kib", 128)) * 1024)
        self.who: dict[int, str] = {}
        self.events: list[str] = []
        self.T = 3.0 * scale
        self.timeouts: list[str] = []
        self.sent = asyncio.Event()          # the big packet has been handed to the kernel
        self.fault = False                   # A's task has reached the point where it ends
        self.sock: Any = None                # A's server-side socket (proxy)

    def name(self, client: Any) -> str:
        try:
            return self.who.get(client.extra(INETClientAttribute.remote_address).port, "?")
        except Exception:
            return "?"

    async def send_big(self, client: Any) -> None:
        # (the packet must fit the kernel's send queue, otherwise send_packet() waits for a peer that does not read)
        with contextlib.suppress(OSError):
            client.extra(INETClientAttribute.socket).setsockopt(socket.SOL_SOCKET, socket.SO_SNDBUF, 1 << 20)
        await client.send_packet(self.big)
        self.sent.set()


class StallHandler(AsyncStreamRequestHandler[str, str]):
    def __init__(self, plan: Plan) -> None:
        self.p = plan

    async def on_connection(self, client):  # type: ignore[override]
        p = self.p
        who = p.name(client)
        p.events.append(f"{who} oc:start")
        if who == "A":
            p.sock = client.extra(INETClientAttribute.socket)
            if p.end in OC_SENDS:
                await p.send_big(client)
            if p.end == "oc_raise":
                p.fault = True
                raise R.make_exc(p.tree)
        p.events.append(f"{who} oc:done")

    async def handle(self, client):  # type: ignore[override]
        p = self.p
        who = p.name(client)
        if who == "A":
            if p.end == "h_pre":
                p.fault = True
                raise R.make_exc(p.tree)
            if p.end == "h_return":
                p.fault = True
                return
            if p.end == "bad":
                try:
                    yield               # no `except`: the parse error propagates out of handle()
                finally:
                    p.fault = True
                return
            if p.end == "h_timeout":
                try:
                    yield 0.05
                finally:
                    p.fault = True
                return
        try:
            req = yield
        except BaseProtocolParseError:
            await client.send_packet("bad")
            return
        if who == "A" and req == "boom":
            await p.send_big(client)
            p.fault = True
            if p.end == "h_close":
                await client.aclose()
                return
            if p.end in ("peer_rst", "peer_fin"):
                try:
                    yield               # A resets / closes: the receiver ends the generator
                finally:
                    pass
                return
            raise R.make_exc(p.tree)
        await client.send_packet(f"pong {req}")

    async def on_disconnection(self, client):  # type: ignore[override]
        p = self.p
        who = p.name(client)
        p.events.append(f"{who} od")
        if who == "A" and p.end == "od_raise":
            raise R.make_exc(p.tree2)


# ----------------------------------------------------------------------------------------------------------------------
# clients
# ----------------------------------------------------------------------------------------------------------------------
async def _bounded(plan: Plan, aw: Any, label: str) -> Any:
    try:
        return await asyncio.wait_for(aw, plan.T)
    except asyncio.TimeoutError:
        plan.timeouts.append(label)
        return None


class Client:
    def __init__(self, plan: Plan, name: str, addr: tuple[str, int], tls: bool, rcvbuf: int | None = None) -> None:
        self.plan, self.name, self.addr, self.tls = plan, name, addr, tls
        self.sock = socket.socket(socket.AF_INET, socket.SOCK_STREAM)
        if rcvbuf is not None:
            self.sock.setsockopt(socket.SOL_SOCKET, socket.SO_RCVBUF, rcvbuf)       # (before connect: it fixes the window)
        self.sock.bind((HOST, 0))
        self.sock.setblocking(False)
        self.port = self.sock.getsockname()[1]
        plan.who[self.port] = name
        self.reader: asyncio.StreamReader | None = None
        self.writer: asyncio.StreamWriter | None = None

    async def connect(self) -> bool:
        loop = asyncio.get_running_loop()
        try:
            try:
                await asyncio.wait_for(loop.sock_connect(self.sock, self.addr), self.plan.T)
            except asyncio.TimeoutError:
                self.plan.timeouts.append(f"{self.name} connect")
                return False
            kw: dict[str, Any] = {"limit": 1 << 22}
            if self.tls:
                kw.update(ssl=R.contexts()[1], server_hostname="localhost", ssl_handshake_timeout=self.plan.T + 30,
                          ssl_shutdown_timeout=1.0)
            r = await _bounded(self.plan, asyncio.open_connection(sock=self.sock, **kw), f"{self.name} connect")
            if r is None:
                return False
            self.reader, self.writer = r
            return True
        except OSError:
            return False

    async def ask(self, text: str) -> str:
        if self.writer is None or self.reader is None:
            return "unconnected"
        try:
            self.writer.write(text.encode() + b"\n")
            line = await _bounded(self.plan, self.reader.readline(), f"{self.name} recv")
        except OSError:
            return "closed"
        if line is None:
            return "timeout"
        if not line:
            return "closed"
        return line.decode(errors="replace").rstrip("\n").replace(" ", "_")

    async def drain_to_end(self) -> str:
        """read whatever is left until the connection ends: `closed` (EOF / reset) or `open` (bound expired)"""
        if self.reader is None:
            return "closed"
        try:
            while True:
                d = await asyncio.wait_for(self.reader.read(1 << 16), self.plan.T)
                if not d:
                    return "closed"
        except asyncio.TimeoutError:
            return "open"
        except (OSError, asyncio.IncompleteReadError):
            return "closed"
        except Exception:   # noqa: BLE001  (ssl errors on a connection the server aborted)
            return "closed"

    def close(self) -> None:
        if self.writer is not None:
            with contextlib.suppress(Exception):
                self.writer.transport.abort()
        else:
            with contextlib.suppress(OSError):
                self.sock.close()


class ThreadA(threading.Thread):
    """client A when it READS what it is sent: a blocking socket in a thread of its own (a peer that reads goes on reading
    whatever the server's event loop is doing).  `result`: closed (EOF / reset seen) | open (still open after the bound)"""

    def __init__(self, plan: Plan, addr: tuple[str, int], tls: bool, trigger: bytes) -> None:
        super().__init__(daemon=True, name="c17-stall-A")
        self.plan, self.addr, self.tls, self.trigger = plan, addr, tls, trigger
        self.sock = socket.socket(socket.AF_INET, socket.SOCK_STREAM)
        self.sock.bind((HOST, 0))
        self.port = self.sock.getsockname()[1]
        plan.who[self.port] = "A"
        self.result = "open"
        self.T = plan.T
        self.end = plan.end

    def run(self) -> None:
        s: Any = self.sock
        try:
            s.settimeout(self.T)
            s.connect(self.addr)
            if self.tls:
                s = R.contexts()[1].wrap_socket(s, server_hostname="localhost")
            if self.trigger:
                s.sendall(self.trigger)
            got_line = False
            while True:
                d = s.recv(1 << 16)
                if not d:
                    self.result = "closed"
                    return
                if not got_line and d.endswith(b"\n") and self.end in ("peer_rst", "peer_fin"):
                    # the whole big packet has been read: A leaves
                    got_line = True
                    if self.end == "peer_rst":
                        self.sock.setsockopt(socket.SOL_SOCKET, socket.SO_LINGER, struct.pack("ii", 1, 0))
                    s.close()
                    self.result = "closed"
                    return
        except (TimeoutError, socket.timeout):
            self.result = "open"
        except (OSError, ValueError):
            self.result = "closed"
        finally:
            with contextlib.suppress(Exception):
                s.close()


async def _poll(cond, bound: float) -> bool:
    end = time.monotonic() + bound
    delay = 0.001
    while not cond():
        if time.monotonic() > end:
            return False
        await asyncio.sleep(delay)
        delay = min(delay * 2, 0.02)
    return True


# ----------------------------------------------------------------------------------------------------------------------
# one server life
# ----------------------------------------------------------------------------------------------------------------------
async def _session(plan: Plan, loop: StallLoop) -> list[str]:
    case = plan.case
    tls = bool(case.get("tls"))
    reading = bool(case.get("reading"))
    kw: dict[str, Any] = {}
    if tls:
        kw = {"ssl": R.contexts()[0], "ssl_shutdown_timeout": 0.2, "ssl_handshake_timeout": max(30.0, plan.T)}
    ser = StringLineSerializer(limit=1 << 22)
    protocol: Any = (BufferedStreamProtocol if case.get("proto") == "buffered" else StreamProtocol)(ser)
    server = AsyncTCPNetworkServer(HOST, 0, protocol, StallHandler(plan), logger=logging.getLogger("c17.server"), **kw)
    up = asyncio.Event()
    serve = asyncio.ensure_future(server.serve_forever(is_up_event=up))
    lines: list[str] = []
    clients: list[Client] = []
    try:
        await asyncio.wait_for(up.wait(), plan.T + 5)
        addr = (HOST, server.get_addresses()[0].port)
        b = Client(plan, "B", addr, tls)
        clients.append(b)
        answers: list[str] = []
        want: list[str] = []

        async def trip(i: int) -> None:
            want.append(f"pong_b{i}")
            answers.append(await b.ask(f"b{i}"))

        await b.connect()
        await trip(0)
        loop.hb_start()
        # ---- A
        trigger = b"boom\n" if plan.end in ("h_raise", "od_raise", "h_close", "peer_rst", "peer_fin") else \
            R.BAD_LINE if plan.end == "bad" else b""
        ta: ThreadA | None = None
        a: Client | None = None
        if reading:
            # a peer that reads must go on reading whatever the server's loop does: it lives in a thread of its own
            ta = ThreadA(plan, addr, tls, trigger)
            a_port = ta.port
            ta.start()
        else:
            a = Client(plan, "A", addr, tls, rcvbuf=2048)
            clients.append(a)
            a_port = a.port
            if await a.connect():
                assert a.writer is not None
                a.writer.transport.pause_reading()          # A never reads: what the server sends stays unacknowledged
                if trigger:
                    a.writer.write(trigger)
                if plan.end in ("peer_rst", "peer_fin"):
                    if not await _poll(plan.sent.is_set, plan.T):
                        plan.timeouts.append("A big packet sent")
                    if plan.end == "peer_rst":
                        with contextlib.suppress(OSError):
                            a.sock.setsockopt(socket.SOL_SOCKET, socket.SO_LINGER, struct.pack("ii", 1, 0))
                        a.writer.transport.abort()
                    else:
                        a.writer.close()
        # ---- B goes on while A's task ends
        n = 1
        for _ in range(3):
            await trip(n)
            n += 1

        def a_closed() -> bool:
            return any(c["port"] == a_port for c in loop.closes)

        if not await _poll(a_closed, plan.T):
            plan.timeouts.append("A server-side close")
        for _ in range(2):
            await trip(n)
            n += 1
        # ---- a new client
        nw = Client(plan, "N", addr, tls)
        clients.append(nw)
        await nw.connect()
        new = await nw.ask("n1")
        loop.hb_stop()
        # ---- what became of A
        a_end = "closed"
        if ta is not None:
            await _poll(lambda: not ta.is_alive(), plan.T + 1)
            a_end = ta.result
        elif a is not None and a.writer is not None and plan.end not in ("peer_rst", "peer_fin"):
            with contextlib.suppress(Exception):
                a.writer.transport.resume_reading()
            a_end = await a.drain_to_end()
        ent = next((c for c in loop.closes if c["port"] == a_port), None)
        lines.append("b " + ("ok" if answers == want else " ".join(answers)))
        lines.append("new " + ("ok" if new == "pong_n1" else new))
        lines.append(f"fault-reached {int(plan.fault)}")
        lines.append(f"big-sent {int(plan.sent.is_set())}")
        lines.append(f"a-end {a_end}")
        lines.append("a-server-socket " + ("closed" if ent is not None else "open"))
        if ent is not None:
            lg = ent.get("linger")
            lines.append("linger-at-close " + ("?" if lg is None else "off" if not lg[0] else f"on:{lg[1]}"))
            lines.append("outq-at-close " + ("?" if ent.get("outq") is None else "pending" if ent["outq"] > 0 else "0"))
            lines.append(f"closed-in-loop {int(bool(ent.get('in_loop')))}")
        ev = [e[2:] for e in plan.events if e.startswith("A ")]
        lines.append("a-hooks " + (" ".join(ev) if ev else "-"))
        others = [e for e in plan.events if not e.startswith("A ")]
        unb = [w for w in ("B", "N") if others.count(f"{w} oc:done") != 1]
        lines.append("healthy-hooks " + ("ok" if not unb else "unbalanced:" + ",".join(unb)))
        lines.append(f"serving {int(server.is_serving())}")
        lines.append("servetask " + ("running" if not serve.done() else "done"))
    finally:
        loop._hb_on = False
        for c in clients:
            c.close()
        try:
            if not serve.done():
                await asyncio.wait_for(server.shutdown(), plan.T + 5)
            await asyncio.wait_for(server.server_close(), plan.T + 5)
        except asyncio.TimeoutError:
            plan.timeouts.append("shutdown")
        try:
            await asyncio.wait_for(asyncio.shield(serve), plan.T + 5)
            lines.append("serve-end clean")
        except asyncio.TimeoutError:
            plan.timeouts.append("serve task")
            serve.cancel()
            lines.append("serve-end stuck")
        except asyncio.CancelledError:
            lines.append("serve-end cancelled")
        except BaseException as e:  # noqa: BLE001
            lines.append("serve-end exc=" + R.exc_tree_text(e, only_markers=True))
    return lines


def _run_once(case: dict, scale: float) -> tuple[list[str], Plan, float, float]:
    loop = StallLoop()
    loop.set_exception_handler(lambda lp, ctx: None)
    asyncio.set_event_loop(loop)
    if case.get("eager"):
        loop.set_task_factory(asyncio.eager_task_factory)
    plan = Plan(case, scale)
    null = logging.NullHandler()
    loggers = [logging.getLogger("c17.server"), logging.getLogger("easynetwork")]
    saved = [(lg, lg.level, lg.propagate, list(lg.handlers)) for lg in loggers]
    for lg in loggers:
        lg.handlers[:] = [null]
        lg.setLevel(logging.CRITICAL + 1)
        lg.propagate = False
    try:
        lines = loop.run_until_complete(_session(plan, loop))
    finally:
        for _ in range(3):
            pending = [t for t in asyncio.all_tasks(loop) if not t.done()]
            if not pending:
                break
            for t in pending:
                t.cancel()
            with contextlib.suppress(BaseException):
                loop.run_until_complete(asyncio.gather(*pending, return_exceptions=True))
        with contextlib.suppress(Exception):
            loop.run_until_complete(loop.shutdown_asyncgens())
        loop.close()
        asyncio.set_event_loop(None)
        for lg, lvl, prop, hs in saved:
            lg.handlers[:] = hs
            lg.setLevel(lvl)
            lg.propagate = prop
    worst_close = max((c["dt"] for c in loop.closes if c.get("in_loop")), default=0.0)
    return lines, plan, loop.hb_gap, worst_close


def run_case(case: dict) -> list[str]:
    """canonical lines of one case.  Harness-side bounds: retried once with 4x longer bounds (as c17_run).  A long stall of
    the loop is confirmed by one re-run of the same case; one that does not reproduce is reported as `infra …`."""
    last: list[str] = []
    stalled_before = False
    for attempt, scale in enumerate((1.0, 4.0)):
        try:
            lines, plan, gap, dt = _run_once(case, scale)
        except asyncio.TimeoutError:
            if attempt == 1:
                raise core.InfraError("C17: the server did not come up (twice)") from None
            continue
        stall = gap >= LONG or dt >= LONG
        if stall and not stalled_before:
            # confirm: the same case once more, same bounds
            stalled_before = True
            try:
                lines2, plan2, gap2, dt2 = _run_once(case, scale)
            except asyncio.TimeoutError:
                return ["infra a long stall of the event loop was followed by a run in which the server did not come up"]
            if not (gap2 >= LONG or dt2 >= LONG):
                return [f"infra the event loop stalled for {max(gap, dt):.1f} s once; not reproduced by a re-run of the same case"]
            lines, plan, gap, dt = lines2, plan2, gap2, dt2
        lines = lines + [f"hb-gap {'long' if gap >= LONG else 'ok'}", f"close-block {'long' if dt >= LONG else 'ok'}"]
        if not plan.timeouts:
            return lines
        last = lines + ["harness-timeouts " + ",".join(t.replace(" ", "_") for t in plan.timeouts)]
        if stall:
            return last          # (a frozen loop makes every bound expire: the stall is the observation)
    return last
