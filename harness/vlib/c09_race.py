"""
C09 close race — a reader waiting in recv()/recv_into() while ANOTHER task closes the transport, then the peer's stream is cut.
(Second scenario at the end of the file, `run_sendrace`: aclose() while another task's send_all() is parked in the wrapped transport.)

  closerace   {"kind":"closerace","role":"client"|"server","tls":"1.2"|"1.3","recs":[sizes],"sc":bool,"method":"recv"|"recv_into",
               "order":"parked"|"late","hold":n,"hold_extra":k,"cut_in":"gate"|"rec"|"cn"|"none","cut_rec":i,"cut_k":k,
               "reply":bool,"release":"cn-out"|"never","delay":turns,"gap":turns,"abort":"oserror"|"eof",
               "bufsize":n,"frag":seed,"max_frag":n,"shutdown_timeout":s}

A live TLS session (real OpenSSL on both sides, the reader is the real `AsyncTLSStreamTransport.wrap(...)`) over a
`GateTransport`: the peer (vlib/c09_env.Peer, `notify=False`: it never closes on its own, it only ANSWERS a close_notify when
`reply`) performs the handshake and emits one record per entry of `recs`.  The transport delivers the peer's stream up to the
GATE = end of application record `hold` - 1 (end of the handshake for 0) + `hold_extra` bytes, then parks every further
`recv_into` of the wrapped transport.

  order=parked   task R reads in a loop and ends up parked inside the wrapped transport (it owns the receive lock); then task C
                 calls `aclose()`;
  order=late     R has read the `hold` complete records and pauses; C calls `aclose()` (its closing handshake is what parks in
                 the wrapped transport); R calls recv()/recv_into() again once our close_notify is out.

As soon as C has handed bytes to the wrapped transport (our close_notify; or C is done: standard_compatible=False), and
`delay` loop turns later, the gate is RELEASED: the transport delivers the peer's stream up to the CUT and then reports EOF.

  cut_in=gate    nothing more (the connection is dropped at once)
  cut_in=rec     `cut_k` bytes into application record `cut_rec` (the records behind the gate are still in flight)
  cut_in=cn      `cut_k` bytes into the peer's close_notify answer (0 = just before it; >= its length = complete)
  cut_in=none    everything the peer emits (with `reply`: a complete close_notify; without: the peer just drops the connection)
  release=never  the peer stays silent and the gate stays shut: `aclose()` runs into its shutdown timeout and closes the wrapped
                 transport under the parked reader (`abort`: what a parked `recv_into` of the wrapped transport does then)

After its first terminal result (error / EOF) R calls twice more: once `gap` loop turns later, once after `aclose()` returned.

lines:  hs ok|exc:<Class> ; parked 0|1 ; cn-out 0|1 ; pre data <n> (read completed before aclose() began) ; r data <n> | r eof |
        r exc:<Class> | r late-data <n> ; plain <hex> ; close ok|exc:<Class> ; close-waited 0|some|timeout ; second … ;
        inner-closed 0|1 ; close-emitted <type:len …> ; peer … ; marks … cn=none|partial|complete (how much of the peer's
        close_notify was delivered)
Everything runs on the virtual-time loop of vlib/c15_env; a task that never returns is a `hang …` line.
"""
from __future__ import annotations

import asyncio
import ssl
from typing import Any

from vlib import core
from vlib import c09_env as e9
from vlib import c15_env as env

from easynetwork.lowlevel.api_async.transports.tls import AsyncTLSStreamTransport


PATTERN = "UNEXPECTED_EOF_WHILE_READING"


def kind(e: BaseException) -> str:
    """class name; an `SSLError` that is OpenSSL's "unexpected EOF" without being an `SSLEOFError` is marked `/ragged`"""
    s = getattr(e, "strerror", None)
    if isinstance(e, ssl.SSLError) and not isinstance(e, ssl.SSLEOFError) and isinstance(s, str) and PATTERN in s:
        return type(e).__name__ + "/ragged"
    return type(e).__name__


class GateTransport(e9.CutTransport):
    """CutTransport with a gate: deliver up to `gate`, then park until `release()`; then deliver up to the cut, then EOF"""

    def __init__(self, peer: e9.Peer, hold: int, hold_extra: int, cut_spec: tuple[str, int, int], frag_seed: int, *,
                 max_frag: int = 4096, abort: str = "oserror") -> None:
        super().__init__(peer, None, frag_seed, max_frag=max_frag, eof_after_peer=False)
        self.hold = hold
        self.hold_extra = hold_extra
        self.cut_spec = cut_spec
        self.abort = abort
        self.released = False
        self.eof = False
        self.park_count = 0

    # -- offsets (known once the peer's handshake is over: its records are emitted in the same step)
    def gate(self) -> int | None:
        p = self.peer
        if p.hs_end is None:
            return None
        ends = [p.hs_end] + list(p.rec_ends)
        return ends[min(self.hold, len(ends) - 1)] + self.hold_extra

    def _rec_start(self, i: int) -> int:
        p = self.peer
        ends = [p.hs_end or 0] + list(p.rec_ends)
        return ends[min(i, len(ends) - 1)]

    def is_parked(self) -> bool:
        return self._parked is not None and not self._parked.done()

    def release(self) -> None:
        if self.released:
            return
        self.peer.pump()
        where, rec, k = self.cut_spec
        g = self.gate()
        n = len(self.peer.stream)
        if where == "gate":
            cut: int | None = g if g is not None else n
        elif where == "rec":
            cut = max(self._rec_start(rec) + k, g or 0)
        elif where == "cn":
            cut = (self.peer.cn_start if self.peer.cn_start is not None else n) + k
        else:
            cut = None
        self.cut = cut
        self.released = True
        self.log.append(f"t release cut={cut}")
        if self.is_parked():
            self._parked.set_result("released")          # type: ignore[union-attr]

    def _limit(self) -> int:
        n = len(self.peer.stream)
        if self.released:
            return n if self.cut is None else min(n, self.cut)
        g = self.gate()
        return n if g is None else min(n, g)

    async def aclose(self) -> None:
        if self.abort == "eof" and self.is_parked():
            self._parked.set_result("closed")             # type: ignore[union-attr]
        await super().aclose()

    async def recv_into(self, buffer) -> int:
        while True:
            if self.eof:
                self.eof_reported += 1
                self.log.append("t recv 0")
                await asyncio.sleep(0)
                return 0
            if self.closing:
                self.log.append("t recv closed")
                raise OSError(9, "transport closed")
            self.peer.pump()
            avail = self._limit() - self.delivered
            if avail > 0:
                with memoryview(buffer) as mv:
                    mv = mv.cast("B") if mv.itemsize != 1 else mv
                    hi = min(avail, mv.nbytes, self.max_frag)
                    n = self.rng.randint(1, hi) if self.rng.random() < 0.8 else hi
                    mv[:n] = self.peer.stream[self.delivered:self.delivered + n]
                self.delivered += n
                self.log.append(f"t recv {n}")
                await asyncio.sleep(0)
                return n
            if self.released:
                self.eof = True
                continue
            self.log.append("t recv park")
            self.park_count += 1
            fut = asyncio.get_running_loop().create_future()
            self._parked = fut
            try:
                why = await fut
            finally:
                self._parked = None
            if why == "closed":
                self.eof = True


def _ctx_kwargs(role: str) -> dict[str, Any]:
    return {"server_hostname": "localhost"} if role == "client" else {"server_side": True}


def run_race(case: dict) -> tuple[list[str], dict[str, Any]]:
    role, tls, recs = case["role"], case["tls"], list(case["recs"])
    sc = bool(case.get("sc", True))
    method = case.get("method", "recv")
    bufsize = int(case.get("bufsize", 4096))
    order = case.get("order", "parked")
    hold = int(case.get("hold", 0))
    hold_extra = int(case.get("hold_extra", 0))
    reply = bool(case.get("reply", True))
    release = case.get("release", "cn-out")
    delay = int(case.get("delay", 0))
    gap = int(case.get("gap", 1))
    shutdown_timeout = float(case.get("shutdown_timeout", 5))
    peer = e9.Peer("server" if role == "client" else "client", tls, recs, False, reply_close=reply)
    t = GateTransport(peer, hold, hold_extra, (case.get("cut_in", "none"), int(case.get("cut_rec", 0)), int(case.get("cut_k", 0))),
                      int(case.get("frag", 0)), max_frag=int(case.get("max_frag", 4096)), abort=case.get("abort", "oserror"))
    ctx = e9.make_context(role, tls)
    lines: list[str] = []
    plain = bytearray()
    st: dict[str, Any] = {"closing": False, "paused": False, "sent0": 0}
    pre_bytes = sum(recs[:hold])

    async def main() -> None:
        loop = asyncio.get_running_loop()
        try:
            tls_tr = await AsyncTLSStreamTransport.wrap(t, ctx, standard_compatible=sc, handshake_timeout=60.0,
                                                        shutdown_timeout=shutdown_timeout, **_ctx_kwargs(role))
        except Exception as e:  # noqa: BLE001
            lines.append("hs exc:" + kind(e))
            lines.append(f"inner-closed {int(t.closed)}")
            return
        lines.append("hs ok")
        resume = asyncio.Event()
        closer_done = asyncio.Event()

        async def read_once():
            if method == "recv_into":
                buf = bytearray(bufsize)
                n = await tls_tr.recv_into(buf)
                return bytes(buf[:n])
            return await tls_tr.recv(bufsize)

        async def reader() -> None:
            term = 0
            for _ in range(100000):
                if term >= 3:
                    break
                if order == "late" and not resume.is_set() and len(plain) >= pre_bytes:
                    st["paused"] = True
                    await resume.wait()
                if term == 1:
                    for _ in range(gap):
                        await asyncio.sleep(0)
                elif term == 2:
                    try:
                        await asyncio.wait_for(closer_done.wait(), shutdown_timeout + 50)
                    except asyncio.TimeoutError:
                        lines.append("r closer-not-done")
                try:
                    d = await read_once()
                except Exception as e:  # noqa: BLE001
                    lines.append("r exc:" + kind(e))
                    term += 1
                    continue
                if d:
                    if term:
                        lines.append(f"r late-data {len(d)}")
                        term += 1
                    else:
                        plain.extend(d)
                        lines.append(("r" if st["closing"] else "pre") + f" data {len(d)}")
                else:
                    lines.append("r eof")
                    term += 1

        async def closer() -> None:
            t0 = loop.time()
            try:
                await tls_tr.aclose()
                res = "close ok"
            except Exception as e:  # noqa: BLE001
                res = "close exc:" + kind(e)
            dt = loop.time() - t0
            lines.append(res)
            lines.append(f"close-waited {'timeout' if dt >= shutdown_timeout else '0' if dt == 0 else 'some'}")
            closer_done.set()

        rt = asyncio.ensure_future(reader())
        for _ in range(5000):
            if rt.done() or (order == "parked" and t.is_parked()) or (order == "late" and st["paused"]):
                break
            await asyncio.sleep(0)
        lines.append(f"parked {int(t.is_parked())}")
        st["sent0"] = len(t.sent)
        st["closing"] = True
        ct = asyncio.ensure_future(closer())
        if release != "never":
            for _ in range(5000):
                if len(t.sent) > st["sent0"] or ct.done():
                    break
                await asyncio.sleep(0)
            lines.append(f"cn-out {int(len(t.sent) > st['sent0'])}")
            resume.set()
            for _ in range(delay):
                await asyncio.sleep(0)
            t.release()
        else:
            peer.silent = True
            resume.set()
        _, pending = await asyncio.wait({rt, ct}, timeout=shutdown_timeout * 2 + 200)
        for p in pending:
            lines.append("hang " + ("reader" if p is rt else "aclose") + " still pending")
            p.cancel()
        if pending:
            await asyncio.gather(*pending, return_exceptions=True)
        for p in (rt, ct):
            if p.done() and not p.cancelled() and p.exception() is not None:
                lines.append("main-exc " + kind(p.exception()))     # type: ignore[arg-type]
        lines.append("plain " + core.hexs(bytes(plain)))
        try:
            await tls_tr.aclose()
            lines.append("second ok")
        except Exception as e:  # noqa: BLE001
            lines.append("second exc:" + kind(e))
        lines.append(f"inner-closed {int(t.closed)}")
        lines.append(f"closing {int(tls_tr.is_closing())}")

    try:
        out, _loop = env.run(main, max_turns=int(case.get("max_turns", 60000)))
    except env.Stuck as e:
        lines.append("hang " + str(e))
        out = ("ok", None)
    if out[0] == "exc":
        lines.append("main-exc " + kind(out[1]))
    peer.silent = False
    peer.pump()
    peer.read_reader()
    emitted = bytes(t.sent[st["sent0"]:]) if any(ln.startswith("parked ") for ln in lines) else b""
    recs_out = e9.parse_records(emitted)
    lines.append("close-emitted " + (" ".join(f"{ty}:{e - s}" for ty, s, e in recs_out) or "-")
                 + (" ragged-tail" if recs_out and recs_out[-1][2] != len(emitted) else ""))
    lines.append("peer " + (",".join(peer.got) or "-"))
    m = peer.marks()
    d = t.delivered
    if m["cn_start"] is None or d <= m["cn_start"]:
        cn = "none"
    elif m["cn_end"] is not None and d >= m["cn_end"]:
        cn = "complete"
    else:
        cn = "partial"
    lines.append(f"marks hs_end={m['hs_end']} rec_ends={','.join(map(str, m['rec_ends'])) or '-'} gate={t.gate()} cut={t.cut} "
                 f"cn_start={m['cn_start']} cn_end={m['cn_end']} total={m['total']} delivered={d} parks={t.park_count} cn={cn}")
    return lines, {}


# ------------------------------------------------------------------------------------------------------------------------
# aclose() while another task's send_all() is parked in the wrapped transport (backpressure)
# ------------------------------------------------------------------------------------------------------------------------

class SendGateTransport(e9.CutTransport):
    """CutTransport whose next `send_all` can be PARKED (backpressure: the peer is slow to read; the bytes are accepted when
    `release_send()` is called, the call fails with OSError if the transport is closed under it), and whose parked `recv_into`
    wakes up as soon as the peer has produced something (the peer is driven synchronously: it reacts to what it is fed)."""

    def __init__(self, peer: e9.Peer, frag_seed: int, *, max_frag: int = 4096) -> None:
        super().__init__(peer, None, frag_seed, max_frag=max_frag, eof_after_peer=False)
        self.armed = False
        self.send_parked: asyncio.Future | None = None
        self.phase = "open"
        self.calls: list[list[Any]] = []        # [phase when the call began, bytes, "begun" | "done" | "failed"]

    def send_is_parked(self) -> bool:
        return self.send_parked is not None and not self.send_parked.done()

    def release_send(self) -> None:
        if self.send_is_parked():
            self.send_parked.set_result(None)             # type: ignore[union-attr]

    async def send_all(self, data) -> None:
        if self.closing:
            self.log.append("t send closed")
            raise OSError(9, "transport closed")
        data = bytes(data)
        entry: list[Any] = [self.phase, data, "begun"]
        self.calls.append(entry)
        self.log.append(f"t send {len(data)}")
        if self.armed:
            self.armed = False
            self.log.append("t send park")
            fut = asyncio.get_running_loop().create_future()
            self.send_parked = fut
            try:
                await fut
            except BaseException:
                entry[2] = "failed"
                raise
            finally:
                self.send_parked = None
        self.sent += data
        self.sent_chunks.append(data)
        self.peer.feed(data)
        entry[2] = "done"
        self.peer.pump()
        if self._parked is not None and not self._parked.done() and len(self.peer.stream) > self.delivered:
            self._parked.set_result("more")
        await asyncio.sleep(0)

    async def aclose(self) -> None:
        if self.send_is_parked():
            self.send_parked.set_exception(OSError(9, "transport closed"))       # type: ignore[union-attr]
        await super().aclose()

    async def recv_into(self, buffer) -> int:
        while True:
            if self.closing:
                self.log.append("t recv closed")
                raise OSError(9, "transport closed")
            self.peer.pump()
            avail = len(self.peer.stream) - self.delivered
            if avail > 0:
                with memoryview(buffer) as mv:
                    mv = mv.cast("B") if mv.itemsize != 1 else mv
                    n = self._pick(min(avail, mv.nbytes))
                    mv[:n] = self.peer.stream[self.delivered:self.delivered + n]
                self.delivered += n
                self.log.append(f"t recv {n}")
                await asyncio.sleep(0)
                return n
            self.log.append("t recv park")
            fut = asyncio.get_running_loop().create_future()
            self._parked = fut
            try:
                await fut            # "more" (the peer produced output) | OSError set by aclose()
            finally:
                self._parked = None


def send_payload(i: int, n: int) -> bytes:
    return bytes(((i * 53 + j * 7 + 3) % 251) + 1 for j in range(n))


def run_sendrace(case: dict) -> tuple[list[str], dict[str, Any]]:
    """closesend {"kind":"closesend","role","tls","sc","recs":[…read completely first],"senders":1|2,"size":n,"size2":n,
                  "release":"after"|"never","delay":turns,"frag","max_frag","shutdown_timeout"}
    Task S1 calls send_all(<size bytes>): the wrapped transport's send_all PARKS (S1 owns the TLS transport's send lock); with
    senders=2 task S2 calls send_all(<size2 bytes>) and queues behind it.  Then task C calls aclose().  `delay` loop turns later
    the backpressure ends (release=after: the parked send completes) or never does (the shutdown timeout must end the close).
    The peer (notify=False) only ANSWERS a close_notify: it waits for ours.
    lines: hs ok ; send-parked 0|1 ; send1 ok|exc:<Class> ; send2 … ; close ok|exc:<Class> ; close-waited 0|some|timeout ; second … ;
           inner-closed ; close-emitted <type:len …> (records handed to the wrapped transport by calls that BEGAN after aclose()
           began: the parked send is not among them) ; peer … ; peer-plain <n> bytes"""
    role, tls, recs = case["role"], case["tls"], list(case.get("recs") or [])
    sc = bool(case.get("sc", True))
    senders = int(case.get("senders", 1))
    release = case.get("release", "after")
    delay = int(case.get("delay", 2))
    shutdown_timeout = float(case.get("shutdown_timeout", 5))
    peer = e9.Peer("server" if role == "client" else "client", tls, recs, False, reply_close=True)
    t = SendGateTransport(peer, int(case.get("frag", 0)), max_frag=int(case.get("max_frag", 4096)))
    ctx = e9.make_context(role, tls)
    lines: list[str] = []
    began = {"close": False}

    async def main() -> None:
        loop = asyncio.get_running_loop()
        try:
            tls_tr = await AsyncTLSStreamTransport.wrap(t, ctx, standard_compatible=sc, handshake_timeout=60.0,
                                                        shutdown_timeout=shutdown_timeout, **_ctx_kwargs(role))
        except Exception as e:  # noqa: BLE001
            lines.append("hs exc:" + kind(e))
            lines.append(f"inner-closed {int(t.closed)}")
            return
        lines.append("hs ok")
        got = 0
        while got < sum(recs):
            d = await tls_tr.recv(65536)
            if not d:
                break
            got += len(d)

        async def sender(i: int, n: int) -> None:
            try:
                await tls_tr.send_all(send_payload(i, n))
                lines.append(f"send{i} ok")
            except Exception as e:  # noqa: BLE001
                lines.append(f"send{i} exc:" + kind(e))

        async def closer() -> None:
            t0 = loop.time()
            try:
                await tls_tr.aclose()
                res = "close ok"
            except Exception as e:  # noqa: BLE001
                res = "close exc:" + kind(e)
            dt = loop.time() - t0
            lines.append(res)
            lines.append(f"close-waited {'timeout' if dt >= shutdown_timeout else '0' if dt == 0 else 'some'}")

        t.armed = True
        tasks = [asyncio.ensure_future(sender(1, int(case.get("size", 1))))]
        for _ in range(2000):
            if t.send_is_parked() or tasks[0].done():
                break
            await asyncio.sleep(0)
        if senders >= 2:
            tasks.append(asyncio.ensure_future(sender(2, int(case.get("size2", 3)))))
            for _ in range(4):
                await asyncio.sleep(0)
        lines.append(f"send-parked {int(t.send_is_parked())}")
        t.phase = "closing"
        began["close"] = True
        ct = asyncio.ensure_future(closer())
        tasks.append(ct)
        for _ in range(delay):
            await asyncio.sleep(0)
        if release == "after":
            t.release_send()
        _, pending = await asyncio.wait(set(tasks), timeout=shutdown_timeout * 2 + 200)
        for p in pending:
            lines.append("hang " + ("aclose" if p is ct else "send_all") + " still pending")
            p.cancel()
        if pending:
            await asyncio.gather(*pending, return_exceptions=True)
        for p in tasks:
            if p.done() and not p.cancelled() and p.exception() is not None:
                lines.append("main-exc " + kind(p.exception()))     # type: ignore[arg-type]
        try:
            await tls_tr.aclose()
            lines.append("second ok")
        except Exception as e:  # noqa: BLE001
            lines.append("second exc:" + kind(e))
        lines.append(f"inner-closed {int(t.closed)}")
        lines.append(f"closing {int(tls_tr.is_closing())}")

    try:
        out, _loop = env.run(main, max_turns=int(case.get("max_turns", 60000)))
    except env.Stuck as e:
        lines.append("hang " + str(e))
        out = ("ok", None)
    if out[0] == "exc":
        lines.append("main-exc " + kind(out[1]))
    peer.pump()
    peer.read_reader()
    emitted = b"".join(c[1] for c in t.calls if c[0] == "closing" and c[2] == "done")
    recs_out = e9.parse_records(emitted)
    lines.append("close-emitted " + (" ".join(f"{ty}:{e - s}" for ty, s, e in recs_out) or "-")
                 + (" ragged-tail" if recs_out and recs_out[-1][2] != len(emitted) else ""))
    lines.append("peer " + (",".join(peer.got) or "-"))
    lines.append(f"peer-plain {len(peer.got_plain)}")
    return lines, {}
