"""
C16 environment: the REAL AsyncDatagramServer.serve (lowlevel/api_async/servers/datagram.py) on top of the REAL
DatagramListenerSocketAdapter + DatagramListenerProtocol (backend/_asyncio/datagram/listener.py, an actual UDP
socket on loopback that nobody writes to), driven through `protocol.datagram_received(data, addr)` by the harness,
on the virtual-time loop.  api "high" additionally puts servers/misc.build_lowlevel_datagram_server_handler and
servers/async_udp._ClientContext between the server and the scripted request handler (as AsyncUDPNetworkServer does).

Harness-side proxies sit on public interfaces only:
  * ListenerProxy (AsyncDatagramListener ABC): wraps the handler given to `serve` so that the first step of every
    per-datagram task is logged; `backend()` returns
  * BackendProxy: `create_condition_var()` returns CondProxy, which logs the handler's lock acquisition in
    `push_datagram` and can make it suspend (scripted) — an ICondition whose `__aenter__` checkpoints, as a
    non-asyncio backend's would.
  * the datagram_received_cb / request handler: a scripted async generator (suspension points = gates released by the
    schedule, yield with/without timeout, return, raise).

case = {"api": "low"|"high", "naddr": n, "early": [[a, dhex], …] (received before serve() runs),
        "progs": {a: [[stage, …], …]} per address a list of generator programs, stage = {"s": suspensions, "do": y|yt|r|e|c|g|tg, "t": ticks}
                 (r = return, e = raise an ordinary exception (api high: swallowed and logged by _ClientContext; api low:
                 treated as r), c = raise CancelledError: ends only the generator's own task, the task group tolerates a
                 cancelled child and the server goes on — the datagrams queued behind it must still be handled,
                 g = raise the exception built from stage["tree"] ("ClassName" | ["g", tree, …]: an ExceptionGroup, possibly
                 nested, of Exception leaves of GROUP_LEAVES, possibly mixed with / made only of ClientClosedError),
                 tg = do the work in a real `asyncio.TaskGroup` of stage["n"] failing children (+ one that succeeds): the
                 generator ends with the ExceptionGroup the task group raises; api low: g and tg are treated as r),
        "script": [[action, …] per loop turn], "never": [a, …] addresses whose gates are never released,
        "eager": bool (the loop's task factory is asyncio.eager_task_factory)}
actions: ["a", addr, dhex, susp]  datagram arrives (susp = loop turns its handler sleeps while acquiring the lock)
         ["g", addr]              release the gate the generator of addr is waiting on
         ["t", n]                 advance the virtual clock

Observable lines:
  arrive a d | h a d | hs a | hl a | rs a | cb a | wk a | y a | yt a t | req a d | bad a d | to a | end a r|e|c|g | gate a | go a
  quiet | left a n | active-max a k
"""
from __future__ import annotations

import asyncio
import contextvars
import logging
import socket
import sys
from typing import Any

from . import c16_vloop as vl

import warnings

# coroutines handed to a task group that is already shutting down (tear-down of a run, or a stagger-loop
# iteration after the group aborted) are never awaited: CPython warns at garbage collection; not an observable here
warnings.filterwarnings("ignore", message="coroutine .* was never awaited", category=RuntimeWarning)

import atexit
import gc

atexit.register(gc.collect)      # collect them while the warnings machinery still exists (quiet interpreter exit)

_cur_handler: contextvars.ContextVar[Any] = contextvars.ContextVar("c16_cur_handler", default=None)


def addr_tuple(a: int) -> tuple[str, int]:
    return ("127.0.0.1", 20000 + a)


def addr_index(address) -> int:
    return int(address[1]) - 20000


DEFAULT_STAGE = {"s": 0, "do": "y"}


class Env:
    def __init__(self, case: dict) -> None:
        self.case = case
        self.lines: list[str] = []
        self.naddr = int(case["naddr"])
        self.progs = {int(k): v for k, v in case.get("progs", {}).items()}
        self.inst: dict[int, int] = {}
        self.gates: dict[int, asyncio.Future] = {}
        self.never = set(case.get("never", []))
        self.script = [list(t) for t in case.get("script", [])]
        self.pos = 0
        self.closing = False
        self.protocol = None
        self.quiet_fut: asyncio.Future | None = None
        self.active: dict[int, int] = {}
        self.active_max: dict[int, int] = {}
        self.arrived: dict[int, int] = {}
        self.taken: dict[int, int] = {}
        self.push_suspensions = 0
        self.last_h: dict[int, Any] = {}
        self.last_y: dict[int, Any] = {}

    def log(self, s: str) -> None:
        if not self.closing:
            self.lines.append(s)

    def here(self):
        """identifies the current atomic step: (loop turn, running task)"""
        loop = asyncio.get_running_loop()
        return (getattr(loop, "turn", 0), id(asyncio.current_task()))

    def log_h(self, a: int, s: str) -> None:
        self.last_h[a] = self.here()
        self.log(s)

    def log_cb(self, a: int) -> None:
        # the client coroutine runs inline in the handler task (same step as its h / hl line) or is a task of its
        # own started by the task-done hook: then its first step is marked `rs a`
        if self.last_h.get(a) != self.here():
            self.log(f"rs {a}")
        self.log(f"cb {a}")

    def log_y(self, a: int, s: str) -> None:
        self.last_y[a] = self.here()
        self.log(s)

    def log_req(self, a: int, s: str) -> None:
        # handed over in the very step of the yield, or after a wake-up of the client coroutine (`wk a`)
        if self.last_y.get(a) != self.here():
            self.log(f"wk {a}")
        self.log(s)

    # ---- scripted actions ------------------------------------------------------------------
    def arrive(self, a: int, dhex: str, susp: int = 0) -> None:
        self.log(f"arrive {a} {dhex}")
        self.arrived[a] = self.arrived.get(a, 0) + 1
        self.pending_susp.setdefault(a, []).append(int(susp))
        try:
            self.protocol.datagram_received(bytes.fromhex(dhex), addr_tuple(a))
        except Exception as exc:  # the server is gone (its task group is shutting down): an observable, not a harness error
            self.log(f"arrive-failed {type(exc).__name__}")
            self.serving = False

    def release(self, a: int) -> bool:
        fut = self.gates.get(a)
        if fut is None or fut.done():
            return False
        fut.set_result(None)
        return True

    def apply(self, loop: vl.VLoop, actions: list) -> bool:
        did = False
        for act in actions:
            if act[0] == "a":
                self.arrive(int(act[1]), act[2], int(act[3]) if len(act) > 3 else 0)
                did = True
            elif act[0] == "g":
                did = self.release(int(act[1])) or did
            elif act[0] == "t":
                loop.advance(float(act[1]))
                did = True
        return did

    def hook(self, loop: vl.VLoop, idle: bool) -> bool:
        if self.closing or self.protocol is None or not self.serving:
            return False
        if not idle:
            if self.pos < len(self.script):
                self.pos += 1
                return self.apply(loop, self.script[self.pos - 1])
            return False
        while self.pos < len(self.script):
            self.pos += 1
            if self.apply(loop, self.script[self.pos - 1]) and (loop.has_ready() or loop.timers_due()):
                return True
        for a in sorted(self.gates):
            if a not in self.never and self.release(a):
                return True
        if loop.next_timer() is not None:
            return False
        if self.quiet_fut is not None and not self.quiet_fut.done():
            self.quiet_fut.set_result(None)
            return True
        return False

    pending_susp: dict[int, list[int]]
    serving = False

    # ---- the scripted request handler ------------------------------------------------------
    def next_program(self, a: int) -> list[dict]:
        k = self.inst.get(a, 0)
        self.inst[a] = k + 1
        progs = self.progs.get(a, [])
        return progs[k] if k < len(progs) else []

    async def gate(self, a: int) -> None:
        self.log(f"gate {a}")
        fut = self.gates[a] = asyncio.get_running_loop().create_future()
        await fut
        self.log(f"go {a}")

    async def generator(self, a: int, high: bool):
        from easynetwork.exceptions import DatagramProtocolParseError

        prog = self.next_program(a)
        self.active[a] = self.active.get(a, 0) + 1
        self.active_max[a] = max(self.active_max.get(a, 0), self.active[a])
        stage = 0
        try:
            while True:
                st = prog[stage] if stage < len(prog) else DEFAULT_STAGE
                for _ in range(int(st.get("s", 0))):
                    await self.gate(a)
                do = st.get("do", "y")
                if do == "r" or (do in ("e", "g", "tg") and not high):
                    self.log(f"end {a} r")
                    return
                if do == "g":
                    self.log(f"end {a} g")
                    raise make_exc(st.get("tree", ["g", "RuntimeError"]))
                if do == "tg":
                    # part of the work of this request is done by children of a task group, some of which fail
                    try:
                        async with asyncio.TaskGroup() as tg:
                            tg.create_task(_child(False, 0))
                            for i in range(max(1, int(st.get("n", 1)))):
                                tg.create_task(_child(True, i))
                    except BaseException:
                        self.log(f"end {a} g")
                        raise
                if do == "e":
                    self.log(f"end {a} e")
                    raise RuntimeError("scripted request handler error")
                if do == "c":
                    self.log(f"end {a} c")
                    raise asyncio.CancelledError()
                try:
                    if do == "yt":
                        self.log_y(a, f"yt {a} {int(st['t'])}")
                        req = yield float(st["t"])
                    else:
                        self.log_y(a, f"y {a}")
                        req = yield None
                except TimeoutError:
                    self.log(f"to {a}")
                except DatagramProtocolParseError as exc:
                    self.taken[a] = self.taken.get(a, 0) + 1
                    self.log_req(a, f"bad {a} {_bad_payload(exc)}")
                else:
                    self.taken[a] = self.taken.get(a, 0) + 1
                    self.log_req(a, f"req {a} {req}")
                stage += 1
        finally:
            self.active[a] -= 1


class UserError(Exception):
    """a user-defined Exception subclass"""


GROUP_LEAVES = ("RuntimeError", "ValueError", "OSError", "ConnectionResetError", "UserError", "ClientClosedError")


def make_exc(tree) -> BaseException:
    """ "ClassName" -> an instance; ["g", tree, …] -> ExceptionGroup of the members"""
    if isinstance(tree, str):
        if tree == "ClientClosedError":
            from easynetwork.exceptions import ClientClosedError
            return ClientClosedError("scripted: closed client")
        if tree == "UserError":
            return UserError("scripted request handler error")
        cls = {"RuntimeError": RuntimeError, "ValueError": ValueError, "OSError": OSError,
               "ConnectionResetError": ConnectionResetError}[tree]
        return cls("scripted request handler error")
    return ExceptionGroup("scripted request handler errors", [make_exc(t) for t in tree[1:]])


async def _child(fail: bool, i: int) -> None:
    # (always at least one suspension before failing: the parent is then waiting in TaskGroup.__aexit__ when the failure is
    #  reported.  A child that fails during an EAGER first step makes CPython 3.12.1's TaskGroup cancel its running parent
    #  and leave the request pending after the group has been left: an interpreter quirk, not what is examined here)
    for _ in range(1 + i % 2):
        await asyncio.sleep(0)
    if fail:
        raise (ValueError if i % 2 else RuntimeError)(f"scripted worker failure {i}")


def _bad_payload(exc) -> str:
    e = exc
    for _ in range(4):
        if e is None:
            break
        for arg in getattr(e, "args", ()):
            if isinstance(arg, str) and arg.startswith("hex="):
                return arg[4:]
        e = getattr(e, "error", None) or e.__cause__
    return "?"


def make_protocol():
    from easynetwork.exceptions import DeserializeError
    from easynetwork.protocol import DatagramProtocol
    from easynetwork.serializers.abc import AbstractPacketSerializer

    class HexSerializer(AbstractPacketSerializer):
        __slots__ = ()

        def serialize(self, packet) -> bytes:
            return bytes.fromhex(packet)

        def deserialize(self, data: bytes):
            if data[:1] == b"!":
                raise DeserializeError("hex=" + data.hex())
            return data.hex()

    return DatagramProtocol(HexSerializer())


class CondProxy:
    """ICondition in front of asyncio.Condition; the handler's acquisition in push_datagram is logged and may checkpoint"""

    def __init__(self, env: Env, cond: asyncio.Condition) -> None:
        self._env, self._c = env, cond

    async def __aenter__(self):
        env = self._env
        h = _cur_handler.get()
        in_push = sys._getframe(1).f_code.co_name == "push_datagram"
        if in_push and h is not None and not env.closing:
            a, susp = h
            if susp > 0:
                env.push_suspensions += 1
                env.log(f"hs {a}")
                for _ in range(susp):
                    await asyncio.sleep(0)
            await self._c.__aenter__()
            env.log_h(a, f"hl {a}")
            return None
        return await self._c.__aenter__()

    async def __aexit__(self, et, ev, tb):
        return await self._c.__aexit__(et, ev, tb)

    def notify(self, n: int = 1) -> None:
        self._c.notify(n)

    def notify_all(self) -> None:
        self._c.notify_all()

    async def wait(self):
        return await self._c.wait()

    async def acquire(self):
        return await self._c.acquire()

    def release(self) -> None:
        self._c.release()

    def locked(self) -> bool:
        return self._c.locked()


class BackendProxy:
    def __init__(self, env: Env, backend) -> None:
        self._env, self._b = env, backend

    def __getattr__(self, name: str):
        return getattr(self._b, name)

    def create_condition_var(self, lock=None):
        return CondProxy(self._env, self._b.create_condition_var(lock))


def make_listener_proxy(env: Env, inner, backend_proxy):
    from easynetwork.lowlevel.api_async.transports.abc import AsyncDatagramListener

    class ListenerProxy(AsyncDatagramListener):
        __slots__ = ("_inner",)

        def __init__(self) -> None:
            super().__init__()
            self._inner = inner

        def is_closing(self) -> bool:
            return self._inner.is_closing()

        async def aclose(self) -> None:
            await self._inner.aclose()

        def backend(self):
            return backend_proxy

        async def send_to(self, data, address) -> None:
            await self._inner.send_to(data, address)

        @property
        def extra_attributes(self):
            return self._inner.extra_attributes

        async def serve(self, handler, task_group=None):
            async def logged_handler(datagram: bytes, address, /) -> None:
                a = addr_index(address)
                susp = env.pending_susp.get(a, [0]).pop(0) if env.pending_susp.get(a) else 0
                env.log_h(a, f"h {a} {datagram.hex()}")
                _cur_handler.set((a, susp))
                await handler(datagram, address)

            env.serving = True
            await self._inner.serve(logged_handler, task_group)

    return ListenerProxy()


def run_case(case: dict) -> list[str]:
    from easynetwork.lowlevel.api_async.backend._asyncio.backend import AsyncIOBackend
    from easynetwork.lowlevel.api_async.backend._asyncio.datagram.listener import (
        DatagramListenerProtocol,
        DatagramListenerSocketAdapter,
    )
    from easynetwork.lowlevel.api_async.servers.datagram import AsyncDatagramServer

    env = Env(case)
    env.pending_susp = {}
    high = case.get("api", "low") == "high"
    sock = socket.socket(socket.AF_INET, socket.SOCK_DGRAM)
    sock.bind(("127.0.0.1", 0))
    sock.setblocking(False)

    def make_cb(server):
        if not high:
            def cb(ctx):
                a = addr_index(ctx.address)
                env.log_cb(a)
                return env.generator(a, False)
            return cb
        import weakref

        from easynetwork.lowlevel import _utils
        from easynetwork.servers.async_udp import _ClientContext
        from easynetwork.servers.handlers import AsyncDatagramRequestHandler
        from easynetwork.servers.misc import build_lowlevel_datagram_server_handler

        class Handler(AsyncDatagramRequestHandler):
            def handle(self, client):
                return env.generator(addr_index(client.extra(_remote_attr())), True)

        flag = _utils.Flag()
        flag.set()
        logger = logging.getLogger("c16.silent")
        logger.disabled = True

        def initializer(lowlevel_client, cache):
            return _ClientContext(lowlevel_client, cache, flag, logger)

        real = build_lowlevel_datagram_server_handler(initializer, Handler(), weakref.WeakValueDictionary())

        def cb(ctx):
            env.log_cb(addr_index(ctx.address))
            return real(ctx)
        return cb

    async def main(loop):
        if case.get("eager"):
            loop.set_task_factory(asyncio.eager_task_factory)
        backend = AsyncIOBackend()
        transport, protocol = await loop.create_datagram_endpoint(lambda: DatagramListenerProtocol(loop=loop), sock=sock)
        adapter = DatagramListenerSocketAdapter(backend, transport, protocol)
        listener = make_listener_proxy(env, adapter, BackendProxy(env, backend))
        server = AsyncDatagramServer(listener, make_protocol())
        env.protocol = protocol
        env.quiet_fut = loop.create_future()
        for a, d in case.get("early", []):
            env.arrive(int(a), d, 0)
        serve_task = loop.create_task(server.serve(make_cb(server)))
        done, _ = await asyncio.wait([serve_task, env.quiet_fut], return_when=asyncio.FIRST_COMPLETED)
        if serve_task in done:
            exc = serve_task.exception() if not serve_task.cancelled() else None
            env.log(f"serve-ended {type(exc).__name__ if exc else 'cancelled'}: {_flat(exc)}")
        else:
            env.log("quiet")
        for a in range(env.naddr):
            env.log(f"left {a} {env.arrived.get(a, 0) - env.taken.get(a, 0) - env.discarded(a)}")
            env.log(f"active-max {a} {env.active_max.get(a, 0)}")
        env.closing = True
        serve_task.cancel()
        for fut in env.gates.values():
            if not fut.done():
                fut.cancel()
        try:
            await serve_task
        except BaseException:
            pass
        await server.aclose()

    try:
        try:
            vl.run(main, env.hook, max_turns=6000)
        except vl.Stalled:
            env.lines.append("stalled")
    finally:
        try:
            sock.close()
        except Exception:
            pass
    return env.lines


def _flat(exc) -> str:
    if exc is None:
        return ""
    if isinstance(exc, BaseExceptionGroup):
        return "[" + ",".join(_flat(e) for e in exc.exceptions) + "]"
    return f"{type(exc).__name__}({exc})"[:120]


def _remote_attr():
    from easynetwork.servers.handlers import INETClientAttribute
    return INETClientAttribute.remote_address


def _discarded(self: Env, a: int) -> int:
    """generators of address a that ended before their first yield (each consumed one datagram: documented)"""
    n, fresh = 0, False
    for ln in self.lines:
        w = ln.split()
        if len(w) < 2 or w[1] != str(a):
            continue
        if w[0] == "cb":
            fresh = True
        elif w[0] in ("y", "yt"):
            fresh = False
        elif w[0] == "end":
            if fresh:
                n += 1
            fresh = False
    return n


Env.discarded = _discarded  # type: ignore[attr-defined]
