"""
C08 — histories WITH CANCELLATIONS of tasks parked on the transport's two locks ("cancel" kind, oracle only, no model run).

What the other kinds leave out: nobody is ever cancelled.  Here a history of side a (the library) contains tasks that are
CANCELLED while they wait

  * for the SEND lock   (a second send_all queued behind a sender parked under back-pressure in the wrapped send_all; a
                         recv / recv_into whose ssl.read raised WANT_READ with output pending in the outgoing BIO and which
                         must flush first; the send_all that carries a post-handshake-auth request),
  * for the RECEIVE lock (a second recv queued behind a reader parked in the wrapped recv_into),
  * inside the wrapped transport's recv_into (the lock's owner; also in the middle of a record delivered in small pieces),

by `task.cancel()`, through `backend.timeout()` (TimeoutError) or through `backend.move_on_after()`, at a chosen loop turn
after the victim started — before it parks, parked, or woken by the lock's release but not yet run — and the history goes
ON afterwards: more traffic in both directions, operations in which the SSL engine produces output WHILE READING that must be
flushed before the peer can answer (TLS 1.3 post-handshake authentication requested with `verify_client_post_handshake()`,
either role; the session tickets a server emits when the client's certificate arrives), and `aclose()` (close_notify must be
flushed before the wait for the peer's).  A cancellation of a lock waiter must leave NOTHING behind.

  run_cancel(case)   side a = `AsyncTLSStreamTransport.wrap` over a `c08_duplex.PipeTransport` (pipe a->b bounded: `cap` bytes),
                     side b = an independent stdlib `ssl.SSLObject` peer (c08_run.RawPeer) or a second library transport, whose
                     wrapped recv_into is GATED: while the gate is closed the peer reads nothing, the pipe fills and side a's
                     sender parks in the wrapped send_all holding the send lock (a slow peer: a delay pattern of the
                     underlying transport).  A conductor task executes the steps one after the other:

       ["gate", 0 | 1]                       close / open the peer's read gate
       ["send", key, n, via]                 start a task doing ONE tls.send_all(n bytes)
       ["recv", key, ["recv" | "recvinto", size], count, via]
                                             start a reader task: `count` calls (0 = until cancelled / EOF)
                                             via = "task" | "timeout" | "moveon": how the task will be cancelled (plain,
                                             inside `with backend.timeout(…)`, inside `with backend.move_on_after(…)`)
       ["cancel", key, k]                    k bare yields (k = "s": until everything is parked), then cancel that task IF it is
                                             parked on one of the two locks, in the wrapped recv_into, or has not started;
                                             a task inside the wrapped send_all is never cancelled (a cancelled send breaks
                                             the stream by contract: that is not what is examined here)
       ["yield", k] / ["settle"]             k bare yields / run until every task is parked
       ["peer-send", n]                      the peer writes n bytes
       ["pha", n]                            the SERVER side requests post-handshake authentication and writes n >= 1 bytes
                                             (peer = server: `verify_client_post_handshake()` + write; side a = server: the
                                             same on the transport's SSL object + a send_all task, key "P<i>")
       ["pha-hs"]                            (raw server peer only) the request alone, no application data
       ["sync"]                              gate opened; every reader of side a is stopped and ONE fresh reader started;
                                             wait until every transfer / the post-handshake exchange has completed.  The
                                             wait is exact on the virtual-time loop: if two consecutive "everything is
                                             parked" observations find it incomplete, it is a deadlock.
     The history always ends with a sync and, if "close": true, `tls.aclose()`: it must complete without waiting out the
     shutdown timeout and the peer must read a clean end of stream.

case = {"kind": "cancel", "seed": n, "ver": "1.3" | "1.2", "role": "client" | "server" (side a), "peer": "raw" | "easynet",
        "cap": bytes of the a->b pipe, "frag": largest piece one recv_into of side a gets (0 = all), "pha": bool (contexts
        with post-handshake auth + client certificate; TLS 1.3), "tickets": 0 | 2 (session tickets of the server side),
        "close": bool, "steps": [...]}
"""
from __future__ import annotations

import asyncio
import inspect
import ssl
from typing import Any

from vlib import c08_env as env
from vlib import c08_run as R
from vlib.c08_duplex import Pipe, PipeTransport

from easynetwork.lowlevel.api_async.backend._asyncio.backend import AsyncIOBackend
from easynetwork.lowlevel.api_async.transports.tls import AsyncTLSStreamTransport

FAR = 1e8            # "never" for the virtual loop (c08_env.VLoop treats > 1e6 as a far-future timeout)
_CTX: dict[tuple, ssl.SSLContext] = {}


def pha_server_ctx(tickets: int) -> ssl.SSLContext:
    key = ("s", tickets)
    if key not in _CTX:
        c = ssl.SSLContext(ssl.PROTOCOL_TLS_SERVER)
        c.load_cert_chain(R.CERT, R.KEY)
        c.load_verify_locations(R.CERT)
        c.verify_mode = ssl.CERT_REQUIRED
        c.post_handshake_auth = True
        c.minimum_version = ssl.TLSVersion.TLSv1_3
        c.num_tickets = tickets
        _CTX[key] = c
    return _CTX[key]


def pha_client_ctx() -> ssl.SSLContext:
    key = ("c",)
    if key not in _CTX:
        c = ssl.create_default_context(cafile=R.CERT)
        c.load_cert_chain(R.CERT, R.KEY)
        c.post_handshake_auth = True
        c.minimum_version = ssl.TLSVersion.TLSv1_3
        _CTX[key] = c
    return _CTX[key]


class TagLock(asyncio.Lock):
    """what AsyncIOBackend.create_fair_lock() returns (an asyncio.Lock), with a name: nothing else is changed"""

    def __init__(self, name: str) -> None:
        super().__init__()
        self.name = name


class CBackend(AsyncIOBackend):
    """the real backend; the transport creates the send lock first, then the receive lock (__post_init__)"""

    def __init__(self) -> None:
        super().__init__()
        self.names = ["send", "recv"]

    def create_fair_lock(self):
        if not self.names:
            return super().create_fair_lock()
        return TagLock(self.names.pop(0))


class GatedPipeTransport(PipeTransport):
    """the peer's end: recv_into takes nothing while the gate is closed (a slow peer)"""

    def __init__(self, *a: Any, **kw: Any) -> None:
        super().__init__(*a, **kw)
        self.gate = asyncio.Event()
        self.gate.set()

    async def recv_into(self, buffer) -> int:
        while not self.gate.is_set():
            if self.closing or self.inp.closed:
                break
            await self.gate.wait()
        return await super().recv_into(buffer)


def where(task: "asyncio.Task[Any]", a_tr: PipeTransport) -> str:
    """where a task is suspended (read-only walk over its coroutine chain):
    done | start (never ran) | lock:send | lock:recv | lock:? | rcv (wrapped recv_into) | xmit (wrapped send_all) | other"""
    if task.done():
        return "done"
    co: Any = task.get_coro()
    if inspect.iscoroutine(co) and inspect.getcoroutinestate(co) == inspect.CORO_CREATED:
        return "start"
    depth = 0
    while co is not None and depth < 60:
        fr = getattr(co, "cr_frame", None) or getattr(co, "gi_frame", None)
        if fr is None:
            break
        name = fr.f_code.co_name
        me = fr.f_locals.get("self")
        if name == "acquire" and isinstance(me, asyncio.Lock):
            return "lock:" + getattr(me, "name", "?")
        if me is a_tr and name == "send_all":
            return "xmit"
        if me is a_tr and name in ("recv_into", "_recv_lent"):
            return "rcv"
        nxt = getattr(co, "cr_await", None)
        if nxt is None:
            nxt = getattr(co, "gi_yieldfrom", None)
        if nxt is None or not (hasattr(nxt, "cr_frame") or hasattr(nxt, "gi_frame")):
            break
        co = nxt
        depth += 1
    return "other"


CANCELLABLE = ("lock:send", "lock:recv", "lock:?", "rcv", "start")


def run_cancel(case: dict) -> list[str]:
    seed = case["seed"]
    ver = case.get("ver", "1.3")
    a_server = case.get("role", "client") == "server"
    easy = case.get("peer", "raw") == "easynet"
    pha_on = bool(case.get("pha")) and ver == "1.3"
    tickets = int(case.get("tickets", 0))
    steps = [list(s) for s in case.get("steps") or []]
    keep = bool(case.get("keep"))
    box: dict[str, Any] = {"stage": "handshake", "lines": [], "errors": [], "waiting": "-"}
    lines: list[str] = box["lines"]

    async def main() -> None:
        loop = asyncio.get_running_loop()
        backend = CBackend()
        ab, ba = Pipe(int(case.get("cap", 4096))), Pipe(1 << 40)
        A = PipeTransport(backend, None, ba, ab, frag=int(case.get("frag", 0)))       # type: ignore[arg-type]
        B = GatedPipeTransport(env.HBackend(None), None, ab, ba)
        A.peer_tr, B.peer_tr = B, A
        box["A"], box["B"] = A, B
        if pha_on:
            sctx, cctx = pha_server_ctx(tickets), pha_client_ctx()
        else:
            sctx, cctx = R.server_ctx(ver, tickets), R.client_ctx(ver)
        ctx, peer_ctx = (sctx, cctx) if a_server else (cctx, sctx)
        peer: Any = (R.EasyPeer if easy else R.RawPeer)(B, peer_ctx, not a_server)
        peer_hs = loop.create_task(peer.handshake(), name="peer-hs")
        try:
            tls = await AsyncTLSStreamTransport.wrap(A, ctx, server_side=a_server,
                                                     server_hostname=None if a_server else "localhost",
                                                     handshake_timeout=FAR * 10, shutdown_timeout=30.0)
        except Exception as e:  # noqa: BLE001
            box["hs_error"] = R.errname(e)
            peer_hs.cancel()
            return
        try:
            await peer_hs
        except Exception as e:  # noqa: BLE001
            box["hs_error"] = "peer:" + type(e).__name__
            return
        box["tls"] = tls
        server_obj = tls._ssl_object if a_server else (peer.tls._ssl_object if easy else peer.obj)

        tasks: dict[str, asyncio.Task] = {}
        kinds: dict[str, str] = {}                  # key -> "send" | "recv"
        scopes: dict[str, Any] = {}
        vias: dict[str, str] = {}
        calls: list[dict] = []                      # send_all calls of side a, in call order
        a_received = bytearray()
        b_written = bytearray()
        peer_tasks: list[asyncio.Task] = []
        st = {"pha_pending": False, "pha_count": 0, "clean": True, "n_send": 0, "n_psend": 0, "inflight": 0,
              "cancelled": []}

        # ------------------------------------------------------------------ observations
        def counter() -> int | None:
            return getattr(tls, "_AsyncTLSStreamTransport__transport_send_lock_waiters", None)

        def parked_on_send_lock() -> int:
            return sum(1 for t in asyncio.all_tasks(loop) if not t.done() and where(t, A) == "lock:send")

        def observe(tag: str) -> None:
            """the transport's own count of tasks waiting for the send lock == the tasks really inside acquire()"""
            c = counter()
            if c is None:
                return
            p = parked_on_send_lock()
            if c != p and not any(ln.startswith("o.waiters ") for ln in lines):
                lines.append(f"o.waiters at={tag} counter={c} parked={p}")

        async def settle() -> None:
            await asyncio.sleep(1.0)                # virtual: returns when nothing else is runnable

        # ------------------------------------------------------------------ side a operations
        async def scoped(key: str, via: str, body) -> str:
            """-> "ok" | "cancelled" | "error:…" """
            try:
                if via == "timeout":
                    with backend.timeout(FAR) as scope:
                        scopes[key] = scope
                        await body()
                elif via == "moveon":
                    with backend.move_on_after(FAR) as scope:
                        scopes[key] = scope
                        await body()
                    if scope.cancelled_caught():
                        return "cancelled"
                else:
                    await body()
            except asyncio.CancelledError:
                return "cancelled"
            except TimeoutError:
                return "cancelled"
            except Exception as e:  # noqa: BLE001
                return "error:" + R.errname(e)
            return "ok"

        async def a_send(key: str, n: int, via: str) -> None:
            st["n_send"] += 1
            data = R.plaintext(seed, f"cx-a-{st['n_send']}", n)
            entry = {"key": key, "data": data, "status": "running"}

            async def body() -> None:
                calls.append(entry)                 # call order = order of the plaintext in the TLS stream
                st["inflight"] += 1
                try:
                    await tls.send_all(data)
                finally:
                    st["inflight"] -= 1

            entry["status"] = res = await scoped(key, via, body)
            if res.startswith("error"):
                box["errors"].append(f"{key}:{res[6:]}")
            elif res == "cancelled":
                st["clean"] = False
                if entry not in calls:
                    entry["status"] = "not-called"
            elif res == "ok":
                # generalised completion clause, scoped: only while no write call has been cancelled and no post-handshake
                # exchange has put bytes of its own into the outgoing BIO (those are flushed "by the next operation")
                lines.append(f"o.after-send {key} pending={tls._write_bio.pending} others={st['inflight']} "
                             f"backlog={len(tls._data_deque)} clean={int(st['clean'])}")

        async def a_recv(key: str, op: list, count: int, via: str) -> None:
            scratch = bytearray(int(op[1])) if op[0] == "recvinto" else None

            async def body() -> None:
                i = 0
                while count == 0 or i < count:
                    if scratch is not None:
                        k = await tls.recv_into(scratch)
                        d = bytes(scratch[:k])
                    else:
                        d = await tls.recv(int(op[1]))
                    if not d:
                        box["errors"].append(f"{key}:eof")
                        return
                    a_received.extend(d)
                    i += 1

            res = await scoped(key, via, body)
            if res.startswith("error"):
                box["errors"].append(f"{key}:{res[6:]}")

        def start(key: str, kind: str, coro, via: str) -> None:
            if key in tasks:
                coro.close()
                return
            tasks[key] = loop.create_task(coro, name=key)
            kinds[key] = kind
            vias[key] = via

        def do_cancel(key: str, tag: str) -> None:
            t = tasks.get(key)
            if t is None:
                return
            w = where(t, A)
            if w == "done":
                lines.append(f"c {key} {tag} at=done")
                return
            if w not in CANCELLABLE:
                lines.append(f"c {key} {tag} at={w} skipped")
                return
            sc = scopes.get(key)
            if vias.get(key) in ("timeout", "moveon") and sc is not None:
                sc.cancel()
                how = vias[key]
            else:
                t.cancel()
                how = "task"
            st["cancelled"].append(key)
            lines.append(f"c {key} {tag} at={w} how={how}")

        # ------------------------------------------------------------------ the peer
        feeds = [0]
        fed = asyncio.Event()

        async def raw_reader() -> None:
            """the ONLY task of the raw peer that reads from the wrapped transport"""
            buf = bytearray(65536)
            while True:
                try:
                    d = peer.obj.read(65536)
                except ssl.SSLWantReadError:
                    try:
                        await peer.flush()
                        n = await B.recv_into(buf)
                    except OSError as e:
                        box["peer_eof"] = "error:" + R.errname(e)
                        return
                    if n == 0:
                        peer.inc.write_eof()
                    else:
                        peer.inc.write(bytes(buf[:n]))
                    feeds[0] += 1
                    fed.set()
                    continue
                except ssl.SSLZeroReturnError:
                    d = b""
                except (ssl.SSLError, OSError) as e:
                    box["peer_eof"] = "error:" + R.errname(e)
                    return
                if not d:
                    box["peer_eof"] = "clean"
                    try:
                        peer.obj.unwrap()
                    except ssl.SSLError:
                        pass
                    try:
                        await peer.flush()
                    except OSError:
                        pass
                    return
                peer.received += d
                await peer.flush()                  # (what the read may have produced: session tickets after the client's flight)

        async def raw_call(method, *args):
            """a write-side call of the raw peer: on WANT_READ (the client's post-handshake flight is only partly in) it
            waits for the reader task to feed more — it never reads from the transport itself"""
            while True:
                gen = feeds[0]
                try:
                    r = method(*args)
                except ssl.SSLWantReadError:
                    await peer.flush()
                    while feeds[0] == gen:
                        fed.clear()
                        await fed.wait()
                    continue
                await peer.flush()
                return r

        async def easy_reader() -> None:
            while True:
                try:
                    d = await peer.tls.recv(65536)
                except (ssl.SSLError, OSError) as e:
                    box["peer_eof"] = "error:" + R.errname(e)
                    return
                if not d:
                    box["peer_eof"] = "clean"
                    try:
                        await peer.tls.aclose()
                    except Exception:  # noqa: BLE001
                        pass
                    return
                peer.received += d

        peer_reader = loop.create_task(easy_reader() if easy else raw_reader(), name="peer-r")

        async def peer_write(data: bytes, request: bool) -> None:
            try:
                if request:
                    server_obj.verify_client_post_handshake()
                if easy:
                    await peer.tls.send_all(data)
                else:
                    view = memoryview(data)
                    while len(view):
                        n = await raw_call(peer.obj.write, view)
                        view = view[n:]
            except Exception as e:  # noqa: BLE001
                box["errors"].append(f"peer-write:{R.errname(e)}")

        async def peer_request_only() -> None:
            try:
                server_obj.verify_client_post_handshake()
                await raw_call(peer.obj.do_handshake)
            except Exception as e:  # noqa: BLE001
                box["errors"].append(f"peer-request:{R.errname(e)}")

        # While a post-handshake-auth request is outstanding, the REQUESTING (server) side starts no further write call if
        # it is a library transport: its ssl.write can raise WANT_READ while the client's three-record answer is only partly
        # in, and a second task in the WANT_READ branch next to the reader is the known residual of docs/C08.md (observation
        # 2; reachable on a library server only through the private SSL object).  Such writes are started when the
        # exchange is over.
        deferred: list = []

        def pha_done() -> bool:
            if st["pha_pending"]:
                try:
                    got = bool(server_obj.getpeercert())
                except ValueError:                  # "handshake not done yet": the client's flight is being processed
                    got = False
                if got:
                    st["pha_pending"] = False
            if not st["pha_pending"] and deferred:
                todo = list(deferred)
                deferred.clear()
                for fn in todo:
                    fn()
            return not st["pha_pending"]

        def peer_send(n: int, request: bool = False) -> None:
            if easy and not a_server and st["pha_pending"] and not request:
                deferred.append(lambda: peer_send(n))
                return
            st["n_psend"] += 1
            data = R.plaintext(seed, f"cx-b-{st['n_psend']}", n)
            b_written.extend(data)
            peer_tasks.append(loop.create_task(peer_write(data, request), name=f"peer-w{st['n_psend']}"))

        def request_pha(n: int, data: bool = True) -> None:
            if not pha_on or st["pha_count"]:
                return                              # (one request per history: its completion is read off getpeercert())
            st["pha_pending"] = True
            st["pha_count"] += 1
            st["clean"] = False
            if a_server:
                try:
                    server_obj.verify_client_post_handshake()
                except Exception as e:  # noqa: BLE001
                    box["errors"].append(f"pha-request:{R.errname(e)}")
                    return
                key = f"P{st['pha_count']}"
                start(key, "send", a_send(key, max(1, n), "task"), "task")
            elif data or easy:
                peer_send(max(1, n), request=True)
            else:
                peer_tasks.append(loop.create_task(peer_request_only(), name="peer-req"))

        # ------------------------------------------------------------------ completion
        def match_sends() -> tuple[bool, bool]:
            """(consistent, complete): what the peer has read == the send_all calls in call order, every call that returned
            normally in full, every cancelled call entirely or not at all"""
            got = bytes(peer.received)

            def walk(i: int, pos: int) -> tuple[bool, bool]:
                if i == len(calls):
                    return (pos == len(got), pos == len(got))
                c = calls[i]
                d = c["data"]
                rest = got[pos:pos + len(d)]
                cons = False
                if rest == d:
                    r = walk(i + 1, pos + len(d))
                    if r[1]:
                        return r
                    cons = cons or r[0]
                elif pos + len(rest) == len(got) and d.startswith(rest):
                    cons = True                     # still on its way: consistent, not complete
                if c["status"] not in ("ok", "running"):
                    r = walk(i + 1, pos)            # a cancelled call: nothing of it delivered
                    if r[1]:
                        return r
                    cons = cons or r[0]
                return (cons, False)

            return walk(0, 0)

        def incomplete() -> str:
            miss = []
            pha_done()                              # (starts what was deferred: it then counts as outstanding below)
            for c in calls:
                if c["status"] == "running":
                    miss.append(f"send:{c['key']}")
            if any(not t.done() for t in peer_tasks):
                miss.append("peer-write")
            if not match_sends()[1]:
                miss.append("a2b")
            if bytes(a_received) != bytes(b_written):
                miss.append(f"b2a:{len(a_received)}/{len(b_written)}")
            if not pha_done():
                miss.append("post-handshake-auth")
            for key in st["cancelled"]:
                if not tasks[key].done():
                    miss.append(f"cancelled-still-running:{key}")
            return ",".join(miss)

        async def sync(tag: str) -> bool:
            box["stage"] = tag
            B.gate.set()
            await settle()
            observe(tag + ".0")
            # every reader of side a is stopped (they are parked in the wrapped recv_into or on a lock), one fresh reader
            for _ in range(3):
                live = [k for k, t in tasks.items() if kinds[k] == "recv" and not t.done()]
                if keep and live:
                    live = live[1:]                 # "keep": the oldest reader still running stays (long-lived reader)
                if not live:
                    break
                for k in live:
                    t = tasks[k]
                    if where(t, A) in CANCELLABLE:
                        t.cancel()
                await settle()
            observe(tag + ".1")
            fkey = f"F.{tag}"
            kept = [k for k, t in tasks.items() if kinds[k] == "recv" and not t.done()] if keep else []
            if kept:
                fkey = kept[0]
            else:
                start(fkey, "recv", a_recv(fkey, ["recv", 65536], 0, "task"), "task")
            idle = 0
            while True:
                await settle()
                miss = incomplete()
                if not miss:
                    break
                idle += 1
                if idle >= 2 or box["errors"]:
                    box["waiting"] = miss
                    return False
            observe(tag + ".2")
            t = tasks[fkey]
            if where(t, A) in CANCELLABLE:
                t.cancel()
            await settle()
            observe(tag + ".3")
            return True

        # ------------------------------------------------------------------ the conductor
        nsync = 0
        for i, s in enumerate(steps):
            box["stage"] = f"step-{i}"
            op = s[0]
            pha_done()
            if op == "gate":
                if s[1]:
                    B.gate.set()
                else:
                    B.gate.clear()
            elif op == "send":
                via = str(s[3] if len(s) > 3 else "task")

                def go(k=str(s[1]), n=int(s[2]), via=via) -> None:
                    start(k, "send", a_send(k, n, via), via)

                if a_server and st["pha_pending"]:
                    deferred.append(go)
                else:
                    go()
            elif op == "recv":
                via = str(s[4] if len(s) > 4 else "task")
                if keep and any(kinds[k] == "recv" and not t.done() for k, t in tasks.items()):
                    continue                        # "keep": one reader of side a at a time (docs/C08.md, observation 2)
                start(str(s[1]), "recv", a_recv(str(s[1]), list(s[2]), int(s[3]), via), via)
            elif op == "cancel":
                k = s[2] if len(s) > 2 else 0
                if k == "s":
                    await settle()
                else:
                    await env.pause(int(k))
                do_cancel(str(s[1]), f"step={i}")
            elif op == "yield":
                await env.pause(int(s[1]))
            elif op == "settle":
                await settle()
            elif op == "peer-send":
                peer_send(int(s[1]))
            elif op == "pha":
                request_pha(int(s[1]) if len(s) > 1 else 1)
            elif op == "pha-hs":
                request_pha(1, data=False)
            elif op == "sync":
                nsync += 1
                if not await sync(f"sync-{nsync}"):
                    lines.append(f"stuck stage=sync-{nsync} waiting={box['waiting']}")
                    return
            else:
                lines.append(f"harness-exc unknown step {op}")
                return
            observe(f"step-{i}")
        if not await sync("final"):
            lines.append(f"stuck stage=final waiting={box['waiting']}")
            return
        cons, comp = match_sends()
        lines.append("o.sends " + (",".join(f"{c['key']}:{c['status']}:{len(c['data'])}" for c in calls) or "-"))
        lines.append(f"o.a2b consistent={int(cons)} complete={int(comp)} received={len(peer.received)}")
        lines.append(f"o.b2a written={R.dg(bytes(b_written))} received={R.dg(bytes(a_received))} "
                     f"prefix={int(bytes(b_written).startswith(bytes(a_received)))}")
        box["report"] = True
        if case.get("close"):
            box["stage"] = "close"
            t0 = loop.time()
            try:
                await tls.aclose()
                res = "ok"
            except Exception as e:  # noqa: BLE001
                res = "raise:" + R.errname(e)
            dt = loop.time() - t0
            await settle()
            lines.append(f"o.close {res} waited={int(dt)} peer={box.get('peer_eof', 'nothing')} inner-closed={int(A.closing)}")
        box["stage"] = "done"
        for t in [peer_reader, *peer_tasks]:
            t.cancel()
        A.closing = True
        B.closing = True
        ab.close()
        ba.close()
        B.gate.set()

    out, loop = env.run(main)
    head = [f"cancel steps={len(steps)} peer={'easynet' if easy else 'raw'} role={'server' if a_server else 'client'}"]
    if out[0] == "hang":
        lines.append(f"deadlock stage={box['stage']} {out[1]}")
    elif out[0] == "exc":
        lines.append(f"harness-exc {type(out[1]).__name__}: {out[1]}")
    if loop.unhandled:
        lines.append("unhandled " + "|".join(loop.unhandled))
    if "hs_error" in box:
        lines.append(f"o.hs-error {box['hs_error']}")
    if box["errors"]:
        lines.append("o.task-error " + ",".join(box["errors"]).replace(" ", ":"))
    A = box.get("A")
    if A is not None:
        lines.append("o.overlap " + (",".join(sorted(set(A.overlap + box["B"].overlap))) or "-"))
    return head + lines


def problem(case: dict, real: list[str]) -> str | None:
    for ln in real:
        if ln.startswith(("harness-exc", "unhandled")):
            return ln
    waiters = next((ln for ln in real if ln.startswith("o.waiters ")), None)
    hint = ""
    if waiters is not None:
        kv = dict(w.split("=", 1) for w in waiters.split()[1:])
        hint = (f" [the transport counts {kv['counter']} task(s) waiting for the send lock, {kv['parked']} really are "
                f"(first seen at {kv['at']})]")
    for ln in real:
        if ln.startswith("o.hs-error "):
            return "the handshake did not complete: " + ln.split(None, 1)[1]
    for ln in real:
        if ln.startswith("o.task-error "):
            return "an operation failed although nothing reported an error: " + ln.split(None, 1)[1] + hint
    for ln in real:
        if ln.startswith("stuck "):
            kv = dict(w.split("=", 1) for w in ln.split()[1:])
            return (f"deadlock: after the cancellation(s) the history cannot complete ({kv['stage']}: every task is parked, "
                    f"still outstanding: {kv['waiting']})" + hint)
        if ln.startswith("deadlock"):
            return "deadlock: tasks are waiting and nothing can wake them (" + ln + ")" + hint
    for ln in real:
        if ln.startswith("o.after-send "):
            kv = dict(w.split("=", 1) for w in ln.split()[2:])
            if kv["clean"] == "1" and kv["others"] == "0" and (kv["pending"] != "0" or kv["backlog"] != "0"):
                return (f"write call {ln.split()[1]} returned although {kv['pending']} bytes of ciphertext are still in the "
                        f"outgoing BIO ({kv['backlog']} chunks in the backlog) and no other write call is in progress")
    seen = set()
    for ln in real:
        w = ln.split()
        seen.add(w[0])
        if w[0] == "o.a2b":
            kv = dict(x.split("=", 1) for x in w[1:])
            if kv["consistent"] != "1" or kv["complete"] != "1":
                return ("plaintext read by the peer is not the plaintext of the send_all calls in call order (every call that "
                        "returned in full, a cancelled call entirely or not at all): " + ln + hint)
        if w[0] == "o.b2a":
            kv = dict(x.split("=", 1) for x in w[1:])
            if kv["written"] != kv["received"]:
                return (f"plaintext written by the peer, read from the transport: received {kv['received']} != written "
                        f"{kv['written']} (prefix={kv['prefix']})" + hint)
        if w[0] == "o.overlap" and w[1] != "-":
            return "two calls of the wrapped transport's " + w[1] + " were in flight at the same time"
        if w[0] == "o.close":
            kv = dict(x.split("=", 1) for x in w[2:])
            if w[1] != "ok" or int(kv["waited"]) >= 30 or kv["peer"] != "clean":
                return (f"aclose() after the history: result {w[1]}, waited {kv['waited']} virtual seconds (shutdown timeout 30), "
                        f"the peer's reader ended with: {kv['peer']} — the closing alert was not handed to the wrapped "
                        "transport before the wait for the peer's / the peer sees a truncated stream" + hint)
    if "o.a2b" not in seen or "o.b2a" not in seen:
        return "no oracle data"
    if case.get("close") and "o.close" not in seen:
        return "no oracle data (close)"
    if waiters is not None:
        return ("the transport's count of tasks waiting for the send lock differs from the tasks really waiting" + hint +
                ": operations that need input will not flush pending output")
    return None


# ------------------------------------------------------------------------------------------------------------------
# generator / shrinker
# ------------------------------------------------------------------------------------------------------------------
_VIA = ["task", "task", "timeout", "moveon"]
_K = [0, 1, 2, 3, 4, "s", "s"]


def _rop(rng) -> list:
    return rng.choice([["recv", 65536], ["recv", 16384], ["recv", 100], ["recv", 1], ["recvinto", 100], ["recvinto", 70000]])


def gen_cancel(rng, n: int) -> dict:
    """a history of 1 … 3 episodes, each starting from a quiescent connection (see the module docstring)"""
    ver = rng.choice(["1.3", "1.3", "1.3", "1.2"])
    pha = ver == "1.3" and rng.random() < 0.6
    role = rng.choice(["client", "client", "server"])
    peer = rng.choice(["raw", "raw", "easynet"])
    cap = rng.choice([1024, 2048, 4096, 4096, 16384])
    case: dict[str, Any] = {"kind": "cancel", "seed": n, "ver": ver, "role": role, "peer": peer, "cap": cap,
                            "tickets": rng.choice([0, 0, 2]), "close": rng.random() < 0.75}
    if pha:
        case["pha"] = True
    elif rng.random() < 0.4:
        case["keep"] = True          # a long-lived reader of side a survives the syncs (see docs/C08.md for why not with pha)
    if rng.random() < 0.3:
        case["frag"] = rng.choice([64, 1000, 5000])
    uid = [0]

    def key(p: str) -> str:
        uid[0] += 1
        return f"{p}{uid[0]}"

    steps: list[list] = []
    pha_left = [1 if pha else 0]

    def small() -> int:
        return rng.choice([1, 1, 100, 1000, 5000, cap, 16385])

    def ep_sendlock() -> None:
        steps.append(["gate", 0])
        steps.append(["send", key("S"), rng.choice([cap + 200, 2 * cap, 3 * cap + 7, cap + 16384, 40960]), "task"])
        steps.append(rng.choice([["yield", 1], ["yield", 2], ["yield", 4], ["settle"]]))
        victims: list[str] = []
        r = rng.random()
        if pha_left[0] and r < 0.55:
            pha_left[0] = 0
            v = rng.random()
            if v < 0.35:                                   # the request is read together with data: the answer stays pending
                steps.append(["pha", rng.choice([1, 1, 10, 1000])])
                if role == "server":
                    victims.append("P1")
                steps.append(["recv", key("R"), _rop(rng), 1, "task"])
                steps.append(["settle"])
            elif v < 0.75 or role == "server" or peer == "easynet":
                steps.append(["pha", rng.choice([1, 1, 10, 1000])])
                if role == "server":
                    victims.append("P1")
            else:
                steps.append(["pha-hs"])
            steps.append(["yield", rng.choice([0, 1, 3])])
        elif r < 0.70:
            steps.append(["peer-send", small()])
        for _ in range(rng.choice([1, 1, 2, 3])):
            if rng.random() < 0.5:
                k = key("S")
                steps.append(["send", k, small(), rng.choice(_VIA)])
            else:
                k = key("R")
                steps.append(["recv", k, _rop(rng), rng.choice([0, 0, 1]), rng.choice(_VIA)])
            victims.append(k)
            steps.append(["yield", rng.choice([0, 1, 2, 3])])
        chosen = [v for v in victims if rng.random() < 0.7] or [rng.choice(victims)]
        rng.shuffle(chosen)
        mode = rng.choice(["before", "before", "after", "mixed"])
        if mode == "before":
            for v in chosen:
                steps.append(["cancel", v, rng.choice(_K)])
            steps.append(["gate", 1])
        elif mode == "after":
            steps.append(["gate", 1])
            for v in chosen:
                steps.append(["cancel", v, rng.choice([0, 0, 1, 1, 2, 3, 4, 5])])
        else:
            steps.append(["cancel", chosen[0], rng.choice(_K)])
            steps.append(["gate", 1])
            for v in chosen[1:]:
                steps.append(["cancel", v, rng.choice([0, 1, 2, 3])])
        if rng.random() < 0.5:
            steps.append(["peer-send", small()])
        if rng.random() < 0.4:
            steps.append(["send", key("S"), small(), "task"])
        if rng.random() < 0.3:
            steps.append(["yield", rng.choice([1, 3])])

    def ep_recvlock() -> None:
        ks = []
        for j in range(rng.choice([2, 2, 3])):
            k = key("R")
            ks.append(k)
            steps.append(["recv", k, _rop(rng), 0 if j == 0 else rng.choice([0, 1]), rng.choice(_VIA)])
            steps.append(["yield", rng.choice([0, 1, 2, 3])])
        early = rng.random() < 0.3
        if early:
            steps.append(["peer-send", small()])
        chosen = [v for v in ks if rng.random() < 0.7] or [rng.choice(ks)]
        rng.shuffle(chosen)
        for v in chosen:
            steps.append(["cancel", v, rng.choice(_K)])
        steps.append(["peer-send", small()])
        if rng.random() < 0.5:
            steps.append(["send", key("S"), small(), "task"])

    def ep_midrecord() -> None:
        k = key("R")
        steps.append(["recv", k, _rop(rng), 0, rng.choice(_VIA)])
        steps.append(["yield", rng.choice([0, 2])])
        steps.append(["peer-send", rng.choice([100, 5000, 20000, 40000])])
        steps.append(["cancel", k, rng.choice(list(range(0, 12)))])
        if rng.random() < 0.5:
            steps.append(["peer-send", small()])

    def ep_duplex() -> None:
        steps.append(["gate", 0])
        steps.append(["send", key("S"), rng.choice([cap + 200, 3 * cap + 7]), "task"])
        k = key("R")
        steps.append(["recv", k, _rop(rng), 0, rng.choice(_VIA)])
        steps.append(["yield", rng.choice([1, 3])])
        if rng.random() < 0.5:
            steps.append(["peer-send", small()])
        steps.append(["cancel", k, rng.choice(_K)])
        if rng.random() < 0.5:
            k2 = key("S")
            steps.append(["send", k2, small(), rng.choice(_VIA)])
            steps.append(["cancel", k2, rng.choice(_K)])
        steps.append(["gate", 1])

    def ep_pha() -> None:
        if pha_left[0]:
            pha_left[0] = 0
            steps.append(["pha", rng.choice([1, 10, 1000])])
        if rng.random() < 0.5:
            steps.append(["send", key("S"), small(), "task"])
        if rng.random() < 0.5:
            steps.append(["peer-send", small()])

    eps = rng.choice([1, 1, 2, 2, 3])
    for e in range(eps):
        kind = rng.choice(["sendlock"] * 6 + ["recvlock"] * 2 + ["midrecord", "duplex"])
        {"sendlock": ep_sendlock, "recvlock": ep_recvlock, "midrecord": ep_midrecord, "duplex": ep_duplex}[kind]()
        if e + 1 < eps:
            steps.append(["sync"])
    if pha_left[0] or rng.random() < 0.25:
        steps.append(["sync"])
        ep_pha()                                           # an exchange that relies on flush-before-wait, AFTER the cancellations
    case["steps"] = steps
    return case


def shrink_cancel(case: dict):
    steps = [list(s) for s in case.get("steps") or []]
    for i in range(len(steps)):                             # drop a step
        yield {**case, "steps": steps[:i] + steps[i + 1:]}
    for key in ("close", "keep", "frag", "tickets"):
        if case.get(key):
            yield {k: v for k, v in case.items() if k != key}
    if case.get("pha") and not any(s[0] in ("pha", "pha-hs") for s in steps):
        yield {k: v for k, v in case.items() if k != "pha"}
    if case.get("peer", "raw") != "raw" :
        yield {**case, "peer": "raw"}
    if case.get("role", "client") != "client":
        yield {**case, "role": "client"}
    if case.get("ver", "1.3") != "1.3":
        yield {**case, "ver": "1.3"}
    cap = int(case.get("cap", 4096))
    for i, s in enumerate(steps):
        def put(new: list, i=i) -> dict:
            return {**case, "steps": steps[:i] + [new] + steps[i + 1:]}
        if s[0] == "send":
            if len(s) > 3 and s[3] != "task":
                yield put([s[0], s[1], s[2], "task"])
            for m in (1, cap + 200, s[2] // 2):
                if 0 < m < s[2]:
                    yield put([s[0], s[1], m] + s[3:])
        elif s[0] == "recv":
            if len(s) > 4 and s[4] != "task":
                yield put(s[:4] + ["task"])
            if s[2] != ["recv", 65536]:
                yield put(s[:2] + [["recv", 65536]] + s[3:])
        elif s[0] == "cancel":
            if len(s) > 2 and s[2] != "s":
                yield put([s[0], s[1], "s"])
        elif s[0] in ("peer-send", "pha") and len(s) > 1 and s[1] > 1:
            yield put([s[0], 1])
        elif s[0] == "yield" and s[1] > 1:
            yield put(["yield", 1])
        elif s[0] == "pha-hs":
            yield put(["pha", 1])


def class_key(case: dict, real: list[str]) -> str:
    spots = sorted({w.split("=", 1)[1] for ln in real if ln.startswith("c ") and "skipped" not in ln
                    for w in ln.split() if w.startswith("at=")})
    return (f"cancel/{case.get('role', 'client')}/{case.get('peer', 'raw')}/{case.get('ver', '1.3')}"
            f"{'/pha' if case.get('pha') else ''}{'/keep' if case.get('keep') else ''}/{'+'.join(spots) or 'none'}")
