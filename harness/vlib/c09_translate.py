"""
Translator for C09: regenerates lean/EasyNet/EasyNet/Gen/TlsEofTables.lean from the CURRENT source under core.REPO (so that
VERIF_REPO redirects it).  Everything table-like in the logic the property is anchored in is read from the AST:

  * `_utils.is_ssl_eof_error`               the `match exc:` cases (class, pattern guard, returned constant) and the final return
  * `AsyncTLSStreamTransport._retry_ssl_method`  the `except` clauses in order, what each handler does (recognised shapes), the
                                            inner `except OSError`, whether the `else:` branch flushes after which methods
  * `_IncomingDataReader.readinto`          `read_bio.write_eof()` when the transport returned 0
  * `AsyncTLSStreamTransport.recv / recv_into`   the `except` clauses and their bodies (as `HStmt` trees)
  * `AsyncTLSStreamTransport.aclose`        the guard of the unwrap, the swallowed classes, force-close on failure, final close,
                                            and whether the unwrap has the clause `except SSLError: with suppress(OSError): await
                                            self.__flush_pending_writes()` (`acloseFlushesOnSslError`: both shapes are understood,
                                            a tree without the clause is modelled as such)
  * `SSLStreamTransport.__init__`           the expression passed as `suppress_ragged_eofs=`
  * `SSLStreamTransport._try_ssl_method / recv_noblock / recv_noblock_into / close`
  * `TCPNetworkClient.__init__`, `AsyncTCPNetworkClient.__init__`   the `if isinstance(ssl, bool):` block
The subclass relation among the classes involved and the option bit come from the live interpreter.
Anything the translator does not recognise becomes `.unknown` / an entry of `problems`, which the theorems refuse.
"""
from __future__ import annotations

import ast
import asyncio
import builtins
import ssl
from pathlib import Path
from typing import Any

from vlib import core

GEN = core.LEAN / "EasyNet" / "Gen" / "TlsEofTables.lean"

SRC = {
    "tls": "src/easynetwork/lowlevel/api_async/transports/tls.py",
    "socket": "src/easynetwork/lowlevel/api_sync/transports/socket.py",
    "utils": "src/easynetwork/lowlevel/_utils.py",
    "tcp": "src/easynetwork/clients/tcp.py",
    "async_tcp": "src/easynetwork/clients/async_tcp.py",
}

BASE_ALPHABET: list[type] = [
    ssl.SSLError, ssl.SSLZeroReturnError, ssl.SSLWantReadError, ssl.SSLWantWriteError, ssl.SSLSyscallError, ssl.SSLEOFError,
    ssl.SSLCertVerificationError,
    OSError, ConnectionError, ConnectionResetError, ConnectionAbortedError, BrokenPipeError, TimeoutError, BlockingIOError,
    InterruptedError, ValueError, TypeError, RuntimeError, MemoryError, EOFError, Exception, BaseException, KeyboardInterrupt,
    asyncio.CancelledError,
]
PATTERN = "UNEXPECTED_EOF_WHILE_READING"


def qname(c: type) -> str:
    mod = c.__module__
    if mod == "asyncio.exceptions":
        mod = "asyncio"
    return f"{mod}.{c.__qualname__}"


def lname(c: type) -> str:
    return qname(c).replace(".", "_")


class Tr:
    def __init__(self) -> None:
        self.problems: list[str] = []
        self.classes: list[type] = list(BASE_ALPHABET)
        self.trees: dict[str, ast.Module] = {}
        for k, rel in SRC.items():
            p = core.REPO / rel
            self.trees[k] = ast.parse(p.read_text(), filename=str(p))

    # ---- lookup
    def func(self, key: str, cls: str | None, name: str) -> ast.AST | None:
        body: list[ast.stmt] = self.trees[key].body
        if cls is not None:
            node = next((n for n in body if isinstance(n, ast.ClassDef) and n.name == cls), None)
            if node is None:
                self.problems.append(f"class {cls} not found in {key}")
                return None
            body = node.body
        fs = [n for n in body if isinstance(n, (ast.FunctionDef, ast.AsyncFunctionDef)) and n.name == name]
        f = fs[-1] if fs else None      # (the last one: earlier ones are @overload stubs)
        if f is None:
            self.problems.append(f"function {cls}.{name} not found in {key}")
        return f

    # ---- class expressions
    def resolve(self, node: ast.AST | None) -> list[type]:
        """classes named by the `type` expression of an except clause"""
        if node is None:
            return [BaseException]
        if isinstance(node, ast.IfExp):           # `_ssl_module.SSLZeroReturnError if _ssl_module else ()`
            return self.resolve(node.body)
        if isinstance(node, ast.Tuple):
            out: list[type] = []
            for e in node.elts:
                out += self.resolve(e)
            return out
        name = None
        if isinstance(node, ast.Attribute):
            base = ast.unparse(node.value)
            if base in ("_ssl_module", "ssl", "_ssl"):
                name = getattr(ssl, node.attr, None)
            elif base in ("base_selector",):
                name = None
        elif isinstance(node, ast.Name):
            name = getattr(builtins, node.id, None)
        if isinstance(name, type) and issubclass(name, BaseException):
            if name not in self.classes:
                self.classes.append(name)
            return [name]
        self.problems.append(f"cannot resolve exception class expression {ast.unparse(node)!r}")
        return []

    # ---- handler bodies
    def hstmts(self, stmts: list[ast.stmt]) -> str:
        if not stmts:
            return ".pass"
        parts = [self.hstmt(s) for s in stmts]
        out = parts[-1]
        for p in reversed(parts[:-1]):
            out = f"(.seq {p} {out})"
        return out

    def hstmt(self, s: ast.stmt) -> str:
        if isinstance(s, ast.Pass):
            return ".pass"
        if isinstance(s, ast.Return):
            v = s.value
            if isinstance(v, ast.Constant) and (v.value == b"" or (v.value == 0 and v.value is not False)):
                return ".retEof"
            return ".retOther"
        if isinstance(s, ast.Raise):
            if s.exc is None:
                return ".reraise"
            txt = ast.unparse(s.exc)
            if "WouldBlockOnRead(" in txt:
                return ".wouldBlockRead"
            if "WouldBlockOnWrite(" in txt:
                return ".wouldBlockWrite"
            return ".raiseNew"
        if isinstance(s, ast.If):
            t = self.hstmts(s.body)
            e = self.hstmts(s.orelse)
            test = s.test
            txt = ast.unparse(test)
            if isinstance(test, ast.Call) and txt.endswith("is_ssl_eof_error(exc)"):
                return f"(.ifEofErr {t} {e})"
            if txt in ("not self._standard_compatible", "not self.__standard_compatible"):
                return f"(.ifNotSC {t} {e})"
            if txt in ("self._standard_compatible", "self.__standard_compatible"):
                return f"(.ifSC {t} {e})"
            return ".unknown"
        return ".unknown"

    def clauses(self, tr: ast.Try | None, what: str) -> str:
        if tr is None:
            self.problems.append(f"no try statement found in {what}")
            return "[]"
        items = []
        for h in tr.handlers:
            cl = self.resolve(h.type)
            items.append("⟨[" + ", ".join("." + lname(c) for c in cl) + "], " + self.hstmts(h.body) + "⟩")
        return "[" + ", ".join(items) + "]"

    @staticmethod
    def first_try(node: ast.AST | None, containing: str | None = None) -> ast.Try | None:
        if node is None:
            return None
        for n in ast.walk(node):
            if isinstance(n, ast.Try):
                if containing is None or any(containing in ast.unparse(b) for b in n.body):
                    return n
        return None


def _calls(node_list: list[ast.stmt]) -> list[str]:
    return [ast.unparse(s) for s in node_list]


def build() -> tuple[str, dict[str, Any]]:
    t = Tr()
    info: dict[str, Any] = {}

    # ---------------- is_ssl_eof_error
    f = t.func("utils", None, "is_ssl_eof_error")
    eof_cases: list[str] = []
    eof_default = "false"
    if f is not None:
        m = next((n for n in ast.walk(f) if isinstance(n, ast.Match)), None)
        if m is None:
            t.problems.append("is_ssl_eof_error: no match statement")
        else:
            for case in m.cases:
                pat = case.pattern
                if not (isinstance(pat, ast.MatchClass) and not pat.patterns and not pat.kwd_patterns):
                    t.problems.append(f"is_ssl_eof_error: unsupported pattern {ast.unparse(pat)}")
                    continue
                cl = t.resolve(pat.cls)
                needs = False
                if case.guard is not None:
                    g = ast.unparse(case.guard)
                    if PATTERN in g and "exc.strerror" in g and " in " in g and " not in " not in g and " or " not in g:
                        needs = True
                    else:
                        t.problems.append(f"is_ssl_eof_error: unsupported guard {g}")
                val = None
                if len(case.body) == 1 and isinstance(case.body[0], ast.Return) and isinstance(case.body[0].value, ast.Constant) \
                        and isinstance(case.body[0].value.value, bool):
                    val = case.body[0].value.value
                else:
                    t.problems.append("is_ssl_eof_error: case body is not `return <bool>`")
                for c in cl:
                    eof_cases.append(f"⟨.{lname(c)}, {str(needs).lower()}, {str(bool(val)).lower()}⟩")
            idx = f.body.index(m) if m in f.body else -1
            tail = f.body[idx + 1:] if idx >= 0 else []
            if len(tail) == 1 and isinstance(tail[0], ast.Return) and isinstance(tail[0].value, ast.Constant) \
                    and isinstance(tail[0].value.value, bool):
                eof_default = str(tail[0].value.value).lower()
            else:
                t.problems.append("is_ssl_eof_error: statement after the match is not `return <bool>`")

    # ---------------- _retry_ssl_method
    f = t.func("tls", "AsyncTLSStreamTransport", "_retry_ssl_method")
    retry_clauses: list[str] = []
    inner_catch: list[type] = []
    no_flush_after: list[str] = []
    want_read_flushes = False
    tr = Tr.first_try(f, "ssl_object_method(")
    # the three flush sites may be written in-line (`async with send_lock: [if pending:] send_all(write_bio.read())`) or go
    # through the helper `__flush_pending_writes([even_if_empty=True])`, whose body is checked to be that very statement
    INLINE = "self._transport.send_all(self._write_bio.read())"
    HELPER = "self.__flush_pending_writes("
    hf = None
    for n in t.trees["tls"].body:
        if isinstance(n, ast.ClassDef) and n.name == "AsyncTLSStreamTransport":
            hf = next((m for m in n.body if isinstance(m, ast.AsyncFunctionDef) and m.name == "__flush_pending_writes"), None)
    helper_ok = False
    if hf is not None:
        htxt = ast.unparse(hf)
        helper_ok = (INLINE in htxt and "if even_if_empty or self._write_bio.pending" in htxt
                     and "self.__transport_send_lock.acquire()" in htxt and "self.__transport_send_lock.release()" in htxt)
        if not helper_ok:
            t.problems.append("__flush_pending_writes: body is not `acquire send lock; if even_if_empty or pending: send_all(read()); release`")

    def has_flush(txt: str) -> bool:
        return INLINE in txt or (helper_ok and HELPER in txt)

    def flush_pos(txt: str) -> int:
        c = [txt.index(x) for x in (INLINE, HELPER) if x in txt]
        return min(c) if c else -1

    if tr is None:
        t.problems.append("_retry_ssl_method: try statement not found")
    else:
        for h in tr.handlers:
            cl = t.resolve(h.type)
            txt = "\n".join(_calls(h.body))
            act = ".unknown"
            inner = next((n for n in h.body if isinstance(n, ast.Try)), None)
            if inner is not None and ".readinto(self._read_bio)" in txt:
                body_txt = "\n".join(_calls(inner.body))
                # (in-line form: `if pending` inside the lock; helper form: `if pending [and nobody queued on the send lock]`
                #  before the call, the helper re-tests inside the lock)
                want_read_flushes = ("if self._write_bio.pending" in body_txt and has_flush(body_txt) and
                                     flush_pos(body_txt) < body_txt.index("readinto"))
                ok = len(inner.handlers) == 1 and not inner.finalbody and not inner.orelse
                if ok:
                    ih = inner.handlers[0]
                    calls = _calls(ih.body)
                    ok = (calls == ["self._read_bio.write_eof()", "self._write_bio.write_eof()", "raise"])
                    inner_catch = t.resolve(ih.type)
                if ok and len(h.body) == 1:
                    act = ".wantRead"
            elif inner is None and (INLINE in txt or (helper_ok and HELPER + "even_if_empty=True)" in txt)) and "readinto" not in txt \
                    and "write_eof" not in txt and len(h.body) == 1:
                act = ".wantWrite"
            elif _calls(h.body) == ["self._read_bio.write_eof()", "self._write_bio.write_eof()", "raise"]:
                act = ".markEofReraise"
            retry_clauses.append("([" + ", ".join("." + lname(c) for c in cl) + "], " + act + ")")
        # else branch
        orelse = tr.orelse
        if not orelse or not isinstance(orelse[-1], ast.Return):
            t.problems.append("_retry_ssl_method: unexpected else branch")
        else:
            pre = orelse[:-1]
            if len(pre) == 1 and isinstance(pre[0], ast.If) and not pre[0].orelse \
                    and has_flush(ast.unparse(pre[0])):
                test = ast.unparse(pre[0].test)
                if test == "ssl_object_method != self._ssl_object.read":
                    no_flush_after = ["read"]
                else:
                    t.problems.append(f"_retry_ssl_method: unsupported else-branch condition {test!r}")
            elif len(pre) == 1 and (isinstance(pre[0], ast.AsyncWith) or isinstance(pre[0], ast.Expr)) \
                    and has_flush(ast.unparse(pre[0])):
                no_flush_after = []
            elif not pre:
                no_flush_after = ["handshake", "read", "unwrap"]
            else:
                t.problems.append("_retry_ssl_method: unsupported else branch")
    # ---------------- readinto
    f = t.func("tls", "_IncomingDataReader", "readinto")
    readinto_eof = False
    if f is not None:
        top = _calls(f.body)
        readinto_eof = "read_bio.write_eof()" in top and top and top[-1] == "return 0" and \
            isinstance(f.body[0], ast.If) and "> 0" in ast.unparse(f.body[0].test)

    # ---------------- recv / recv_into
    recv_cl = t.clauses(Tr.first_try(t.func("tls", "AsyncTLSStreamTransport", "recv"), "self._ssl_object.read"), "recv")
    recv_into_cl = t.clauses(Tr.first_try(t.func("tls", "AsyncTLSStreamTransport", "recv_into"), "self._ssl_object.read"),
                             "recv_into")

    # ---------------- aclose
    f = t.func("tls", "AsyncTLSStreamTransport", "aclose")
    aclose_swallow: list[type] = []
    aclose_flush_on: list[type] = []
    aclose_flush_suppress: list[type] = []
    aclose_unwraps = aclose_guard = aclose_force = aclose_final = aclose_marks = aclose_flush = False
    if f is not None:
        guard_if = next((n for n in ast.walk(f) if isinstance(n, ast.If) and "unwrap" in ast.unparse(n)
                         and "_standard_compatible" in ast.unparse(n.test)), None)
        for n in ast.walk(f):
            if isinstance(n, ast.Try) and len(n.body) == 1 and \
                    ast.unparse(n.body[0]) == "await self._retry_ssl_method(self._ssl_object.unwrap)":
                aclose_unwraps = True
                # two shapes are understood:
                #   except OSError: pass
                # and (the close_notify produced by a FAILING unwrap() is flushed before the error is dropped)
                #   except SSLError:
                #       with contextlib.suppress(OSError):
                #           await self.__flush_pending_writes()
                #   except OSError: pass
                hs = list(n.handlers)
                if len(hs) == 2 and not n.finalbody and not n.orelse and _calls(hs[1].body) == ["pass"]:
                    fl = _flush_clause(hs[0])
                    if fl is None or not helper_ok:
                        t.problems.append("aclose: first handler around the unwrap is not "
                                          "`with contextlib.suppress(<classes>): await self.__flush_pending_writes()`")
                    else:
                        aclose_flush = True
                        aclose_flush_on = t.resolve(hs[0].type)
                        aclose_flush_suppress = t.resolve(fl)
                    aclose_swallow = t.resolve(hs[1].type)
                elif len(hs) == 1 and _calls(hs[0].body) == ["pass"] and not n.finalbody and not n.orelse:
                    aclose_swallow = t.resolve(hs[0].type)
                else:
                    t.problems.append("aclose: unexpected handlers around the unwrap")
        if guard_if is not None:
            aclose_guard = ast.unparse(guard_if.test) == "self._standard_compatible and (not self._transport.is_closing())"
            if not aclose_guard:
                t.problems.append(f"aclose: unexpected guard {ast.unparse(guard_if.test)!r}")
            outer = next((n for n in ast.walk(guard_if) if isinstance(n, ast.Try) and any(isinstance(b, ast.Try) for b in n.body)), None)
            if outer is not None:
                calls = _calls(outer.body)
                aclose_marks = calls[-2:] == ["self._read_bio.write_eof()", "self._write_bio.write_eof()"]
                aclose_force = len(outer.handlers) == 1 and outer.handlers[0].type is not None and \
                    ast.unparse(outer.handlers[0].type) == "BaseException" and \
                    _calls(outer.handlers[0].body) == ["await aclose_forcefully(self._transport)", "raise"]
        elif aclose_unwraps:
            aclose_guard = False
        withs = [n for n in ast.walk(f) if isinstance(n, ast.With) and "ExitStack" in ast.unparse(n.items[0])]
        if withs:
            aclose_final = ast.unparse(withs[0].body[-1]) == "await self._transport.aclose()"
    info["aclose"] = dict(unwraps=aclose_unwraps, guard=aclose_guard, force=aclose_force, final=aclose_final, marks=aclose_marks,
                          flushes_on_ssl_error=aclose_flush)

    # ---------------- blocking transport
    f = t.func("socket", "SSLStreamTransport", "__init__")
    suppress = ".unknown"
    if f is not None:
        call = next((n for n in ast.walk(f) if isinstance(n, ast.Call) and ast.unparse(n.func).endswith(".wrap_socket")), None)
        if call is None:
            t.problems.append("SSLStreamTransport.__init__: wrap_socket call not found")
        else:
            kw = next((k for k in call.keywords if k.arg == "suppress_ragged_eofs"), None)
            if kw is None:
                suppress = "(.const true)"      # the stdlib default
            else:
                txt = ast.unparse(kw.value)
                suppress = {"not standard_compatible": ".notSC", "standard_compatible": ".sc", "True": "(.const true)",
                            "False": "(.const false)"}.get(txt, ".unknown")
        # `standard_compatible = bool(standard_compatible)` is the only rebinding allowed before the call
    try_ssl = t.clauses(Tr.first_try(t.func("socket", "SSLStreamTransport", "_try_ssl_method"), "socket_method("), "_try_ssl_method")
    sync_recv = t.clauses(Tr.first_try(t.func("socket", "SSLStreamTransport", "recv_noblock"), "self.__socket.recv"), "recv_noblock")
    sync_recv_into = t.clauses(Tr.first_try(t.func("socket", "SSLStreamTransport", "recv_noblock_into"), "self.__socket.recv_into"),
                               "recv_noblock_into")
    f = t.func("socket", "SSLStreamTransport", "close")
    sync_swallow: list[type] = []
    sync_unwraps = sync_finally = False
    trc = Tr.first_try(f)
    if trc is None:
        t.problems.append("SSLStreamTransport.close: no try statement")
    else:
        if len(trc.body) == 1 and isinstance(trc.body[0], ast.If) and not trc.body[0].orelse:
            test = ast.unparse(trc.body[0].test)
            body = "\n".join(_calls(trc.body[0].body))
            sync_unwraps = (test == "self.__standard_compatible and self.__socket.fileno() >= 0" and
                            "self._try_ssl_method(self.__socket.unwrap)" in body and "self._retry(" in body)
        for h in trc.handlers:
            if _calls(h.body) == ["pass"]:
                sync_swallow += t.resolve(h.type)
            else:
                t.problems.append("SSLStreamTransport.close: handler body is not `pass`")
        sync_finally = any("_close_stream_socket(self.__socket)" in c or "self.__socket.close()" in c for c in _calls(trc.finalbody))

    # ---------------- clients
    clients: list[str] = []
    opt_names: set[str] = {"OP_IGNORE_UNEXPECTED_EOF"}
    for key, cls in (("tcp", "TCPNetworkClient"), ("async_tcp", "AsyncTCPNetworkClient")):
        f = t.func(key, cls, "__init__")
        if f is None:
            continue
        found = _find_with_guards(f, lambda n: isinstance(n, ast.If) and ast.unparse(n.test) == "isinstance(ssl, bool)")
        if found is None:
            t.problems.append(f"{cls}.__init__: `if isinstance(ssl, bool):` not found")
            continue
        node, guards = found
        stmts = []
        for s in node.body:
            txt = ast.unparse(s)
            if isinstance(s, ast.Assign) and txt == "ssl = _ssl_module.create_default_context()":
                stmts.append(".createDefault")
            elif isinstance(s, ast.Assert):
                continue
            elif isinstance(s, ast.If) and _calls(s.body) == ["ssl.check_hostname = False"] and not s.orelse:
                stmts.append(".checkHostnameOff")
            elif isinstance(s, ast.With) and ast.unparse(s.items[0].context_expr) == "contextlib.suppress(AttributeError)" \
                    and len(s.body) == 1 and isinstance(s.body[0], ast.AugAssign):
                stmts.append(_optstmt(s.body[0], opt_names))
            elif isinstance(s, ast.AugAssign):
                stmts.append(_optstmt(s, opt_names))
            else:
                stmts.append(".other")
        gl = "[" + ", ".join(_lstr(g) for g in guards + ["isinstance(ssl, bool)"]) + "]"
        clients.append(f"⟨{_lstr(key)}, {gl}, [" + ", ".join(stmts) + "]⟩")

    # ---------------- emit
    classes = sorted(set(t.classes), key=qname)
    L: list[str] = []
    L.append("/-")
    L.append("  GENERATED by harness/vlib/c09_translate.py from /repo's current source on every C09 check run — do not edit.")
    L.append("  Exception classes involved in the TLS end-of-stream logic, their live subclass relation, and the table-like parts of")
    L.append("  tls.py / socket.py / _utils.py / clients (except clauses, match cases, keyword expressions) read from the AST.")
    L.append("-/")
    L.append("import EasyNet.Model.TlsEof")
    L.append("namespace EasyNet.Gen.TlsEof")
    L.append("open EasyNet.TlsEof")
    L.append("")
    L.append("inductive TExc where")
    for c in classes:
        L.append(f"  | {lname(c)}")
    L.append("  deriving DecidableEq, Repr")
    L.append("")
    L.append("def TExc.name : TExc → String")
    for c in classes:
        L.append(f"  | .{lname(c)} => {_lstr(qname(c))}")
    L.append("")
    L.append("def allExc : List TExc := [" + ", ".join("." + lname(c) for c in classes) + "]")
    L.append("")
    L.append("/-- strict and reflexive `issubclass` pairs, from the live interpreter -/")
    L.append("def supers : TExc → List TExc")
    for c in classes:
        sup = [d for d in classes if issubclass(c, d)]
        L.append(f"  | .{lname(c)} => [" + ", ".join("." + lname(d) for d in sup) + "]")
    L.append("")
    L.append("def sub (a b : TExc) : Bool := (supers a).contains b")
    L.append("")
    L.append("def optBit : String → Option Nat")
    for name in sorted(opt_names):
        v = getattr(ssl, name, None)
        if isinstance(v, int) and v > 0 and v & (v - 1) == 0:
            L.append(f"  | {_lstr(name)} => some {int(v).bit_length() - 1}")
    L.append("  | _ => none")
    L.append("")
    L.append("def problems : List String := [" + ", ".join(_lstr(p) for p in t.problems) + "]")
    L.append("")
    L.append("def noFlushAfter : List Method := [" + ", ".join("." + m for m in no_flush_after) + "]")
    L.append("")
    L.append("def tables : Tables TExc where")
    L.append("  sub := sub")
    L.append("  sslError := .ssl_SSLError")
    L.append("  zeroReturn := .ssl_SSLZeroReturnError")
    L.append("  wantReadCls := .ssl_SSLWantReadError")
    L.append("  wantWriteCls := .ssl_SSLWantWriteError")
    L.append("  eofError := .ssl_SSLEOFError")
    L.append("  osError := .builtins_OSError")
    L.append("  timeoutError := .builtins_TimeoutError")
    L.append("  eofCases := [" + ", ".join(eof_cases) + "]")
    L.append(f"  eofDefault := {eof_default}")
    L.append("  retryClauses := [" + ", ".join(retry_clauses) + "]")
    L.append("  retryInnerCatch := [" + ", ".join("." + lname(c) for c in inner_catch) + "]")
    L.append(f"  readintoEofOnZero := {str(bool(readinto_eof)).lower()}")
    L.append(f"  wantReadFlushes := {str(bool(want_read_flushes)).lower()}")
    L.append("  noFlushAfter := noFlushAfter")
    L.append(f"  recvClauses := {recv_cl}")
    L.append(f"  recvIntoClauses := {recv_into_cl}")
    L.append("  acloseSwallow := [" + ", ".join("." + lname(c) for c in aclose_swallow) + "]")
    L.append(f"  acloseFlushesOnSslError := {str(aclose_flush).lower()}")
    L.append("  acloseFlushOn := [" + ", ".join("." + lname(c) for c in aclose_flush_on) + "]")
    L.append("  acloseFlushSuppress := [" + ", ".join("." + lname(c) for c in aclose_flush_suppress) + "]")
    L.append(f"  acloseUnwraps := {str(aclose_unwraps).lower()}")
    L.append(f"  acloseGuardSC := {str(aclose_guard).lower()}")
    L.append(f"  acloseMarksEof := {str(aclose_marks).lower()}")
    L.append(f"  acloseForceOnFail := {str(aclose_force).lower()}")
    L.append(f"  acloseFinalClose := {str(aclose_final).lower()}")
    L.append(f"  suppressRagged := {suppress}")
    L.append(f"  trySslClauses := {try_ssl}")
    L.append(f"  syncRecvClauses := {sync_recv}")
    L.append(f"  syncRecvIntoClauses := {sync_recv_into}")
    L.append("  syncCloseSwallow := [" + ", ".join("." + lname(c) for c in sync_swallow) + "]")
    L.append(f"  syncCloseUnwraps := {str(sync_unwraps).lower()}")
    L.append(f"  syncCloseFinally := {str(sync_finally).lower()}")
    L.append("  clientCtx := [" + ",\n    ".join(clients) + "]")
    L.append("  optIgnoreEofBit := optBit \"OP_IGNORE_UNEXPECTED_EOF\"")
    L.append("  problems := problems")
    L.append("")
    L.append("end EasyNet.Gen.TlsEof")
    info["problems"] = list(t.problems)
    info["classes"] = [qname(c) for c in classes]
    return "\n".join(L) + "\n", info


def _flush_clause(h: ast.ExceptHandler) -> ast.AST | None:
    """`with contextlib.suppress(<classes>): await self.__flush_pending_writes()` as the whole body of an except handler:
    returns the class expression given to `suppress` (a Tuple node when several), None when the body is anything else"""
    if len(h.body) != 1 or not isinstance(h.body[0], ast.With):
        return None
    w = h.body[0]
    if len(w.items) != 1 or w.items[0].optional_vars is not None:
        return None
    ce = w.items[0].context_expr
    if not (isinstance(ce, ast.Call) and ast.unparse(ce.func) == "contextlib.suppress" and ce.args and not ce.keywords):
        return None
    if _calls(w.body) != ["await self.__flush_pending_writes()"]:
        return None
    return ce.args[0] if len(ce.args) == 1 else ast.Tuple(elts=list(ce.args), ctx=ast.Load())


def _lstr(s: str) -> str:
    return '"' + s.replace("\\", "\\\\").replace('"', '\\"') + '"'


def _optstmt(s: ast.AugAssign, names: set[str]) -> str:
    tgt = ast.unparse(s.target)
    if tgt != "ssl.options":
        return ".other"
    if isinstance(s.op, ast.BitAnd) and isinstance(s.value, ast.UnaryOp) and isinstance(s.value.op, ast.Invert) \
            and isinstance(s.value.operand, ast.Attribute) and ast.unparse(s.value.operand.value) == "_ssl_module":
        names.add(s.value.operand.attr)
        return f"(.clearOption {_lstr(s.value.operand.attr)})"
    if isinstance(s.op, ast.BitOr) and isinstance(s.value, ast.Attribute) and ast.unparse(s.value.value) == "_ssl_module":
        names.add(s.value.attr)
        return f"(.setOption {_lstr(s.value.attr)})"
    return ".other"


def _find_with_guards(root: ast.AST, pred) -> tuple[ast.If, list[str]] | None:
    """first node satisfying pred, with the tests of the enclosing `if`s (only when reached through their `body`)"""
    def go(node: ast.AST, guards: list[str]):
        if pred(node):
            return node, guards
        if isinstance(node, ast.If):
            for ch in node.body:
                r = go(ch, guards + [ast.unparse(node.test)])
                if r:
                    return r
            for ch in node.orelse:
                r = go(ch, guards + ["not (" + ast.unparse(node.test) + ")"])
                if r:
                    return r
            return None
        for ch in ast.iter_child_nodes(node):
            r = go(ch, guards)
            if r:
                return r
        return None
    return go(root, [])


_last_info: dict[str, Any] = {}


def translate() -> bool:
    text, info = build()
    _last_info.clear()
    _last_info.update(info)
    return core.write_if_changed(GEN, text)
