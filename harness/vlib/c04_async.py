"""
Oracle-only C04 cases on the parts that are exercised but not modelled: the kernel's send buffer, OpenSSL's record
writer and asyncio's transport write.

  kind = "realsock"  real SocketStreamTransport (with / without sendmsg) over a real socketpair, chunk lists whose total
                     exceeds the socket buffer, a peer thread that reads in bursts (real EAGAIN + real poll)
  kind = "openssl"   real SSLStreamTransport + real OpenSSL over a socketpair, peer thread = blocking SSL server
  kind = "atls"      AsyncTLSStreamTransport.wrap on both ends of an in-memory AsyncStreamTransport pair that fragments
                     reads at random (write backlog `__write_all_to_ssl_object`, flushes)
  kind = "aio"       AsyncioTransportStreamSocketAdapter (writelines + drain) over a socketpair

Every chunk is handed over as a buffer of the kind named in case["kinds"] (vlib/c04_bufs.mk_buffer: bytes, bytearray, views
of bytes / bytearray / array("H"|"I"|"Q") — itemsize 2/4/8 —, shaped casts — two dimensions —, slices); entry "all" hands
the whole data as ONE buffer of kind case["allkind"] to send_all().  Chunks of 70 000 / 300 000 bytes with a slow peer give
real partial writes of the kernel / OpenSSL / asyncio's transport in the middle of such a buffer.  "sndbuf": SO_SNDBUF of the
sending socket (small = the first write of a big buffer is always partial, whatever the peer does).

Judged by behaviour only: the peer reads exactly the concatenation of the BYTES of the buffers and the call returns (a call
that is still running after the generous watchdog delay is reported as `out hang`).  No wall-clock thresholds otherwise.
"""
from __future__ import annotations

import asyncio
import math
import random
import socket
import ssl
import threading
from collections import deque
from pathlib import Path
from typing import Any

from vlib import core

CERTS = Path(__file__).resolve().parent / "certs"
WATCHDOG = 20.0


def _contexts():
    sctx = ssl.SSLContext(ssl.PROTOCOL_TLS_SERVER)
    sctx.load_cert_chain(str(CERTS / "c04_cert.pem"), str(CERTS / "c04_key.pem"))
    cctx = ssl.SSLContext(ssl.PROTOCOL_TLS_CLIENT)
    cctx.check_hostname = False
    cctx.verify_mode = ssl.CERT_NONE
    return sctx, cctx


def _chunks(case: dict) -> list[bytes]:
    out = []
    for spec in case["chunks"]:
        if isinstance(spec, list):   # [length, first byte] : long deterministic chunk
            n, b0 = spec
            rot = bytes(range(256))[b0 % 256:] + bytes(range(256))[:b0 % 256]     # byte i = (b0 + i) % 256
            out.append((rot * (n // 256 + 1))[:n])
        else:
            out.append(bytes.fromhex(spec) if spec != "-" else b"")
    return out


def _bufs(case: dict) -> list[Any]:
    """the chunks as buffers of the kinds the case names"""
    from vlib import c04_bufs

    kinds = case.get("kinds") or []
    return [c04_bufs.mk_buffer(c, kinds[i] if i < len(kinds) else "b") for i, c in enumerate(_chunks(case))]


def _whole(case: dict) -> Any:
    from vlib import c04_bufs

    return c04_bufs.mk_buffer(b"".join(_chunks(case)), case.get("allkind", "b"))


def _sndbuf(case: dict, sock: socket.socket) -> None:
    if case.get("sndbuf"):
        sock.setsockopt(socket.SOL_SOCKET, socket.SO_SNDBUF, int(case["sndbuf"]))


def _digest_line(b: bytes) -> str:
    import hashlib

    return f"wire len={len(b)} sha1={hashlib.sha1(b).hexdigest()[:16]}" if len(b) > 64 else f"wire {core.hexs(b)}"


def _outcome(exc: BaseException | None) -> str:
    if exc is None:
        return "out ok"
    if isinstance(exc, TimeoutError):
        return "out timeout"
    return f"out exc {type(exc).__name__}"


def _serializer():
    from props import c04

    return c04._serializer()


# ---------------------------------------------------------------------------------------------------------------
# blocking transports with a peer thread
# ---------------------------------------------------------------------------------------------------------------

def _run_threaded(case: dict) -> list[str]:
    from easynetwork.lowlevel.api_sync.endpoints.stream import StreamEndpoint
    from easynetwork.lowlevel.api_sync.transports.socket import SocketStreamTransport, SSLStreamTransport
    from easynetwork.protocol import StreamProtocol
    from vlib import c04_env as env

    chunks = _chunks(case)
    bufs = _bufs(case)
    total = sum(len(c) for c in chunks)
    rng = random.Random(case["seed"])
    a, b = socket.socketpair()
    _sndbuf(case, a)
    got = bytearray()
    peer_err: list[BaseException] = []
    is_tls = case["kind"] == "openssl"
    sctx, cctx = _contexts() if is_tls else (None, None)
    bursts = [rng.choice([1, 7, 100, 4096, 65536]) for _ in range(64)]

    def peer() -> None:
        try:
            conn: Any = sctx.wrap_socket(b, server_side=True) if is_tls else b
            conn.settimeout(WATCHDOG)
            i = 0
            while len(got) < total:
                data = conn.recv(min(bursts[i % len(bursts)], total - len(got)))
                i += 1
                if not data:
                    break
                got.extend(data)
        except BaseException as e:  # noqa: BLE001
            peer_err.append(e)

    th = threading.Thread(target=peer, daemon=True)
    th.start()
    result: dict[str, Any] = {}
    holder: dict[str, Any] = {}

    def sender() -> None:
        try:
            if is_tls:
                tr = SSLStreamTransport(a, cctx, 1.0, server_hostname="localhost", handshake_timeout=WATCHDOG,
                                        shutdown_timeout=1.0, standard_compatible=False)
            else:
                class _NoMsg(socket.socket):
                    @property
                    def sendmsg(self):  # type: ignore[override]
                        raise AttributeError("sendmsg")

                s = a if case["sendmsg"] else _NoMsg(a.family, a.type, a.proto, fileno=a.detach())
                holder["sock"] = s
                tr = SocketStreamTransport(s, 1.0)
            holder["tr"] = tr
            ep = StreamEndpoint(tr, StreamProtocol(_serializer()), 1024)
            tmo = case["timeout"]
            if case["entry"] == "packet":
                ep.send_packet(bufs, timeout=tmo)
            elif case["entry"] == "all":
                tr.send_all(_whole(case), math.inf if tmo is None else tmo)
            else:
                tr.send_all_from_iterable(iter(bufs), math.inf if tmo is None else tmo)
            result["exc"] = None
        except BaseException as e:  # noqa: BLE001
            result["exc"] = e

    st = threading.Thread(target=sender, daemon=True)
    st.start()
    st.join(WATCHDOG)
    lines: list[str] = []
    if st.is_alive():
        lines.append(_digest_line(bytes(got)))
        lines.append("out hang")
        return lines
    # the sender is done: closing our side first lets a peer that waits for bytes that were never sent see the end of the
    # stream at once (what is in the socket buffer stays readable)
    try:
        tr = holder.get("tr")
        if tr is not None:
            tr.close()
        else:
            a.close()
    except Exception:
        pass
    th.join(WATCHDOG)
    b.close()
    if peer_err:
        lines.append(f"peer-exc {type(peer_err[0]).__name__}")
    lines.append(_digest_line(bytes(got)))
    lines.append(_outcome(result.get("exc")))
    return lines


# ---------------------------------------------------------------------------------------------------------------
# asynchronous transports
# ---------------------------------------------------------------------------------------------------------------

def _mem_pair(backend, rng: random.Random):
    from easynetwork.lowlevel.api_async.transports.abc import AsyncStreamTransport

    class Pipe:
        def __init__(self) -> None:
            self.buf = bytearray()
            self.eof = False
            self.event = asyncio.Event()

    class MemTransport(AsyncStreamTransport):
        __slots__ = ("_in", "_out", "_closing", "sent")

        def __init__(self, inp: Pipe, out: Pipe) -> None:
            super().__init__()
            self._in, self._out = inp, out
            self._closing = False
            self.sent = 0

        async def aclose(self) -> None:
            self._closing = True
            self._out.eof = True
            self._out.event.set()
            await asyncio.sleep(0)

        def is_closing(self) -> bool:
            return self._closing

        def backend(self):
            return backend

        async def recv_into(self, buffer) -> int:
            while not self._in.buf and not self._in.eof:
                self._in.event.clear()
                await self._in.event.wait()
            if not self._in.buf:
                return 0
            with memoryview(buffer) as mv:
                n = min(len(mv), len(self._in.buf), rng.choice([1, 3, 17, 200, 4096, 1 << 20]))
                mv[:n] = self._in.buf[:n]
            del self._in.buf[:n]
            return n

        async def send_all(self, data) -> None:
            if self._closing:
                raise ConnectionAbortedError("closed")
            self._out.buf += bytes(data)
            self.sent += len(bytes(data))
            self._out.event.set()
            if rng.random() < 0.5:
                await asyncio.sleep(0)

        async def send_eof(self) -> None:
            self._out.eof = True
            self._out.event.set()

        @property
        def extra_attributes(self):
            return {}

    p1, p2 = Pipe(), Pipe()
    return MemTransport(p1, p2), MemTransport(p2, p1)


class _InjectingSSLObject:
    """the real ssl.SSLObject, except that chosen write() calls first report SSL_ERROR_WANT_WRITE / WANT_READ once
    (consuming nothing - OpenSSL's contract), as happens when the engine needs transport I/O in the middle of a
    send (renegotiation / key update).  Everything else is delegated."""

    def __init__(self, real: Any, plan: dict[int, str], kick: "asyncio.Event") -> None:
        self.__dict__["_real"] = real
        self.__dict__["_plan"] = dict(plan)
        self.__dict__["_kick"] = kick
        self.__dict__["_nwrite"] = 0
        self.__dict__["injected"] = 0

    def __getattr__(self, name: str) -> Any:
        return getattr(self._real, name)

    def __setattr__(self, name: str, value: Any) -> None:
        setattr(self._real, name, value)

    def read(self, *a: Any) -> Any:
        return self._real.read(*a)

    def write(self, data: Any) -> int:
        k = self._nwrite
        self.__dict__["_nwrite"] = k + 1
        what = self._plan.pop(k, None)
        if what == "wantw":
            self.__dict__["injected"] += 1
            raise ssl.SSLWantWriteError(ssl.SSL_ERROR_WANT_WRITE, "injected")
        if what == "wantr":
            self.__dict__["injected"] += 1
            self._kick.set()          # the peer will send one record, so that the read the transport now needs completes
            raise ssl.SSLWantReadError(ssl.SSL_ERROR_WANT_READ, "injected")
        return self._real.write(data)


class _InjectingContext:
    def __init__(self, ctx: ssl.SSLContext, plan: dict[int, str], kick: "asyncio.Event") -> None:
        self._ctx, self._plan, self._kick = ctx, plan, kick
        self.obj: _InjectingSSLObject | None = None

    def wrap_bio(self, *a: Any, **kw: Any) -> Any:
        self.obj = _InjectingSSLObject(self._ctx.wrap_bio(*a, **kw), self._plan, self._kick)
        return self.obj


async def _atls(case: dict) -> list[str]:
    from easynetwork.lowlevel.api_async.backend._asyncio.backend import AsyncIOBackend
    from easynetwork.lowlevel.api_async.transports.tls import AsyncTLSStreamTransport

    chunks = _chunks(case)
    bufs = _bufs(case)
    total = sum(len(c) for c in chunks)
    rng = random.Random(case["seed"])
    backend = AsyncIOBackend()
    ta, tb = _mem_pair(backend, rng)
    sctx, cctx = _contexts()
    kick = asyncio.Event()
    plan = {int(k): str(v) for k, v in (case.get("inject") or [])}
    if plan:
        cctx = _InjectingContext(cctx, plan, kick)  # type: ignore[assignment]
    client, server = await asyncio.gather(
        AsyncTLSStreamTransport.wrap(ta, cctx, server_hostname="localhost", handshake_timeout=WATCHDOG),
        AsyncTLSStreamTransport.wrap(tb, sctx, server_side=True, handshake_timeout=WATCHDOG),
    )
    got = bytearray()

    async def reader() -> None:
        while len(got) < total:
            data = await server.recv(rng.choice([1, 5, 64, 4096, 70000]))
            if not data:
                break
            got.extend(data)

    async def kicker() -> None:
        while True:
            await kick.wait()
            kick.clear()
            await server.send_all(b"k")

    exc: BaseException | None = None
    rd = asyncio.ensure_future(reader())
    kk = asyncio.ensure_future(kicker()) if plan else None
    try:
        if case["entry"] == "all":
            await client.send_all(_whole(case))
        elif case["entry"] == "packet":
            from easynetwork.lowlevel.api_async.endpoints.stream import AsyncStreamEndpoint
            from easynetwork.protocol import StreamProtocol

            await AsyncStreamEndpoint(client, StreamProtocol(_serializer()), max_recv_size=1024).send_packet(bufs)
        else:
            await client.send_all_from_iterable(iter(bufs))
        # the send returned: everything is in the in-memory pipe, the reader needs loop turns only, no time.
        # (load-independent criterion: bytes that have not arrived after this many turns were never sent)
        for _ in range(20000):
            if rd.done():
                break
            await asyncio.sleep(0)
        if rd.done():
            await rd
        else:
            rd.cancel()
    except BaseException as e:  # noqa: BLE001
        exc = e
        rd.cancel()
    finally:
        if kk is not None:
            kk.cancel()
    return [_digest_line(bytes(got)), _outcome(exc)]


async def _aio(case: dict) -> list[str]:
    from easynetwork.lowlevel.api_async.backend._asyncio.backend import AsyncIOBackend

    chunks = _chunks(case)
    bufs = _bufs(case)
    total = sum(len(c) for c in chunks)
    rng = random.Random(case["seed"])
    backend = AsyncIOBackend()
    a, b = socket.socketpair()
    _sndbuf(case, a)
    b.setblocking(False)
    loop = asyncio.get_running_loop()
    tr = await backend.wrap_stream_socket(a)
    got = bytearray()

    async def reader() -> None:
        while len(got) < total:
            data = await loop.sock_recv(b, rng.choice([1, 100, 4096, 65536]))
            if not data:
                break
            got.extend(data)
            if rng.random() < 0.3:
                await asyncio.sleep(0)

    exc: BaseException | None = None
    rd = asyncio.ensure_future(reader())
    try:
        if case["entry"] == "all":
            await tr.send_all(_whole(case))
        elif case["entry"] == "packet":
            from easynetwork.lowlevel.api_async.endpoints.stream import AsyncStreamEndpoint
            from easynetwork.protocol import StreamProtocol

            await AsyncStreamEndpoint(tr, StreamProtocol(_serializer()), max_recv_size=1024).send_packet(bufs)
        else:
            await tr.send_all_from_iterable(iter(bufs))
        # the send returned: the adapter's drain let it go, so every byte is in the kernel or already read; on a socketpair
        # delivery is synchronous: bytes that have not arrived after 300 quiet turns (250 of them 1 ms long) were never sent
        idle, last = 0, len(got)
        while not rd.done() and idle < 300:
            await asyncio.sleep(0.001 if idle > 50 else 0)
            idle = idle + 1 if len(got) == last else 0
            last = len(got)
        if rd.done():
            await rd
        else:
            rd.cancel()
    except BaseException as e:  # noqa: BLE001
        exc = e
        rd.cancel()
    # the transport must be able to finish: a close needs a handful of loop turns (nothing to wait for on a drained
    # socketpair), so a turn count is a load-independent criterion
    closer = asyncio.ensure_future(tr.aclose())
    for _ in range(5000):
        if closer.done():
            break
        await asyncio.sleep(0)
    close_line = "close ok" if closer.done() else "close hang"
    if not closer.done():
        closer.cancel()
    b.close()
    return [_digest_line(bytes(got)), _outcome(exc), close_line]


def _run_async(case: dict) -> list[str]:
    async def main() -> list[str]:
        coro = _atls(case) if case["kind"] == "atls" else _aio(case)
        try:
            return await asyncio.wait_for(coro, WATCHDOG)
        except asyncio.TimeoutError:
            return ["out hang"]

    return asyncio.run(main())


_hung: set[str] = set()


def run_real(case: dict) -> list[str]:
    if case["kind"] in ("realsock", "openssl"):
        from props import c04

        if case["kind"] == "realsock" and case["sendmsg"] and "-" in case["chunks"] and not c04.code_is_fixed():
            # unpatched adjust_leftover_buffer: the sender thread would spin for ever (finding F2, shown deterministically
            # by the scripted-socket cases); do not burn a core per case
            return ["skipped: known spin of the unpatched sendmsg loop (see scripted cases)"]
        if case["kind"] in _hung:
            return ["skipped: an earlier case of this kind is still spinning"]
        lines = _run_threaded(case)
        if "out hang" in lines:
            _hung.add(case["kind"])
        return lines
    return _run_async(case)


def oracle(case: dict, real: list[str]) -> str | None:
    data = b"".join(_chunks(case))
    exp = _digest_line(data)
    out = next((ln for ln in real if ln.startswith("out ")), None)
    wire = next((ln for ln in real if ln.startswith("wire ")), None)
    if real and real[0].startswith("skipped"):
        return None
    if "close hang" in real:
        return ("after the send returned the transport never finishes closing: the event loop busy-spins on an empty "
                "buffer left in the asyncio transport's write queue")
    if out == "out hang":
        return f"send of {len(data)} bytes in {len(case['chunks'])} chunks did not return within {WATCHDOG:.0f} s ({case['kind']})"
    if out != "out ok":
        return f"unexpected way of ending on a healthy connection: {out} ({real})"
    if wire != exp:
        return f"peer read {wire} instead of {exp}"
    return None


def nontrivial(case: dict, real: list[str]) -> str | None:
    from vlib import c04_bufs

    if real and real[0].startswith("skipped"):
        return None
    sizes = [len(c) for c in _chunks(case)]
    if case.get("entry") == "all":
        k = case.get("allkind", "b")
        wide = k in c04_bufs.WIDE_KINDS and c04_bufs.fits(k, sum(sizes)) and sum(sizes) > 0
    else:
        kinds = case.get("kinds") or []
        wide = any(k in c04_bufs.WIDE_KINDS and c04_bufs.fits(k, n) and n > 0 for k, n in zip(kinds, sizes))
    big = any(n >= 70000 for n in sizes)
    return case["kind"] + ("/wide" if wide else "") + ("/big" if big else "")


def _kind_case(kind: str, entry: str, chunks: list, kinds: list[str], allkind: str = "b", **kw: Any) -> dict:
    return {"kind": kind, "chunks": chunks, "kinds": kinds, "allkind": allkind, "seed": kw.pop("seed", 11), "entry": entry,
            "timeout": None, "sendmsg": True, **kw}


def corpus() -> list[dict]:
    """kinds of buffer on the real kernel / OpenSSL / asyncio: a buffer that fits the socket (complete write) and one that
    does not (partial writes in the middle of it, SO_SNDBUF 16 KiB), for every wide kind, through every entry point."""
    cs: list[dict] = []      # (the failing inputs of docs/C04-fix-4 / fix-5 themselves are in corpus/C04/buffer-kinds.json)
    from vlib import c04_bufs

    for kind in ("realsock", "openssl", "atls", "aio"):
        for bk in c04_bufs.WIDE_KINDS:
            cs.append(_kind_case(kind, "all", [[70000, 1]], ["b"], allkind=bk, sndbuf=16384, sendmsg=bk != "mvQ"))
            cs.append(_kind_case(kind, "iterable", ["6864", [70000, 2], "-", "0102030405060708"], ["b", bk, bk, bk], sndbuf=16384))
            cs.append(_kind_case(kind, "packet", [[5000, 3], "-", "0102030405060708"], [bk, bk, bk]))
    return cs


def array_bytes(fmt: str, n: int) -> bytes:
    import array

    return array.array(fmt, range(n)).tobytes()


def _fixed_inject_cases():
    """critical cases: SSLObject.write() reports WANT_WRITE / WANT_READ in the middle of a multi-chunk send and the
    method is retried with the same backlog: the chunk whose write was refused must be offered again, once"""
    base = {"kind": "atls", "kinds": ["b"] * 4, "entry": "iterable", "timeout": None, "sendmsg": True}
    ch = ["6161616161", "-", "6262626262", "63636363"]
    for k in range(5):
        for what in ("wantw", "wantr"):
            yield {**base, "chunks": ch, "seed": 1000 + k, "inject": [[k, what]]}
    yield {**base, "chunks": ch, "seed": 7, "inject": [[0, "wantw"], [1, "wantr"], [3, "wantw"]]}
    yield {**base, "chunks": ["616263"], "kinds": ["b"], "entry": "all", "seed": 8, "inject": [[0, "wantr"]]}


def generate(rng, tier: str, boost: int):
    yield from _fixed_inject_cases()
    n = (60 if tier == "quick" else 600) * min(boost, 2)
    for i in range(n):
        kind = ["realsock", "openssl", "atls", "aio"][i % 4]
        chunks: list[Any] = []
        for _ in range(rng.randint(0, 6)):
            r = rng.random()
            if r < 0.3:
                chunks.append("-")
            elif r < 0.8:
                chunks.append(bytes(rng.randrange(256) for _ in range(rng.choice([1, 2, 3, 4, 5, 7, 8, 8, 9, 16]))).hex())
            else:
                chunks.append([rng.choice([5000, 70000, 300000]), rng.randrange(256)])
        if rng.random() < 0.3:
            chunks.append("-")
        from vlib import c04_bufs

        sizes = [(c[0] if isinstance(c, list) else 0 if c == "-" else len(c) // 2) for c in chunks]
        kinds = []
        for n_ in sizes:
            k = rng.choice(("b", "b", "b") + c04_bufs.BUF_KINDS)
            kinds.append(k if c04_bufs.fits(k, n_) else "b")
        case = {"kind": kind, "chunks": chunks, "kinds": kinds, "seed": rng.randrange(1 << 30),
                "entry": rng.choice(["packet", "iterable", "iterable", "all"]),
                "allkind": rng.choice([k for k in c04_bufs.BUF_KINDS if c04_bufs.fits(k, sum(sizes))]),
                "timeout": rng.choice([None, WATCHDOG]), "sendmsg": rng.random() < 0.7}
        if rng.random() < 0.4:
            case["sndbuf"] = rng.choice([4096, 16384, 65536])
        if kind == "atls" and chunks and rng.random() < 0.6:
            idx = sorted(rng.sample(range(len(chunks) + 1), k=min(len(chunks) + 1, rng.randint(1, 2))))
            case["inject"] = [[k, rng.choice(["wantw", "wantr"])] for k in idx]
        yield case
