"""
C18: DETERMINISTIC widening of the ThreadsPortal hand-over windows (added after seeded change C18-m5 was missed).

Every cross-thread call of a standalone server (`is_serving()`, `shutdown()`, `server_close()`, `get_addresses()`, …) goes
through `ThreadsPortal.run_sync_soon()`: under the portal's lock the caller checks that the portal is running and
registers a waiter future, then (lock released) posts its callback with `loop.call_soon_threadsafe()`; the portal's
`__aexit__` takes the same lock to flip the "running" flag and then waits for every registered waiter.  The windows
between these steps are a few bytecodes wide: OS-schedule sampling never lands in them.  This module makes threads
stop AT those steps, at scripted points, without touching the library:

* `GLoop` — an `asyncio.SelectorEventLoop` subclass given through the public `runner_options={"loop_factory": …}`; it
  reports (and can hold a thread at) `create_future()` / `call_soon_threadsafe()` issued from a foreign thread, the
  return of each `run_until_complete()` of the runner (main coroutine, async generators, default executor) and `close()`;
* `GLock` — an RLock look-alike that the portal's `ForkSafeLock()` receives because `threading.RLock` is replaced for
  the duration of the `ThreadsPortal()` constructor call (and only for the constructing thread): reports / holds at
  "about to acquire", "acquired", "released"; it also knows its owner, so that a thread about to block on a lock whose
  owner is parked at a gate releases that owner at once (no time-out needed on the unchanged library);
* `GPortal` — a delegating `AbstractThreadsPortal` returned by the harness backend's `create_threads_portal()` (public
  `backend=` parameter): reports the beginning / the end of the real portal's `__aexit__` and can keep the portal open
  (asynchronously: the loop goes on running) until a caller has reached a given step.

Points (event names `<who>:<point>`; `<who>` = history thread index, or `L` for the event-loop thread):
    <i>:lk  <i>:lk+  <i>:ul        portal lock: about to acquire / acquired / released
    <i>:cf                          create_future() from thread i  (= "portal checked, waiter not yet registered")
    <i>:post  <i>:posted            call_soon_threadsafe() from thread i: before / after the callback is handed over
    <i>:ret  <i>:ret:<op>  <i>:call:<op>   harness events around thread i's calls;  `up`: a serve_forever is up
    <i>:pret                        a blocking portal call of thread i (run_sync / run_coroutine behind GPortal) is over
    L:entered  L:xb  L:xd           portal entered / portal exit about to begin / portal exit returned
    L:lk  L:lk+  L:ul               the exit taking / holding / having released the portal lock (flag flipped at L:ul)
    L:wait                          the loop thread created a future between L:xb and L:xd (it is about to wait: draining)
    L:r1 L:r2 L:r3                  run_until_complete() #n of the runner has returned (r3 = after the last loop iteration)
    L:close  L:closed               loop.close() about to run / done
    L:accfail                       the listener's accept() failed per script (see `acc` below)
A hold `{"at": "<who>:<point>", "n": k, "until": [events…], "until_all": [events…], "ms": t}` parks the thread at its k-th
arrival at that point until ANY of the `until` events has happened, or ALL of the `until_all` ones (or the
owner-of-a-contended-lock rule applies, or t ms have passed: holds only ever DELAY, so a missed rendez-vous changes the
schedule, never the verdict).

The tail of the tear-down (added after seeded change C18-m8): a hold of the LOOP thread at `L:xd` / `L:r1` / `L:r2` / `L:r3` /
`L:close` / `L:closed` with `until_all` = "the other threads have finished their calls" keeps the window "portal already
exited, serve_forever() still tearing down" open (for `ms` at most) while 1-3 threads call shutdown() / serve_forever() /
server_close() in it.  The `@g L:<point>#n held:<why>` line is logged by the loop thread when it moves on, i.e. BEFORE
serve_forever() can finish: a `ret` line of a shutdown() that precedes it is a shutdown() that returned too early.

`acc` (case key, standalone TCP): `acc[k]` = script for the successive `sock_accept()` calls of the k-th event loop the server
creates (one per serve_forever()): "ok" = the real call, an errno name = accept() fails with it (capacity errors: the
listener sleeps 100 ms — real time here — and retries); calls beyond the script are real.

Two kinds of histories use the gates:
* gated standalone-server histories (`GRun`, a subclass of c18_threads.Run; `"mode": "threads", "gated": 1`): the ordinary
  lifecycle ops plus `w:<ev>|<ev>…` (wait for an event, 3 s at most), `conn` / `disc` (persistent TCP client), `addrs`
  (`get_addresses()`); same lines, same oracle (c18.oracle_threads), same Lean trace admission;
* direct ThreadsPortal histories (`run_portal`, `"mode": "portal"`): `backend.create_threads_portal()` entered in a loop
  thread, caller threads issuing run_sync / run_sync_soon / run_coroutine / run_coroutine_soon while the portal exits
  (normally or with an exception); oracle c18.oracle_portal.

Watchdog discipline = c18_threads: WATCHDOG seconds per call; in addition, once the event loop has been CLOSED nothing
can complete a pending call any more: a call still pending DEAD_START seconds after that is reported at once.  Either
way the pool retries the history once, alone; only a reproduced hang is an observation.
"""
from __future__ import annotations

import asyncio
import concurrent.futures
import contextlib
import errno
import os
import socket
import sys
import threading
import time
import traceback
from typing import Any

HOLD_MS = 1000
W_WAIT = 3.0
_REAL_RLOCK = threading.RLock
_PATCH_GUARD = threading.Lock()


def _spec_ok(count: dict[str, int], spec: str) -> bool:
    """`a|b#2|c`: any of the alternatives has happened (`#n`: at least n times)"""
    for alt in spec.split("|"):
        name, _, n = alt.partition("#")
        if count.get(name, 0) >= (int(n) if n else 1):
            return True
    return False


class Engine:
    def __init__(self, holds: list[dict], log) -> None:
        self.cv = threading.Condition(_REAL_RLOCK())
        self.count: dict[str, int] = {}
        self.holds = [dict(h) for h in holds]
        self.log = log
        self.names: dict[int, str] = {}
        self.parked: dict[int, dict] = {}
        self.aparked = 0
        self.waiting = 0
        self.locks: list["GLock"] = []
        self.exit_begun = False
        self.in_exit = False              # between L:xb and L:xd
        self.closed_at: float | None = None
        self.lock_wrapped = False
        self.acc: list[list[str]] = []    # accept() scripts, one per event loop created (GLoop.sock_accept)
        self.n_loops = 0

    # ---- who
    def register(self, name: Any) -> None:
        self.names[threading.get_ident()] = str(name)

    def who(self) -> str:
        try:
            asyncio.get_running_loop()
            return "L"
        except RuntimeError:
            return self.names.get(threading.get_ident(), "X")

    # ---- events
    def fire(self, ev: str) -> int:
        with self.cv:
            n = self.count[ev] = self.count.get(ev, 0) + 1
            self.cv.notify_all()
            return n

    def sat_any(self, specs: list[str]) -> bool:
        return any(_spec_ok(self.count, s) for s in specs)

    def sat_all(self, specs: list[str]) -> bool:
        return all(_spec_ok(self.count, s) for s in specs)

    def wait_for(self, specs: list[str], timeout: float) -> bool:
        t_end = time.monotonic() + timeout
        with self.cv:
            self.waiting += 1
            try:
                while not self.sat_any(specs):
                    left = t_end - time.monotonic()
                    if left <= 0:
                        return False
                    self.cv.wait(min(left, 0.05))
                return True
            finally:
                self.waiting -= 1

    def busy(self) -> bool:
        return bool(self.parked) or self.waiting > 0 or self.aparked > 0

    def _match(self, ev: str, n: int) -> dict | None:
        for h in self.holds:
            if h.get("at") == ev and int(h.get("n", 1)) == n and not h.get("_used"):
                h["_used"] = True
                return h
        return None

    def _owns_contended(self, ident: int) -> bool:
        return any(lk._owner == ident and lk._nwait > 0 for lk in self.locks)

    def point(self, who: str, p: str) -> None:
        """thread `who` is at step `p`: count it, wake whoever waits for it, park here if a hold says so"""
        if who == "X":
            return
        ev = f"{who}:{p}"
        ident = threading.get_ident()
        with self.cv:
            n = self.count[ev] = self.count.get(ev, 0) + 1
            self.cv.notify_all()
            h = self._match(ev, n)
            if h is None:
                return
            self.parked[ident] = h
            t_end = time.monotonic() + h.get("ms", HOLD_MS) / 1000.0
            why = "timeout"
            try:
                while True:
                    if self.sat_any(h.get("until", [])) or (h.get("until_all") and self.sat_all(h["until_all"])):
                        why = "event"
                        break
                    if h.get("_abandon") or self._owns_contended(ident):
                        # this thread owns the portal lock and another thread is blocked on it: what it waits for
                        # cannot happen before it moves on
                        why = "lock-contended"
                        break
                    left = t_end - time.monotonic()
                    if left <= 0:
                        break
                    self.cv.wait(min(left, 0.05))
            finally:
                self.parked.pop(ident, None)
        self.log(f"@g {ev}#{n} held:{why}")

    async def apoint(self, who: str, p: str) -> None:
        """the same for the loop thread, without blocking the loop (the portal simply stays open a little longer)"""
        ev = f"{who}:{p}"
        with self.cv:
            n = self.count[ev] = self.count.get(ev, 0) + 1
            self.cv.notify_all()
            h = self._match(ev, n)
        if h is None:
            return
        t_end = time.monotonic() + h.get("ms", HOLD_MS) / 1000.0
        why = "timeout"
        self.aparked += 1
        try:
            while time.monotonic() < t_end:
                with self.cv:
                    if self.sat_any(h.get("until", [])) or (h.get("until_all") and self.sat_all(h["until_all"])):
                        why = "event"
                        break
                await asyncio.sleep(0.001)
        finally:
            self.aparked -= 1
        self.log(f"@g {ev}#{n} held:{why}")


class GLock:
    """what the portal's ForkSafeLock gets instead of a bare threading.RLock: the same lock, with its three steps reported"""

    def __init__(self, eng: Engine) -> None:
        self._eng = eng
        self._l = _REAL_RLOCK()
        self._owner: int | None = None
        self._depth = 0
        self._nwait = 0
        eng.locks.append(self)

    def acquire(self, blocking: bool = True, timeout: float = -1) -> bool:
        eng = self._eng
        me = threading.get_ident()
        who = eng.who()
        outer = self._owner != me
        if outer:
            eng.point(who, "lk")
            with eng.cv:
                self._nwait += 1
                eng.cv.notify_all()
        try:
            ok = self._l.acquire(blocking, timeout)
        finally:
            if outer:
                with eng.cv:
                    self._nwait -= 1
        if ok:
            self._depth += 1
            if self._depth == 1:
                self._owner = me
                eng.point(who, "lk+")
        return ok

    def release(self) -> None:
        who = self._eng.who()
        self._depth -= 1
        last = self._depth == 0
        if last:
            self._owner = None
        self._l.release()
        if last:
            self._eng.point(who, "ul")

    __enter__ = acquire

    def __exit__(self, *a: Any) -> None:
        self.release()


@contextlib.contextmanager
def portal_lock_factory(eng: Engine):
    """while a ThreadsPortal is being constructed by THIS thread, the first `threading.RLock()` it asks for (the one of
    its ForkSafeLock) is a GLock; every other request, from any thread, gets a real RLock"""
    me = threading.get_ident()
    given: list[int] = []

    def factory(*a: Any, **k: Any):
        if threading.get_ident() == me and not given and not a and not k:
            given.append(1)
            eng.lock_wrapped = True
            return GLock(eng)
        return _REAL_RLOCK(*a, **k)

    with _PATCH_GUARD:
        threading.RLock = factory  # type: ignore[assignment]
        try:
            yield
        finally:
            threading.RLock = _REAL_RLOCK  # type: ignore[assignment]


class GLoop(asyncio.SelectorEventLoop):
    eng: Engine

    def __init__(self, eng: Engine) -> None:
        super().__init__()
        self.eng = eng
        self._g_ruc = 0
        eng.closed_at = None
        k = eng.n_loops
        eng.n_loops = k + 1
        self._g_acc: list[str] = list(eng.acc[k]) if k < len(eng.acc) else []
        self._g_acc_calls = 0

    async def sock_accept(self, sock):  # type: ignore[override]
        k = self._g_acc_calls
        self._g_acc_calls = k + 1
        name = self._g_acc[k] if k < len(self._g_acc) else "ok"
        if name != "ok":
            e = getattr(errno, name)
            if self.eng.fire("L:accfail") == 1:
                self.eng.log(f"@acc {k} {name}")
            raise OSError(e, os.strerror(e))        # (as asyncio's own sock_accept: no suspension point before the error)
        return await super().sock_accept(sock)

    def _g_who(self) -> str:
        try:
            return "L" if asyncio.get_running_loop() is self else "X"
        except RuntimeError:
            return self.eng.names.get(threading.get_ident(), "X")

    def create_future(self):  # type: ignore[override]
        who = self._g_who()
        if who == "L":
            if self.eng.in_exit:
                self.eng.fire("L:wait")
        else:
            self.eng.point(who, "cf")
        return super().create_future()

    def call_soon_threadsafe(self, callback, *args, context=None):  # type: ignore[override]
        who = self._g_who()
        if who in ("L", "X"):
            return super().call_soon_threadsafe(callback, *args, context=context)
        self.eng.point(who, "post")
        try:
            return super().call_soon_threadsafe(callback, *args, context=context)
        finally:
            self.eng.point(who, "posted")

    def run_until_complete(self, future):  # type: ignore[override]
        try:
            return super().run_until_complete(future)
        finally:
            self._g_ruc += 1
            self.eng.point("L", f"r{self._g_ruc}")

    def close(self) -> None:
        if self.is_closed():
            return super().close()
        self.eng.point("L", "close")
        try:
            super().close()
        finally:
            self.eng.closed_at = time.monotonic()
            self.eng.point("L", "closed")


def _lib():
    from vlib import core  # noqa: F401
    from easynetwork.lowlevel.api_async.backend._asyncio.backend import AsyncIOBackend
    from easynetwork.lowlevel.api_async.backend.abc import ThreadsPortal as AbstractThreadsPortal
    return AsyncIOBackend, AbstractThreadsPortal


_CLS: dict[str, Any] = {}


def classes() -> dict[str, Any]:
    if _CLS:
        return _CLS
    AsyncIOBackend, AbstractThreadsPortal = _lib()

    class GPortal(AbstractThreadsPortal):
        """delegates everything to the real portal; only marks (and can delay, with the loop running) the exit"""
        __slots__ = ("inner", "eng")

        def __init__(self, inner: Any, eng: Engine) -> None:
            super().__init__()
            self.inner, self.eng = inner, eng

        async def __aenter__(self):
            await self.inner.__aenter__()
            self.eng.fire("L:entered")
            return self

        async def __aexit__(self, exc_type, exc_val, exc_tb):
            self.eng.exit_begun = True
            await self.eng.apoint("L", "xb")
            self.eng.in_exit = True
            try:
                return await self.inner.__aexit__(exc_type, exc_val, exc_tb)
            finally:
                self.eng.in_exit = False
                self.eng.point("L", "xd")

        def run_coroutine_soon(self, coro_func, /, *args, **kwargs):
            return self.inner.run_coroutine_soon(coro_func, *args, **kwargs)

        def run_coroutine(self, coro_func, /, *args, **kwargs):
            try:
                return self.inner.run_coroutine(coro_func, *args, **kwargs)
            finally:
                self.eng.fire(self.eng.who() + ":pret")

        def run_sync_soon(self, func, /, *args, **kwargs):
            return self.inner.run_sync_soon(func, *args, **kwargs)

        def run_sync(self, func, /, *args, **kwargs):
            try:
                return self.inner.run_sync(func, *args, **kwargs)
            finally:
                self.eng.fire(self.eng.who() + ":pret")

    class GBackend(AsyncIOBackend):
        def __init__(self, eng: Engine) -> None:
            super().__init__()
            self.g_eng = eng

        def create_threads_portal(self):  # type: ignore[override]
            self.g_eng.exit_begun = False
            with portal_lock_factory(self.g_eng):
                inner = super().create_threads_portal()
            return GPortal(inner, self.g_eng)

    _CLS.update(AsyncIOBackend=AsyncIOBackend, GPortal=GPortal, GBackend=GBackend)
    return _CLS


def dump_stacks(log) -> None:
    frames = sys._current_frames()
    for th in threading.enumerate():
        fr = frames.get(th.ident)
        if fr is None:
            continue
        st = traceback.extract_stack(fr)[-5:]
        log("@stack " + th.name + " " + " <- ".join(f"{os.path.basename(f.filename)}:{f.lineno}:{f.name}" for f in reversed(st)))


# ----------------------------------------------------------------------------------------------
# gated standalone-server histories
# ----------------------------------------------------------------------------------------------

def grun_class(T: Any) -> type:
    """T = the c18_threads module (the worker's __main__): GRun = its Run + gates"""
    Run = T.Run

    class GRun(Run):  # type: ignore[misc, valid-type]
        def server_options(self) -> dict:
            cls = classes()
            self.eng = Engine(self.case.get("holds", []), self.log)
            self.eng.acc = [list(x) for x in self.case.get("acc", [])]
            self.conns: dict[int, list[socket.socket]] = {}
            eng = self.eng
            return {"backend": cls["GBackend"](eng), "runner_options": {"loop_factory": lambda: GLoop(eng)}}

        def log(self, s: str) -> None:
            super().log(s)
            if s.startswith("@up "):
                self.eng.fire("up")
            elif s.startswith("@serve-exc "):
                self.eng.fire("serve-exc")      # a serve_forever ended with an unexpected exception: no `up` will follow it

        def busy(self) -> bool:
            return self.eng.busy()

        def dead_loop(self) -> tuple[int, str] | None:
            """the event loop has been closed for DEAD_START seconds and a call issued before that is still pending:
            nothing is left that could complete it"""
            at = self.eng.closed_at
            now = time.monotonic()
            if at is None or now - at < T.DEAD_START:
                return None
            pend = [(st[0] == "serve", st[1], i, st[0]) for i, st in list(self.state.items())
                    if st is not None and now - st[1] > T.DEAD_START]
            if pend:
                # (named after the oldest pending call that is not serve_forever itself; every stack is in the report)
                _, _, i, op = min(pend)
                return i, op
            return None

        def do(self, i: int, op: str) -> None:
            self.tls.i = i
            eng = self.eng
            eng.register(i)
            if op.startswith("w:"):
                specs = [op[2:]]
                if op[2:].split("#")[0] == "up":
                    specs.append("serve-exc")       # (do not sit out the 3 s for a server that has just failed to start)
                hit = eng.wait_for(specs, W_WAIT) and _spec_ok(eng.count, op[2:])
                self.log(f"@w {i} {op[2:]} hit={int(hit)}")
                return
            if op == "conn":
                self.conn(i)
                return
            if op == "disc":
                for s in self.conns.pop(i, []):
                    with contextlib.suppress(OSError):
                        s.close()
                self.log(f"@disc {i}")
                return
            if op == "addrs":
                self.state[i] = (op, time.monotonic())
                self.log(f"@x-call {i} addrs")
                out = "ok"
                try:
                    self.server.get_addresses()
                except BaseException as e:  # noqa: BLE001
                    out = "exc:" + type(e).__name__
                self.log(f"@x-ret {i} addrs {out}")
                self.state[i] = None
                eng.fire(f"{i}:ret")
                eng.fire(f"{i}:ret:addrs")
                return
            eng.fire(f"{i}:call:{op}")
            super().do(i, op)
            eng.fire(f"{i}:ret")
            eng.fire(f"{i}:ret:{op}")

        def conn(self, i: int) -> None:
            """a persistent TCP client: connected, one echo received (its handler task is attached to the server)"""
            ports = T.our_listeners(self.kind)
            res = "noaddr"
            if ports and self.kind == "tcp":
                s = socket.socket(socket.AF_INET, socket.SOCK_STREAM)
                try:
                    s.settimeout(T.ECHO_WAIT)
                    s.connect(("127.0.0.1", ports[0]))
                    s.sendall(b"ping\n")
                    buf = b""
                    while not buf.endswith(b"\n"):
                        d = s.recv(200)
                        if not d:
                            break
                        buf += d
                    res = "ok" if buf == self.reply else "garbled"
                except (OSError, socket.timeout):
                    res = "refused"
                if res == "ok":
                    self.conns.setdefault(i, []).append(s)
                else:
                    s.close()
            self.log(f"@conn {i} {res}")

        def run(self) -> list[str]:
            try:
                lines = super().run()
            finally:
                for ss in list(self.conns.values()):
                    for s in ss:
                        with contextlib.suppress(OSError):
                            s.close()
            lines.append(f"@g lockwrap={int(self.eng.lock_wrapped)}")
            return lines

    return GRun


# ----------------------------------------------------------------------------------------------
# direct ThreadsPortal histories
# ----------------------------------------------------------------------------------------------

PORTAL_OPS = ("sync", "sync_soon", "coro", "coro_soon", "coroS", "coroS_soon")


def run_portal(case: dict, watchdog: float, dead: float) -> list[str]:
    cls = classes()
    lines: list[str] = []
    llock = threading.Lock()

    def log(s: str) -> None:
        with llock:
            lines.append(s)

    eng = Engine(case.get("holds", []), log)
    backend = cls["AsyncIOBackend"]()
    with portal_lock_factory(eng):
        portal = backend.create_threads_portal()
    progs: list[list[str]] = case["progs"]
    state: dict[Any, tuple[str, float] | None] = {}
    exit_mode = case.get("exit", "ok")
    exit_when = list(case.get("exit_when", []))
    exit_ms = case.get("exit_ms", 1500)
    post_hops = case.get("post_hops", 2)

    def value(i: int, k: int) -> int:
        return 100 * i + 7 * k + 1

    def f(i: int, k: int) -> int:
        log(f"run {i} {k}")
        return value(i, k)

    async def c(i: int, k: int, slow: bool) -> int:
        log(f"run {i} {k}")
        try:
            if slow:
                # a call that is still running when the portal exits: drained (normal exit) or cancelled (exit with an exception)
                while not eng.exit_begun:
                    await asyncio.sleep(0.001)
                for _ in range(3):
                    await asyncio.sleep(0)
            else:
                await asyncio.sleep(0)
        except asyncio.CancelledError:
            log(f"cancelled {i} {k}")
            raise
        log(f"done {i} {k}")
        return value(i, k)

    def caller(i: int) -> None:
        eng.register(i)
        for k, op in enumerate(progs[i]):
            if op.startswith("w:"):
                hit = eng.wait_for([op[2:]], W_WAIT)
                log(f"@w {i} {op[2:]} hit={int(hit)}")
                continue
            log(f"call {i} {op} {k}")
            state[i] = (op, time.monotonic())
            try:
                if op == "sync":
                    v = portal.run_sync(f, i, k)
                elif op == "sync_soon":
                    v = portal.run_sync_soon(f, i, k).result()
                elif op in ("coro", "coroS"):
                    v = portal.run_coroutine(c, i, k, op == "coroS")
                elif op in ("coro_soon", "coroS_soon"):
                    v = portal.run_coroutine_soon(c, i, k, op == "coroS_soon").result()
                else:
                    raise ValueError("unknown-op")
                out = f"ok:{v}"
            except concurrent.futures.CancelledError:
                out = "Cancelled"
            except RuntimeError as e:
                out = "RuntimeError" if type(e) is RuntimeError else "exc:" + type(e).__name__
            except BaseException as e:  # noqa: BLE001
                out = "exc:" + type(e).__name__
            state[i] = None
            log(f"ret {i} {out}")
            eng.fire(f"{i}:ret")

    class Boom(Exception):
        pass

    async def main() -> None:
        try:
            async with portal:
                log("entered")
                eng.fire("L:entered")
                t_end = time.monotonic() + exit_ms / 1000.0
                while not eng.sat_all(exit_when) and time.monotonic() < t_end:
                    await asyncio.sleep(0.001)
                eng.exit_begun = True
                state["L"] = ("portal-exit", time.monotonic())
                log("xb")
                await eng.apoint("L", "xb")
                eng.in_exit = True
                if exit_mode == "exc":
                    raise Boom
        except Boom:
            pass
        except BaseExceptionGroup as eg:
            # (asyncio.TaskGroup, which the portal is built on, hands the body's exception back inside a group)
            if eg.split(Boom)[1] is not None:
                raise
        finally:
            eng.in_exit = False
            log("xd")
            state["L"] = None
            eng.point("L", "xd")
        # the loop goes on for a few iterations after the portal (as the embedded server's __aexit__ does)
        for _ in range(post_hops):
            await asyncio.sleep(0)

    def loop_thread() -> None:
        try:
            backend.bootstrap(main, runner_options={"loop_factory": lambda: GLoop(eng)})
        except BaseException as e:  # noqa: BLE001
            log(f"loop-exc {type(e).__name__}: {e}"[:200])
        log("loop-end")

    threads = [threading.Thread(target=caller, args=(i,), daemon=True, name=f"caller-{i}") for i in range(len(progs))]
    lt = threading.Thread(target=loop_thread, daemon=True, name="loop")
    start_when = case.get("start_when")
    for t in threads:
        t.start()
    if start_when:
        eng.wait_for(list(start_when), W_WAIT)
    lt.start()
    hang = None
    while any(t.is_alive() for t in threads + [lt]):
        now = time.monotonic()
        pend = [(i, st) for i, st in list(state.items()) if st is not None]
        for i, st in pend:
            if now - st[1] > watchdog:
                hang = (i, st[0])
        if eng.closed_at is None and not lt.is_alive() and lt.ident is not None:
            eng.closed_at = now          # the loop thread is gone (whatever the reason)
        at = eng.closed_at
        if hang is None and at is not None and now - at > dead:
            # the loop is closed: nothing can complete a pending call any more
            old = [(i, st) for i, st in pend if now - st[1] > dead]
            if old:
                hang = (old[0][0], old[0][1][0])
        if hang is not None:
            log(f"@hang {hang[0]} {hang[1]}")
            dump_stacks(log)
            break
        time.sleep(0.005)
    log("final")
    log(f"@g lockwrap={int(eng.lock_wrapped)}")
    with llock:
        return list(lines)
