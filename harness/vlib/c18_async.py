"""
C18, asynchronous servers: the REAL AsyncTCPNetworkServer / AsyncUDPNetworkServer (loopback sockets, port 0) on a
deterministic event loop (vlib/c10_vloop.VLoop: one `turn()` = one `_run_once`, select timeout 0, nothing ever blocks).

A case is a history:

    {"mode": "async", "kind": "tcp"|"udp", "progs": [[op, …], …], "sched": [[caller, hops] | [], …],
     "init_hops": h, "fac_hops": f}

* `progs[i]` is the call sequence of caller i: serve | shutdown | close | probe | activate (`server_activate()`) | aenter
  (`async with server:` entered, i.e. `__aenter__()`; the exit is a `close`) (lifecycle calls, each run as its own
  asyncio task), cancel:<j> (task.cancel() on caller j's serve_forever / server_activate task), echo (a fresh client
  connects, sends one line / datagram and waits for the echo), conn / disc (a persistent TCP client connects / disconnects),
  bye (TCP: a fresh client sends `bye`; the handler answers and CLOSES THE CONNECTION ITSELF with `client.aclose()`; the client
  closes its side only after the server's FIN: the server's side of the connection lingers in TIME_WAIT on the server's port;
  UDP: an echo), renew (the server object - which must have been closed: nothing listening, no call in progress, otherwise
  the op is skipped - is replaced by a NEW server object on the same address; lines `final closed=<b>` of the old object
  and `@renew`; every later call goes to the new object.  Histories with `renew` are oracle-only, each object's life
  judged on its own).
  `"port": "fixed"`: the server is bound to a FIXED port reserved for the history (vlib/c18_ports.py) instead of port 0.
  Histories with `activate` / `aenter` have several tasks inside `server_activate()` at once (activation lock contended);
  they are judged by the oracle only (the Lean machine has no activation lock: no trace admission for them).
  A caller issues its next call only when the previous one has returned (a caller inside serve_forever stays there).
* `sched` has one entry per loop turn: `[i, hops]` releases caller i's next call before that turn (the call's task
  first yields `hops` times with sleep(0): this moves the first segment of the call relative to the other wake-ups of
  the same turn), `[]` is a plain turn.  When the schedule is exhausted the remaining calls are released as soon as
  their caller is free; then the epilogue caller (index n) runs: quiet, shutdown, close, quiet.
* `acc` (optional, TCP): script for the successive `loop.sock_accept()` calls of the listener (the event loop is the harness's:
  nothing of the library is patched): "ok" = the real call, an errno name (EMFILE, ENFILE, ENOMEM, ENOBUFS = the capacity
  errors the listener answers with a 100 ms back-off sleep; ECONNABORTED … = retried at once) = `accept()` fails with it;
  calls beyond the script are real.  The loop's clock is virtual and frozen: a back-off sleep lasts until a caller's `tick`
  op (advance the clock by 110 ms) — so a stop issued meanwhile lands INSIDE the back-off; `echo` ticks by itself while it
  waits for its answer.  Extra lines `@acc <k> <errno>` (k-th accept call failed) and `@tick`.
* `init_hops`: suspension points inside the request handler's service_init (the close-guard window of serve_forever);
  `fac_hops`: loop turns for which the listener factory parks before binding (backend.create_tcp_listeners /
  create_udp_listeners of the harness backend, passed through the public `backend=` parameter);
  `fac_plan` (optional list): the k-th call of the listener factory parks for fac_plan[k] loop turns instead (calls
  beyond the list use fac_hops): a first activation that is slow and a second one that is fast, or the reverse.

Canonical lines, in the order the segments really executed:
    call <i> <op> / ret <i> <outcome>     logged inside the call's own task immediately before / after the real call
    cancel <j>  conn  disc                environment events
    flags <serving> <listening>           is_serving()/is_listening() read after a turn, when they changed, and at `quiet`
    quiet                                 nothing moved for 3 consecutive turns
    final closed=<b>                      every listener socket ever created has fileno() == -1
    @… lines                              extra observations for the oracle only (not given to the model)
"""
from __future__ import annotations

import asyncio
import errno
import logging
import os
import socket
import time
from typing import Any

from vlib import core  # noqa: F401  (sys.path for /repo/src)
from vlib.c10_vloop import VLoop

from easynetwork.exceptions import BusyResourceError, ServerAlreadyRunning, ServerClosedError
from easynetwork.lowlevel.api_async.backend._asyncio.backend import AsyncIOBackend
from easynetwork.protocol import DatagramProtocol, StreamProtocol
from easynetwork.serializers.line import StringLineSerializer
from easynetwork.servers.async_tcp import AsyncTCPNetworkServer
from easynetwork.servers.async_udp import AsyncUDPNetworkServer
from easynetwork.servers.handlers import AsyncDatagramRequestHandler, AsyncStreamRequestHandler

QUIET_LIMIT = 400
LIFECYCLE = ("serve", "shutdown", "close", "probe", "activate", "aenter")
ACTIVATORS = ("activate", "aenter")


class DetBackend(AsyncIOBackend):
    """the asyncio backend (public `backend=` parameter of the servers) with
    * a listener factory that parks for a scripted number of loop turns before the listeners are bound (`fac_hops`, or
      `fac_plan[k]` for the k-th call of the factory): the window in which `server_activate()` holds the activation
      lock and sits in the factory cancel scope.  (For a numeric host the stock resolver never suspends outside the
      cancel-shielded `gather`, so the factory would always take exactly two turns.)
    * a resolver that does not use a thread (numeric hosts only)"""

    fac_hops = 1
    fac_plan: tuple[int, ...] = ()
    fac_calls = 0

    async def _park(self) -> None:
        k = self.fac_calls
        self.fac_calls = k + 1
        for _ in range(self.fac_plan[k] if k < len(self.fac_plan) else self.fac_hops):
            await asyncio.sleep(0)

    async def create_tcp_listeners(self, *args, **kwargs):  # type: ignore[override]
        await self._park()
        return await super().create_tcp_listeners(*args, **kwargs)

    async def create_udp_listeners(self, *args, **kwargs):  # type: ignore[override]
        await self._park()
        return await super().create_udp_listeners(*args, **kwargs)

    async def getaddrinfo(self, host, port, family=0, type=0, proto=0, flags=0):  # type: ignore[override]
        return socket.getaddrinfo(host, port, family=family, type=type, proto=proto, flags=flags | socket.AI_NUMERICHOST)


class ALoop(VLoop):
    """VLoop whose `sock_accept()` — what the listener's accept loop awaits — fails per script"""

    def __init__(self, script: list[str], log) -> None:
        super().__init__()
        self.acc_script = list(script)
        self.acc_calls = 0
        self.acc_log = log

    async def sock_accept(self, sock):  # type: ignore[override]
        k = self.acc_calls
        self.acc_calls = k + 1
        name = self.acc_script[k] if k < len(self.acc_script) else "ok"
        if name != "ok":
            e = getattr(errno, name)
            self.acc_log(f"@acc {k} {name}")
            raise OSError(e, os.strerror(e))        # (as asyncio's own sock_accept: no suspension point before the error)
        return await super().sock_accept(sock)


BACKOFF_TICK = 0.11     # > constants.ACCEPT_CAPACITY_ERROR_SLEEP_TIME


class _TCPHandler(AsyncStreamRequestHandler):
    def __init__(self, hops: int, token: str = "") -> None:
        self.hops = hops
        self.token = token

    async def service_init(self, exit_stack, server) -> None:
        for _ in range(self.hops):
            await asyncio.sleep(0)

    async def handle(self, client):
        request = yield
        await client.send_packet(request + self.token)
        if request == "bye":
            await client.aclose()       # the server closes the connection first (FIN, not RST)


class _UDPHandler(AsyncDatagramRequestHandler):
    def __init__(self, hops: int, token: str = "") -> None:
        self.hops = hops
        self.token = token

    async def service_init(self, exit_stack, server) -> None:
        for _ in range(self.hops):
            await asyncio.sleep(0)

    async def handle(self, client):
        request = yield
        await client.send_packet(request + self.token)


def outcome_of(exc: BaseException | None) -> str:
    if exc is None:
        return "ok"
    if isinstance(exc, ServerClosedError):
        return "ServerClosedError"
    if isinstance(exc, ServerAlreadyRunning):
        return "ServerAlreadyRunning"
    if isinstance(exc, BusyResourceError):
        return "BusyResourceError"
    if isinstance(exc, asyncio.CancelledError):
        return "cancelled"
    return "exc:" + type(exc).__name__


class Run:
    def __init__(self, case: dict) -> None:
        logging.getLogger("easynetwork").setLevel(logging.CRITICAL)
        self.case = case
        self.kind = case["kind"]
        self.progs: list[list[str]] = [list(p) for p in case["progs"]]
        self.n = len(self.progs)
        self.lines: list[str] = []
        self.acc: list[str] = [str(x) for x in case.get("acc", [])] if case["kind"] == "tcp" else []
        self.loop = ALoop(self.acc, self.log) if self.acc else VLoop()
        self.tasks: dict[int, asyncio.Task] = {}
        self.cur_op: dict[int, str] = {}
        self.flags = (0, 0)
        self.socks: list[Any] = []
        self.port: int | None = None
        self.persistent: list[socket.socket] = []
        self.server: Any = None
        self.token = ":" + os.urandom(6).hex()     # never logged
        self.reply = ("ping" + self.token + "\n").encode()
        self.reservation: Any = None
        self.fixed_port = 0
        if case.get("port") == "fixed":
            from vlib import c18_ports
            self.reservation = c18_ports.reserve(self.kind)
            self.fixed_port = self.reservation.port
        self.reuse_logged = False

    def log(self, s: str) -> None:
        self.lines.append(s)

    # ---- server
    def make_server(self) -> None:
        be = DetBackend()
        be.fac_hops = int(self.case.get("fac_hops", 1))
        be.fac_plan = tuple(int(x) for x in self.case.get("fac_plan", ()))
        hops = int(self.case.get("init_hops", 0))

        async def mk():
            if self.kind == "tcp":
                return AsyncTCPNetworkServer("127.0.0.1", self.fixed_port, StreamProtocol(StringLineSerializer()),
                                             _TCPHandler(hops, self.token), backend=be)
            return AsyncUDPNetworkServer("127.0.0.1", self.fixed_port, DatagramProtocol(StringLineSerializer()),
                                         _UDPHandler(hops, self.token), backend=be)

        t = self.loop.create_task(mk())
        self.loop.turn()
        self.server = t.result()

    def closed_now(self) -> int:
        try:
            return int(all(p.fileno() == -1 for p in self.socks))
        except Exception:
            return 0

    def observe(self, force: bool = False) -> None:
        srv = self.server
        f = (int(srv.is_serving()), int(srv.is_listening()))
        if f[1]:
            try:
                for p in srv.get_sockets():
                    if all(p is not q for q in self.socks) and p.fileno() != -1 and all(p.fileno() != q.fileno() for q in self.socks):
                        self.socks.append(p)
                addrs = srv.get_addresses()
                if addrs:
                    self.port = addrs[0].port
                if self.fixed_port and self.socks and not self.reuse_logged:
                    # SO_REUSEADDR of the listening sockets as the public proxies show it (evidence only)
                    self.reuse_logged = True
                    vals = sorted({int(bool(p.getsockopt(socket.SOL_SOCKET, socket.SO_REUSEADDR))) for p in self.socks if p.fileno() != -1})
                    self.log("@reuseaddr reuseaddr=" + (",".join(map(str, vals)) or "na"))
            except Exception:
                pass
        if f != self.flags or force:
            self.flags = f
            self.log(f"flags {f[0]} {f[1]}")

    def turn(self) -> None:
        self.loop.turn()
        self.observe()

    def busy(self, i: int) -> bool:
        t = self.tasks.get(i)
        return t is not None and not t.done()

    # ---- calls
    async def _call(self, i: int, op: str, hops: int) -> None:
        for _ in range(hops):
            await asyncio.sleep(0)
        srv = self.server
        if op == "serve" and self.fixed_port:
            from vlib import c18_ports
            self.log("@port " + c18_ports.state_text(self.fixed_port, self.kind))
        self.log(f"call {i} {op}")
        exc: BaseException | None = None
        res = None
        try:
            if op == "serve":
                await srv.serve_forever()
            elif op == "shutdown":
                await srv.shutdown()
            elif op == "close":
                await srv.server_close()
            elif op == "activate":
                await srv.server_activate()
            elif op == "aenter":
                await srv.__aenter__()
            elif op == "probe":
                res = f"flags {int(srv.is_serving())} {int(srv.is_listening())}"
        except BaseException as e:  # noqa: BLE001 (the outcome is the observable)
            exc = e
        self.log(f"ret {i} {res if res is not None else outcome_of(exc)}")
        if op == "serve" and exc is not None and outcome_of(exc).startswith("exc:"):
            subs = [repr(x) for x in getattr(exc, "exceptions", ()) or ()]
            text = (f"{type(exc).__name__}({str(getattr(exc, 'message', ''))!r}: " + ", ".join(subs) + ")" if subs else repr(exc))
            if self.fixed_port:
                from vlib import c18_ports
                text += f" [fixed port {self.fixed_port}: {c18_ports.state_text(self.fixed_port, self.kind)}]"
            self.log(f"@serve-exc {i} " + text[:500].replace("\n", " "))
        if op == "shutdown":
            self.log(f"@ret-shutdown {i} serving={int(srv.is_serving())}")
        elif op == "close":
            self.log(f"@ret-close {i} closed={self.closed_now()} listening={int(srv.is_listening())}")

    def release(self, i: int, hops: int = 0) -> bool:
        """caller i issues its next call (if it is free and has one); returns True when something was done"""
        if i >= len(self.progs) or self.busy(i) or not self.progs[i]:
            return False
        op = self.progs[i].pop(0)
        if op in LIFECYCLE:
            self.cur_op[i] = op
            self.tasks[i] = self.loop.create_task(self._call(i, op, hops))
        elif op.startswith("cancel:"):
            j = int(op.split(":")[1])
            opj = self.cur_op.get(j)
            if self.busy(j) and (opj == "serve" or opj in ACTIVATORS) and any(ln == f"call {j} {opj}" for ln in self.lines):
                # only once the call has really started (its first segment ran)
                last_call = max(k for k, ln in enumerate(self.lines) if ln == f"call {j} {opj}")
                if not any(ln.startswith(f"ret {j} ") for ln in self.lines[last_call:]):
                    self.log(f"cancel {j}")
                    self.tasks[j].cancel()
        elif op == "tick":
            self.loop.advance(BACKOFF_TICK)
            self.log("@tick")
        elif op == "echo":
            self.echo()
        elif op == "bye":
            self.bye()
        elif op == "renew":
            self.renew()
        elif op == "conn":
            self.connect_persistent()
        elif op == "disc":
            self.disconnect_persistent()
        else:
            self.log(f"harness-exc unknown op {op}")
        return True

    # ---- clients
    def quiet(self) -> bool:
        calm = 0
        state = None
        for _ in range(QUIET_LIMIT):
            self.turn()
            st = (self.flags, tuple(sorted(i for i in self.tasks if self.busy(i))), len(self.lines))
            if not self.loop._ready and st == state:  # type: ignore[attr-defined]
                calm += 1
                if calm >= 3:
                    self.log("quiet")
                    self.observe(force=True)
                    return True
            else:
                calm = 0
            state = st
        self.log("stalled no-quiescence")
        return False

    def _try_recv(self, s: socket.socket, turns: int = 40) -> bytes | None | str:
        """run loop turns until the reply is there.  While is_serving() is true an answer is expected: then (and only
        then) keep polling in real time for a generous while, so that a loaded machine delivering loopback packets
        late cannot be mistaken for a server that does not answer."""
        buf = b""
        deadline = time.monotonic() + 8.0
        n = 0
        while True:
            n += 1
            self.turn()
            try:
                d = s.recv(200)
                if not d:
                    return "eof" if not buf else buf
                buf += d
                if buf.endswith(b"\n") or s.type == socket.SOCK_DGRAM:
                    return buf.rstrip(b"\n") + b"\n"
                continue
            except BlockingIOError:
                pass
            except (ConnectionError, OSError):
                return "reset"
            if self.acc and n % 6 == 0:
                self.loop.advance(BACKOFF_TICK)     # the accept loop may be in a back-off sleep: let it end
            if n >= turns:
                if not self.server.is_serving() and n >= turns + 5:
                    return None
                if time.monotonic() > deadline:
                    return None
                time.sleep(0.002)

    def echo(self) -> None:
        if not self.quiet():
            return
        if self.port is None:
            self.log("@echo noaddr")
            return
        if self.kind == "tcp":
            s = socket.socket(socket.AF_INET, socket.SOCK_STREAM)
            s.settimeout(5)
            try:
                s.connect(("127.0.0.1", self.port))
                if s.getsockname() == s.getpeername():      # TCP self-connection on a free ephemeral port
                    raise ConnectionRefusedError
            except (ConnectionError, OSError):
                s.close()
                self.log("@echo refused")
                return
            s.setblocking(False)
            try:
                s.send(b"ping\n")
                r = self._try_recv(s)
            except (ConnectionError, OSError):
                r = "reset"
            if r == self.reply:
                self.log("conn")
                self.log("@echo ok")
                s.close()
                self.log("disc")
                self.quiet_silent()
            else:
                self.log("@echo " + ("silent" if r is None else str(r if isinstance(r, str) else "garbled")))
                try:
                    s.setsockopt(socket.SOL_SOCKET, socket.SO_LINGER, b"\x01\x00\x00\x00\x00\x00\x00\x00")
                except OSError:
                    pass
                s.close()
                self.quiet_silent()
        else:
            s = socket.socket(socket.AF_INET, socket.SOCK_DGRAM)
            s.setblocking(False)
            try:
                s.bind(("127.0.0.1", 0))
                if s.getsockname()[1] == self.port:          # would talk to itself
                    s.close()
                    s = socket.socket(socket.AF_INET, socket.SOCK_DGRAM)
                    s.setblocking(False)
                    s.bind(("127.0.0.1", 0))
                s.connect(("127.0.0.1", self.port))
                s.send(b"ping\n")
                r = self._try_recv(s, 30)
            except (ConnectionError, OSError):
                r = "reset"
            self.log("@echo " + ("ok" if r == self.reply else "refused" if r == "reset" else "silent"))
            s.close()
            self.quiet_silent()

    def bye(self) -> None:
        """a client whose connection the SERVER closes first"""
        if self.kind != "tcp":
            self.echo()
            return
        if not self.quiet():
            return
        if self.port is None:
            self.log("@bye noaddr")
            return
        s = socket.socket(socket.AF_INET, socket.SOCK_STREAM)
        s.settimeout(5)
        try:
            s.connect(("127.0.0.1", self.port))
            if s.getsockname() == s.getpeername():
                raise ConnectionRefusedError
        except (ConnectionError, OSError):
            s.close()
            self.log("@bye refused")
            return
        s.setblocking(False)
        try:
            s.send(b"bye\n")
            r = self._try_recv(s)
        except (ConnectionError, OSError):
            r = "reset"
        if r == ("bye" + self.token + "\n").encode():
            self.log("conn")
            # the server's FIN (the handler closes the client right after its answer), then our side
            eof = self._try_recv(s, 60)
            self.log(f"@bye ok eof={int(eof == 'eof')}")
            s.close()
            self.log("disc")
            self.quiet_silent()
        else:
            self.log("@bye " + ("silent" if r is None else str(r if isinstance(r, str) else "garbled")))
            try:
                s.setsockopt(socket.SOL_SOCKET, socket.SO_LINGER, b"\x01\x00\x00\x00\x00\x00\x00\x00")
            except OSError:
                pass
            s.close()
            self.quiet_silent()

    def renew(self) -> None:
        """the closed server object is replaced by a new one on the same address"""
        if not self.quiet():
            return
        srv = self.server
        if any(self.busy(i) for i in self.tasks) or srv.is_listening() or srv.is_serving() or not self.closed_now() or self.persistent:
            self.log("@renew skipped")
            return
        self.log(f"final closed={self.closed_now()}")
        self.log("@renew")
        self.socks = []
        self.flags = (0, 0)
        self.reuse_logged = False
        if not self.fixed_port:
            self.port = None
        self.make_server()

    def quiet_silent(self) -> None:
        n = len(self.lines)
        ok = self.quiet()
        if ok:
            # keep flag changes, drop the `quiet` marker and its forced flags line
            tail = self.lines[n:]
            k = tail.index("quiet")
            self.lines[n:] = tail[:k]

    def connect_persistent(self) -> None:
        if self.kind != "tcp":
            return
        if not self.quiet():
            return
        if self.port is None or not self.flags[0]:
            self.log("@conn skipped")
            return
        s = socket.socket(socket.AF_INET, socket.SOCK_STREAM)
        s.settimeout(5)
        try:
            s.connect(("127.0.0.1", self.port))
            s.setblocking(False)
            s.send(b"ping\n")
            r = self._try_recv(s)
        except (ConnectionError, OSError):
            r = "reset"
        if r == self.reply:
            self.persistent.append(s)
            self.log("conn")
            self.log("@conn ok")
        else:
            s.close()
            self.log("@conn failed")
            self.quiet_silent()

    def disconnect_persistent(self) -> None:
        if not self.persistent:
            return
        s = self.persistent.pop()
        s.close()
        self.log("disc")
        self.quiet_silent()

    # ---- the whole history
    def run(self) -> list[str]:
        asyncio.set_event_loop(None)
        try:
            self.make_server()
            for ent in self.case.get("sched", []):
                if ent:
                    self.release(int(ent[0]), int(ent[1]) if len(ent) > 1 else 0)
                self.turn()
            # release what is left, in caller order, as callers become free
            idle = 0
            for _ in range(QUIET_LIMIT):
                did = [self.release(i) for i in range(self.n)]
                self.turn()
                if any(did):
                    idle = 0
                    continue
                if all(not p for p in self.progs):
                    break
                idle += 1
                if idle > 12:       # the callers that still have calls are blocked (inside serve_forever)
                    break
            # epilogue
            e = self.n
            self.progs.append(["shutdown", "close"])
            ok = self.quiet()
            while ok and self.persistent:
                self.disconnect_persistent()
            if ok:
                self.release(e)
                ok = self.quiet()
            if ok:
                self.release(e)
                ok = self.quiet()
            for i in sorted(self.tasks):
                if self.busy(i):
                    self.log(f"@pending {i} {self.cur_op.get(i)}")
            self.log(f"final closed={self.closed_now()}")
            if self.loop.unhandled:
                self.log("@unhandled " + "; ".join(self.loop.unhandled[:3]))
        finally:
            for s in self.persistent:
                s.close()
            try:
                self.loop.shutdown()
            except Exception:
                pass
            if self.reservation is not None:
                self.reservation.release()
        return self.lines


def run_case(case: dict) -> list[str]:
    return Run(case).run()
