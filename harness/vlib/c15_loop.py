"""
C15 layer "loop": the REAL AsyncTCPNetworkServer on a REAL loopback socket (asyncio selector loop, the asyncio stream
adapter `StreamReaderBufferedProtocol` / `AsyncioTransportStreamSocketAdapter` under both request receivers), for the one
clause of C15 that an in-memory transport cannot exercise:

    "when the client disconnects or the HANDLER CLOSES THE CLIENT, the active generator is closed exactly once and the
     connection is closed"

with the client closed by SOMEONE ELSE than the connection task, at a moment chosen by the case:

  closer   "helper"  a task spawned by the handler generator itself (watchdog style), `await client.aclose()`
           "onconn"  a task spawned by on_connection()
           "other"   the handler of ANOTHER client (B) closes client A
           "inline"  the generator closes its own client (control: what the in-memory layers already do)
           "peer"    the peer disconnects (control)
  moment   "parked"  the connection task sits in `transport.recv()` / `recv_into()` (generator suspended at `yield`,
                     waiting for request #after; #0 = the very first yield, also of an on_connection generator)
           "busy"    the generator is in the middle of handling request #after-1 (awaiting something else); it finds its
                     client closed when it resumes, and goes back to `yield` (optionally with a further complete request
                     of the peer already received: it must not be delivered any more)
           "oc"      (round 7) on_connection() of the client is still running: as a coroutine (nothing received yet) or as a
                     generator that has consumed the login request and answered it; the client gets closed there (by
                     on_connection itself = "inline", or by a helper task / the on_connection task / another client's handler
                     while on_connection awaits), then on_connection RETURNS NORMALLY: on_disconnection runs, and no handle()
                     generator is ever started on the closed client (`extra`: one more request pipelined behind)
  how      "aclose" | "force" (`aclose_forcefully(client)`) | "cancel" (`client.aclose()` run in a task that is cancelled
           after `cancel_after` loop turns)
  sender   true: while all this happens a task started by on_connection() is parked INSIDE `client.send_packet()` of a packet
           far larger than the socket buffers (the peer does not read): it holds the per-client send lock, which
           `client.aclose()` needs.  A graceful close then waits for it (the peer starts reading once the close has begun), a
           forceful / cancelled one must close the connection at once: `client.is_closing()` true when the closing call
           returns, the peer sees the end of the connection (after the bytes already in flight), nothing is delivered any
           more.  The generators of A send no answers in this mode (they would queue behind the big packet).
  spawn    "tg" (a task group the handler opened in service_init) | "task" (`asyncio.create_task`)

Everything is driven by ONE event loop (server, peers, closers); the only asynchronous party is the kernel's loopback.
What needs no I/O — everything between the return of the closing call and the end of the connection task: the close of a
local transport is a `call_soon` of `connection_lost()` — is bounded in LOOP TURNS (300, and at least 0.3 s: `settle`), never
by wall-clock alone; what the kernel has a part in (a request reaching the server, a response, the peer's FIN) by 5 s
(`wait_io`).  A bound that expires makes the whole case be run a second time with 3x larger bounds: expired again -> the
lines say so (a reproducible hang: the oracle reports it), not expired -> `core.InfraError` (a hang that cannot be
reproduced is not a verdict).  No wall-clock value appears in the output.

The connection task itself is observed through the public `backend=` extension point: `ObservingBackend` is the asyncio
backend whose `create_tcp_listeners()` wraps each real listener in an `AsyncListener` proxy that brackets the handler
coroutine the server gives to `serve()` (task started / task ended, `transport.is_closing()` at its end).

case = {"layer": "loop", "path": "copy"|"buffered", "closer", "moment", "how", "spawn", "after": n, "per_gen": 0|1|2|3
        (requests per handle() generator, 0 = one generator for ever), "timeout": null|seconds (what the generators yield),
        "oc": "coro"|"gen", "partial": bool (half a request of the peer sits in the consumer at the time of the close),
        "extra": bool (moment busy: one more complete request already sent), "sender": bool, "cancel_after": turns}
"""
from __future__ import annotations

import asyncio
import contextlib
import logging
import socket
from typing import Any, Callable

from vlib import core

from easynetwork.exceptions import ClientClosedError
from easynetwork.lowlevel.api_async.backend._asyncio.backend import AsyncIOBackend
from easynetwork.lowlevel.api_async.transports import abc as tr_abc
from easynetwork.lowlevel.api_async.transports.utils import aclose_forcefully
from easynetwork.lowlevel.socket import INETSocketAttribute
from easynetwork.protocol import BufferedStreamProtocol, StreamProtocol
from easynetwork.serializers.line import StringLineSerializer
from easynetwork.servers.async_tcp import AsyncTCPNetworkServer
from easynetwork.servers.handlers import AsyncStreamRequestHandler, INETClientAttribute

HOST = "127.0.0.1"
BIG_PACKET = 256 * 1024           # far more than the (shrunk) socket buffers + the peer's (shrunk) stream reader can hold
SMALL_BUF = 4096
BIG_TEXT = "x" * BIG_PACKET
CLOSERS = ("helper", "onconn", "other", "inline", "peer")
MOMENTS = ("parked", "busy")           # (+ "oc", round 7: own corpus block)


class Bounds:
    def __init__(self, scale: int) -> None:
        self.turns = 300 * scale          # loop iterations given to something that needs no I/O at all
        self.min_wall = 0.3 * scale       # ... and at least this long
        self.io = 5.0 * scale             # anything that involves the kernel (connect, a response, the peer's EOF)
        self.expired: list[str] = []


# ----------------------------------------------------------------------------------------------------------------------
# observation of the connection tasks (public extension point: backend=)
# ----------------------------------------------------------------------------------------------------------------------
class Observer:
    def __init__(self) -> None:
        self.started: list[int] = []                # peer ports, in accept order
        self.ended: dict[int, str] = {}             # peer port -> "ok closing=<0|1>" | "cancelled" | "exc:<Class>"


class _ListenerProxy(tr_abc.AsyncListener[Any]):
    __slots__ = ("_inner", "_obs")

    def __init__(self, inner: Any, obs: Observer) -> None:
        super().__init__()
        self._inner, self._obs = inner, obs

    def is_closing(self) -> bool:
        return self._inner.is_closing()

    async def aclose(self) -> None:
        await self._inner.aclose()

    def backend(self):
        return self._inner.backend()

    @property
    def extra_attributes(self):
        return self._inner.extra_attributes

    async def serve(self, handler, task_group=None):
        obs = self._obs

        async def bracketed(stream: Any) -> None:
            try:
                port = int(stream.extra(INETSocketAttribute.peername)[1])
            except Exception:  # noqa: BLE001
                port = -1
            obs.started.append(port)
            try:
                await handler(stream)
            except asyncio.CancelledError:
                obs.ended[port] = "cancelled"
                raise
            except BaseException as e:  # noqa: BLE001
                obs.ended[port] = "exc:" + type(e).__name__
                raise
            else:
                obs.ended[port] = f"ok closing={int(stream.is_closing())}"

        await self._inner.serve(bracketed, task_group)


class ObservingBackend(AsyncIOBackend):
    def __init__(self, obs: Observer) -> None:
        super().__init__()
        self.obs = obs

    async def create_tcp_listeners(self, host, port, backlog, *, reuse_port=False):
        listeners = await super().create_tcp_listeners(host, port, backlog, reuse_port=reuse_port)
        return [_ListenerProxy(lst, self.obs) for lst in listeners]


# ----------------------------------------------------------------------------------------------------------------------
# scenario shared by the handler, the closers and the peer script
# ----------------------------------------------------------------------------------------------------------------------
class Scenario:
    def __init__(self, case: dict, bounds: Bounds) -> None:
        self.case = case
        self.b = bounds
        self.closer: str = case.get("closer", "helper")
        self.moment: str = case.get("moment", "parked")
        self.how: str = case.get("how", "aclose")
        self.spawn_mode: str = case.get("spawn", "tg")
        self.after: int = int(case.get("after", 1))
        self.per_gen: int = int(case.get("per_gen", 0))
        self.timeout = case.get("timeout")
        self.oc: str = case.get("oc", "coro")
        self.who: dict[int, str] = {}
        self.events: dict[str, list[str]] = {"A": [], "B": []}
        self.clients: dict[str, Any] = {}
        self.yields: dict[str, int] = {"A": 0, "B": 0}
        self.nreq: dict[str, int] = {"A": 0, "B": 0}
        self.ngen: dict[str, int] = {"A": 0, "B": 0}
        self.finals: dict[str, dict[str, list[str]]] = {"A": {}, "B": {}}
        self.ready = asyncio.Event()        # A is where the case wants it to be when it gets closed
        self.oc_go = asyncio.Event()        # moment oc, coroutine flavour with `extra`: the peer has sent its pipelined request
        self.gens_at_close: int | None = None    # handle() generators of A started when the closing call returned
        self.gate = asyncio.Event()         # moment busy: what A's generator waits for while its client is being closed
        self.closer_state = "not-started"
        self.closing_after: bool | None = None   # client.is_closing() right after the closing call returned
        self.sender: bool = bool(case.get("sender"))
        self.sender_state = "not-started"
        self.keep: list[Any] = []
        self.tg: Any = None

    def name(self, client: Any) -> str:
        try:
            return self.who.get(int(client.extra(INETClientAttribute.remote_address).port), "?")
        except Exception:  # noqa: BLE001
            return "?"

    def ev(self, who: str, what: str) -> None:
        self.events.setdefault(who, []).append(what)

    def spawn(self, coro_fn: Callable[..., Any], *args: Any) -> None:
        if self.spawn_mode == "tg" and self.tg is not None:
            self.tg.start_soon(coro_fn, *args)
        else:
            self.keep.append(asyncio.get_running_loop().create_task(coro_fn(*args)))

    async def do_close(self, client: Any) -> None:
        if self.how == "force":
            await aclose_forcefully(client)
        elif self.how == "cancel":
            t = asyncio.ensure_future(client.aclose())
            for _ in range(int(self.case.get("cancel_after", 1))):
                await asyncio.sleep(0)
            t.cancel()
            await asyncio.wait({t})
            if not t.cancelled() and t.exception() is not None:
                raise t.exception()  # type: ignore[misc]
        else:
            await client.aclose()

    async def big_send(self, client: Any) -> None:
        """the helper that sits inside client.send_packet() (write flow control: the peer does not read) with the send lock"""
        self.sender_state = "sending"
        try:
            await client.send_packet(BIG_TEXT)
        except asyncio.CancelledError:
            self.sender_state = "cancelled"
            raise
        except BaseException as e:  # noqa: BLE001
            self.sender_state = "failed:" + type(e).__name__
        else:
            self.sender_state = "sent"

    async def close_a(self, by: str, wait_ready: bool = True) -> None:
        """what every closer runs: wait until A is where the case wants it, two more loop turns (so that the connection
        task has really gone back into the transport receive), close A's client"""
        self.closer_state = "waiting"
        if wait_ready:
            await self.ready.wait()
            for _ in range(2):
                await asyncio.sleep(0)
        client = self.clients["A"]
        self.ev("A", f"close:{by}")
        self.closer_state = "closing"
        try:
            await self.do_close(client)
        except BaseException as e:  # noqa: BLE001
            self.closing_after = bool(client.is_closing())
            self.gens_at_close = self.ngen["A"]
            self.closer_state = "failed:" + type(e).__name__
            self.gate.set()
            raise
        self.closing_after = bool(client.is_closing())
        self.gens_at_close = self.ngen["A"]
        self.closer_state = "done"
        self.gate.set()

    async def before_yield(self, who: str, client: Any) -> None:
        self.yields[who] += 1
        if who != "A" or self.moment != "parked" or self.yields["A"] != self.after + 1:
            return
        if self.closer == "inline":
            await self.close_a("inline", wait_ready=False)
        elif self.closer == "helper":
            self.spawn(self.close_a, "helper")
        self.ready.set()

    async def busy_point(self, who: str, client: Any) -> None:
        """moment busy: A's generator has received request #after-1 and is working on it"""
        if who != "A" or self.moment != "busy" or self.nreq["A"] != self.after:
            return
        if self.closer == "inline":
            await self.close_a("inline", wait_ready=False)
            return
        if self.closer == "helper":
            self.spawn(self.close_a, "helper")
        self.ready.set()
        await self.gate.wait()


async def _oc_point(sc: Scenario, who: str, client: Any) -> None:
    """moment oc: A's on_connection() is where the case wants the client to be closed (it returns normally afterwards)"""
    if who != "A" or sc.moment != "oc":
        return
    if sc.oc == "coro" and sc.case.get("extra"):
        await sc.oc_go.wait()           # (the peer's pipelined request is on its way)
    if sc.closer == "inline":
        await sc.close_a("inline", wait_ready=False)
        return
    if sc.closer == "helper":
        sc.spawn(sc.close_a, "helper")
    sc.ready.set()
    await sc.gate.wait()


class Handler(AsyncStreamRequestHandler[str, str]):
    def __init__(self, sc: Scenario) -> None:
        self.sc = sc

    async def service_init(self, exit_stack: contextlib.AsyncExitStack, server: Any) -> None:
        self.sc.tg = await exit_stack.enter_async_context(server.backend().create_task_group())

    def on_connection(self, client):  # type: ignore[override]
        return self._oc_gen(client) if self.sc.oc == "gen" else self._oc_coro(client)

    def _oc_common(self, client: Any) -> str:
        sc = self.sc
        who = sc.name(client)
        sc.clients[who] = client
        sc.ev(who, "oc:start")
        if who == "A" and sc.sender:
            with contextlib.suppress(Exception):
                client.extra(INETClientAttribute.socket).setsockopt(socket.SOL_SOCKET, socket.SO_SNDBUF, SMALL_BUF)
            sc.spawn(sc.big_send, client)
        if who == "A" and sc.closer == "onconn":
            sc.spawn(sc.close_a, "onconn")
        return who

    async def _oc_coro(self, client: Any) -> None:
        who = self._oc_common(client)
        await asyncio.sleep(0)
        await _oc_point(self.sc, who, client)
        self.sc.ev(who, "oc:done")

    async def _oc_gen(self, client: Any):
        sc = self.sc
        who = self._oc_common(client)
        try:
            await sc.before_yield(who, client)
            req = yield sc.timeout
            sc.nreq[who] += 1
            sc.ev(who, f"req:{req}")
            if not (sc.sender and who == "A"):
                await client.send_packet("welcome")
            await _oc_point(sc, who, client)
        except GeneratorExit:
            sc.ev(who, "oc:closed")
            raise
        sc.ev(who, "oc:done")

    async def handle(self, client):  # type: ignore[override]
        sc = self.sc
        who = sc.name(client)
        k = sc.ngen[who]
        sc.ngen[who] = k + 1
        sc.ev(who, f"gen{k}:start")
        how = "return"
        n = errs = 0
        try:
            while (sc.per_gen == 0 or n < sc.per_gen) and errs < 4:
                await sc.before_yield(who, client)
                try:
                    req = yield sc.timeout
                except GeneratorExit:
                    raise
                except Exception as e:  # noqa: BLE001
                    errs += 1
                    sc.ev(who, f"err:{type(e).__name__}")
                    continue
                n += 1
                sc.nreq[who] += 1
                sc.ev(who, f"req:{req}")
                if req == "kill" and who == "B":
                    await sc.close_a("other")
                await sc.busy_point(who, client)
                if sc.sender and who == "A":
                    continue        # (an answer would queue behind the big packet of the parked sender)
                try:
                    await client.send_packet("ok " + req)
                except ClientClosedError:
                    sc.ev(who, "send:closed")
                except Exception as e:  # noqa: BLE001
                    sc.ev(who, f"send:{type(e).__name__}")
        except GeneratorExit:
            how = "closed"
            raise
        except BaseException as e:  # noqa: BLE001
            how = "exc:" + type(e).__name__
            raise
        finally:
            sc.finals[who].setdefault(str(k), []).append(how)
            sc.ev(who, f"gen{k}:end:{how}")

    async def on_disconnection(self, client) -> None:  # type: ignore[override]
        self.sc.ev(self.sc.name(client), "disc")


# ----------------------------------------------------------------------------------------------------------------------
# peers
# ----------------------------------------------------------------------------------------------------------------------
class Peer:
    def __init__(self, sc: Scenario, name: str, addr: tuple[str, int]) -> None:
        self.sc, self.name, self.addr = sc, name, addr
        self.sock = socket.socket(socket.AF_INET, socket.SOCK_STREAM)
        if sc.sender and name == "A":
            self.sock.setsockopt(socket.SOL_SOCKET, socket.SO_RCVBUF, SMALL_BUF)
        self.sock.bind((HOST, 0))
        self.sock.setblocking(False)
        self.port = self.sock.getsockname()[1]
        sc.who[self.port] = name
        self.reader: asyncio.StreamReader | None = None
        self.writer: asyncio.StreamWriter | None = None
        self.answers: list[str] = []

    async def bounded(self, aw: Any, label: str) -> Any:
        try:
            return await asyncio.wait_for(aw, self.sc.b.io)
        except asyncio.TimeoutError:
            self.sc.b.expired.append(f"{self.name}:{label}")
            return None

    async def connect(self) -> None:
        loop = asyncio.get_running_loop()
        await self.bounded(loop.sock_connect(self.sock, self.addr), "connect")
        small = {"limit": SMALL_BUF} if (self.sc.sender and self.name == "A") else {}
        r = await self.bounded(asyncio.open_connection(sock=self.sock, **small), "connect")
        if r is not None:
            self.reader, self.writer = r

    def send(self, data: bytes) -> None:
        if self.writer is not None:
            with contextlib.suppress(OSError, RuntimeError):
                self.writer.write(data)

    async def recv(self, label: str = "recv") -> str:
        if self.reader is None:
            return "no-connection"
        try:
            line = await self.bounded(self.reader.readline(), label)
        except ConnectionError:
            return "reset"
        except OSError as e:
            return "oserror:" + type(e).__name__
        if line is None:
            return "timeout"
        if not line:
            return "eof"
        if not line.endswith(b"\n"):
            return "eof-after:" + line.decode(errors="replace")
        return line[:-1].decode(errors="replace").replace(" ", "_")

    async def drain(self, label: str = "peer-eof") -> str:
        """read whatever is still in flight, until the connection ends"""
        if self.reader is None:
            return "no-connection"
        try:
            while True:
                data = await self.bounded(self.reader.read(1 << 16), label)
                if data is None:
                    return "timeout"
                if not data:
                    return "eof"
        except ConnectionError:
            return "reset"
        except OSError as e:
            return "oserror:" + type(e).__name__

    async def ask(self, req: str, suffix: bytes = b"") -> str:
        self.send(req.encode() + b"\n" + suffix)
        a = await self.recv()
        self.answers.append(a)
        return a

    async def close(self) -> None:
        if self.writer is not None:
            with contextlib.suppress(Exception):
                self.writer.close()
            with contextlib.suppress(Exception):
                await asyncio.wait_for(self.writer.wait_closed(), 1.0)
        else:
            self.sock.close()


async def settle(cond: Callable[[], bool], b: Bounds, label: str) -> bool:
    """True once cond() holds; False (and the label recorded) after b.turns loop iterations AND b.min_wall seconds"""
    loop = asyncio.get_running_loop()
    t0 = loop.time()
    n = 0
    while not cond():
        n += 1
        if n > b.turns and loop.time() - t0 > b.min_wall:
            b.expired.append(label)
            return False
        await asyncio.sleep(0 if n % 25 else 0.001)
    return True


async def wait_io(cond: Callable[[], bool], b: Bounds, label: str) -> bool:
    """for what the kernel's loopback has a part in (a request reaching the server, a FIN): wall-clock bound b.io"""
    loop = asyncio.get_running_loop()
    t0 = loop.time()
    n = 0
    while not cond():
        n += 1
        if loop.time() - t0 > b.io:
            b.expired.append(label)
            return False
        await asyncio.sleep(0 if n % 25 else 0.001)
    return True


def requests_of(case: dict) -> list[str]:
    """what peer A sends, one request at a time, before its client gets closed (`after` of them)"""
    n = int(case.get("after", 1))
    seq = (["login"] if case.get("oc", "coro") == "gen" else []) + [f"r{i}" for i in range(n)]
    return seq[:n]


def answer_of(req: str) -> str:
    return "welcome" if req == "login" else "ok_" + req


async def _session(case: dict, b: Bounds) -> list[str]:
    sc = Scenario(case, b)
    obs = Observer()
    be = ObservingBackend(obs)
    proto: Any = (BufferedStreamProtocol if case.get("path") == "buffered" else StreamProtocol)(StringLineSerializer())
    server = AsyncTCPNetworkServer(HOST, 0, proto, Handler(sc), backend=be, log_client_connection=False,
                                   max_recv_size=int(case.get("max_recv", 16384)))
    up = asyncio.Event()
    serve = asyncio.ensure_future(server.serve_forever(is_up_event=up))
    lines: list[str] = []
    peers: list[Peer] = []
    try:
        await asyncio.wait({serve, asyncio.ensure_future(up.wait())}, timeout=b.io + 5, return_when=asyncio.FIRST_COMPLETED)
        if not up.is_set():
            raise core.InfraError("C15 loop: the server did not come up")
        addr = (HOST, server.get_addresses()[0].port)
        B = Peer(sc, "B", addr)
        A = Peer(sc, "A", addr)
        peers += [B, A]
        await B.connect()
        if sc.oc == "gen":
            await B.ask("login")
        await B.ask("b0")
        await A.connect()
        if sc.sender:
            # the helper must really be parked inside send_packet() (flow control), holding the send lock
            await wait_io(lambda: sc.sender_state != "not-started", b, "A:sender-start")
            for n in range(40):
                await asyncio.sleep(0 if n % 20 else 0.002)
            if sc.sender_state != "sending":
                raise core.InfraError(f"C15 loop: the big packet went through ({sc.sender_state}): the sender is not parked")
        reqs = requests_of(case)
        busy = sc.moment == "busy"
        for i, r in enumerate(reqs):
            last = i == len(reqs) - 1
            suffix = b""
            if last and case.get("partial"):
                suffix = b"par"
            if last and (busy or sc.moment == "oc") and case.get("extra"):
                suffix = b"extra\n" + suffix
            if last and busy:
                A.send(r.encode() + b"\n" + suffix)       # (no answer awaited: the handler is kept busy with it)
            elif sc.sender:
                A.send(r.encode() + b"\n" + suffix)       # (no answers in this mode: wait until the handler has seen it)
                await wait_io(lambda: sc.nreq["A"] >= i + 1, b, f"A:request-{i}")
            else:
                await A.ask(r, suffix)
        if sc.moment == "oc":
            if case.get("extra") and not reqs:
                A.send(b"extra\n")       # (coroutine flavour: a request pipelined behind the close in on_connection)
            for n in range(10):
                await asyncio.sleep(0 if n % 5 else 0.001)
            sc.oc_go.set()
        # ---- the close
        port_a = A.port
        if sc.closer == "peer":
            await wait_io(sc.ready.is_set, b, "A:ready")
            sc.ev("A", "close:peer")
            if busy:
                sc.gate.set()
            await A.close()
            finished = await wait_io(lambda: port_a in obs.ended, b, "A:connection-task")
        else:
            if sc.closer == "other":
                B.send(b"kill\n")
            # getting to the close may involve the kernel (the request that keeps the generator busy, B's "kill"): wall-clock
            # bound.  From the moment the closing call has RETURNED, nothing but loop turns is needed: turn bound.
            drain = None
            if sc.sender and sc.how == "aclose":
                # a graceful close waits for the send in progress: the peer starts reading once the close has begun
                await wait_io(lambda: sc.closer_state in ("closing", "done") or sc.closer_state.startswith("failed"), b, "A:close-start")
                drain = asyncio.ensure_future(A.drain())
            await wait_io(lambda: sc.closer_state == "done" or sc.closer_state.startswith("failed"), b, "A:close")
            if sc.closing_after is not True:
                # the closing call returned and the client is not even marked closing: nothing will end by itself:
                # no point in waiting for the peer to see the end of the connection
                seen = ["skipped"]
                finished = port_a in obs.ended
                if drain is not None:
                    drain.cancel()
            elif sc.sender:
                # the bytes already in flight, then the end of the connection; the parked send ends with the transport
                seen = [await (drain if drain is not None else A.drain())]
                finished = await wait_io(lambda: port_a in obs.ended, b, "A:connection-task")
            else:
                seen = None
                finished = await settle(lambda: port_a in obs.ended, b, "A:connection-task")
        if sc.closer == "other":
            B.answers.append(await B.recv())
        if sc.closer != "peer":
            # what the peer sees (answers that were in flight first)
            if seen is None:
                seen = []
                for _ in range(4):
                    a = await A.recv("peer-eof")
                    seen.append(a)
                    if not a.startswith("ok_"):
                        break
            lines.append("A-peer " + " ".join(seen))
            lines.append(f"after-close closing={-1 if sc.closing_after is None else int(sc.closing_after)}")
        await B.ask("b1")
        # ---- observations
        for who in ("A", "B"):
            lines.append(f"{who} " + " ".join(sc.events[who]))
        lines.append("A-answers " + " ".join(A.answers))
        lines.append("B-answers " + " ".join(B.answers))
        lines.append("A-task " + (obs.ended.get(port_a, "running" if port_a in obs.started else "never-started")))
        fin = sc.finals["A"]
        lines.append(f"A-gens started={sc.ngen['A']} finalised=" + ",".join(f"{k}:{len(v)}" for k, v in sorted(fin.items())))
        if sc.closer not in ("peer",):
            lines.append(f"closer {sc.closer_state}")
            if sc.gens_at_close is not None:
                lines.append(f"A-gens-after-close {sc.ngen['A'] - sc.gens_at_close}")
        if sc.sender:
            lines.append(f"sender {sc.sender_state}")
        lines.append(f"serving {int(server.is_serving())} servetask {'running' if not serve.done() else 'done'}")
        if not finished:
            lines.append(f"A-hang connection task still running {b.turns} loop turns after the close")
    finally:
        sc.gate.set()
        sc.oc_go.set()
        for p in peers:
            await p.close()
        try:
            if not serve.done():
                await asyncio.wait_for(server.shutdown(), b.io + 5)
            await asyncio.wait_for(server.server_close(), b.io + 5)
            await asyncio.wait_for(asyncio.shield(serve), b.io + 5)
            lines.append("serve-end clean")
        except asyncio.TimeoutError:
            serve.cancel()
            lines.append("serve-end stuck")
        except asyncio.CancelledError:
            lines.append("serve-end cancelled")
        except BaseException as e:  # noqa: BLE001
            lines.append("serve-end exc=" + type(e).__name__)
        for t in sc.keep:
            if not t.done():
                t.cancel()
            with contextlib.suppress(BaseException):
                await t
    return lines


def _run_once(case: dict, scale: int) -> tuple[list[str], Bounds]:
    logging.getLogger("easynetwork").setLevel(logging.CRITICAL)
    b = Bounds(scale)
    loop = asyncio.SelectorEventLoop()
    loop.set_exception_handler(lambda lp, ctx: None)
    asyncio.set_event_loop(loop)
    try:
        main = loop.create_task(_session(case, b))
        lines = loop.run_until_complete(main)
    finally:
        try:
            for _ in range(3):
                pending = [t for t in asyncio.all_tasks(loop) if not t.done()]
                if not pending:
                    break
                for t in pending:
                    t.cancel()
                with contextlib.suppress(BaseException):
                    loop.run_until_complete(asyncio.gather(*pending, return_exceptions=True))
            with contextlib.suppress(BaseException):
                loop.run_until_complete(loop.shutdown_asyncgens())
        finally:
            asyncio.set_event_loop(None)
            loop.close()
    return lines, b


RETRY_SCALE = 3


def run_loop_session(case: dict) -> tuple[list[str], dict]:
    """(canonical lines, aux).  A bound that expires: the case is run again with 3x the bounds; expired again = the
    lines of that second run (they say what did not happen); not expired = InfraError (not reproducible)"""
    if case.get("sender") and int(case.get("after", 1)) == 0:
        case = {**case, "sender": False}    # (the close comes before the helper task could start its send: nothing to park)
    lines, b = _run_once(case, 1)
    if b.expired:
        first = list(b.expired)
        lines, b = _run_once(case, RETRY_SCALE)
        if not b.expired:
            raise core.InfraError(f"C15 loop: a bounded wait expired once ({','.join(first)}) and not on the re-run: {case}")
        lines.append("expired " + ",".join(sorted(set(b.expired))))
    return lines, {"written": b""}


# ----------------------------------------------------------------------------------------------------------------------
# oracle / generation (used by props/c15.py for cases with layer == "loop")
# ----------------------------------------------------------------------------------------------------------------------
SKIPPED = "skipped: enough violations of the loopback cases already"
MAX_VIOLATIONS = 4          # circuit breaker: a reproducible hang costs a second or two per case
_violations = 0


def _in_bulk() -> bool:
    """called from core._evaluate_batch (the bulk evaluation)?  Shrinking and replays never skip."""
    import sys
    f = sys._getframe(1)
    while f is not None:
        if f.f_code.co_name == "_evaluate_batch":
            return True
        f = f.f_back
    return False


def run_real(case: dict) -> tuple[list[str], dict]:
    global _violations
    bulk = _in_bulk()
    if bulk and _violations >= MAX_VIOLATIONS:
        return [SKIPPED], {"written": b""}
    lines, aux = run_loop_session(case)
    if bulk and oracle(case, lines):
        _violations += 1
    return lines, aux


def normalise(case: dict) -> dict:
    """make the combination meaningful (see the module docstring)"""
    c = dict(case)
    gen = c.get("oc", "coro") == "gen"
    if c.get("moment") == "oc":
        # the close happens inside on_connection(): a coroutine has received nothing, a generator exactly the login request
        c["after"] = 1 if gen else 0
        c["sender"] = False
        c["partial"] = False
        if c.get("closer") == "peer":
            c["closer"] = "inline"
    elif c.get("moment") == "busy":
        c["after"] = max(int(c.get("after", 1)), 2 if gen else 1)     # the request being handled is one of handle()
    else:
        c["extra"] = False
    if c.get("closer") == "peer":
        c["extra"] = False
        c["sender"] = False
        if c.get("how") == "cancel":
            c["how"] = "aclose"
    if c.get("moment") == "oc":
        c["extra"] = bool(case.get("extra"))
    if c.get("sender") and int(c.get("after", 1)) == 0:
        c["sender"] = False         # (the close comes before the helper task could start its send: nothing to park)
    if c.get("sender"):
        c["partial"] = False        # (no dialogue in this mode: requests are sent whole)
    if c.get("how") == "cancel":
        c["cancel_after"] = max(1, int(c.get("cancel_after", 1)))     # (the close operation has started)
    if int(c.get("after", 1)) == 0:
        c["partial"] = False
    return c


def _get(real: list[str], prefix: str) -> str | None:
    return next((ln[len(prefix):] for ln in real if ln.startswith(prefix)), None)


def describe(case: dict) -> str:
    how = {"force": "aclose_forcefully(client)",
           "cancel": f"client.aclose() cancelled after {case.get('cancel_after', 1)} loop turn(s)"}.get(case.get("how"), "await client.aclose()")
    if case.get("sender"):
        how += ", while a helper task started by on_connection() is parked in client.send_packet() (peer not reading) with the send lock"
    by = {"helper": "a task spawned by the handler generator", "onconn": "a task spawned by on_connection()",
          "other": "another client's handler", "inline": "the generator itself", "peer": "the peer (disconnection)"}[case.get("closer", "helper")]
    if case.get("moment") == "oc":
        flav = ("on_connection() as a generator, after it had consumed and answered the login request"
                if case.get("oc") == "gen" else "on_connection() as a coroutine")
        by_oc = "on_connection() itself" if case.get("closer") == "inline" else by + " while on_connection() was waiting"
        return (f"client closed ({how}) inside {flav}, by {by_oc}; on_connection() then returned normally"
                f"{' (one more request pipelined behind)' if case.get('extra') else ''}, {case.get('path')} receive path")
    where = ("the connection task was parked in the transport receive (generator suspended at its yield for request "
             f"#{case.get('after', 1)})") if case.get("moment", "parked") == "parked" else \
        f"the generator was busy with request #{int(case.get('after', 1)) - 1}"
    return f"client closed ({how}) by {by} while {where}, {case.get('path')} receive path"


def oracle(case: dict, real: list[str]) -> str | None:
    if real == [SKIPPED]:
        return None
    for ln in real:
        if ln.startswith("harness-exc"):
            return "unexpected failure: " + ln
    closer = case.get("closer", "helper")
    ev = (_get(real, "A ") or "").split()
    what = describe(case)
    # the closing call has returned (or was cancelled): the client is closing
    if closer != "peer" and _get(real, "after-close ") == "closing=0":
        return (f"{what}: client.is_closing() is False right after the closing call returned "
                f"(closer {_get(real, 'closer ')}): the close did nothing, the connection stays open "
                f"(connection task: {_get(real, 'A-task ')})")
    # the connection task must end, the active generator must be closed, on_disconnection must run
    task = _get(real, "A-task ")
    n_end = sum(1 for e in ev if e.startswith("gen") and ":end:" in e)
    n_start = sum(1 for e in ev if e.startswith("gen") and e.endswith(":start"))
    if _get(real, "A-hang ") is not None or task == "running":
        return (f"{what}: the connection task never finished (still running after the bounded number of loop turns, twice): "
                f"{n_start} generator(s) started, {n_end} closed, on_disconnection ran {ev.count('disc')} time(s)")
    exp = _get(real, "expired ")
    if exp is not None:
        return f"{what}: no reaction within the (re-tried, 3x) bound: {exp}"
    if task != "ok closing=1":
        return f"{what}: connection task ended with {task!r} (expected: normally, transport closed)"
    # requests: in order, once each, nothing after the close
    got = [e[4:] for e in ev if e.startswith("req:")]
    want = requests_of(case)
    if closer == "peer" and case.get("moment") == "busy" and got[len(want):] == ["extra"]:
        got = got[:len(want)]
    if got != want:
        return f"{what}: requests seen by the handler {got}, sent {want}"
    ci = next((i for i, e in enumerate(ev) if e.startswith("close:")), None)
    if ci is None:
        return f"{what}: the close never happened (harness): {ev}"
    if closer != "peer":
        late = [e for e in ev[ci + 1:] if e.startswith(("req:", "err:"))]
        if late:
            return f"{what}: delivered to the generator AFTER the client had been closed: {late}"
        if _get(real, "closer ") != "done":
            return f"{what}: the closing call did not return: closer {_get(real, 'closer ')}"
        # (round 7) the close is the end of the story: once the closing call has returned (client.is_closing() true) no
        # handle() generator is started on that client any more
        gac = _get(real, "A-gens-after-close ")
        if gac not in (None, "0"):
            return (f"{what}: {gac} handle() generator(s) started on the client AFTER the closing call had returned "
                    f"(client.is_closing() was true), expected 0: handler history {ev}")
    # generators: each started one ended exactly once, none open at the end
    active = None
    for e in ev:
        if e.startswith("gen") and e.endswith(":start"):
            if active is not None:
                return f"{what}: generator {e[:-6]} started while {active} is still active"
            active = e[:-6]
        elif e.startswith("gen") and ":end:" in e:
            if active != e.split(":")[0]:
                return f"{what}: {e} but the active generator is {active}"
            active = None
    if active is not None:
        return f"{what}: generator {active} was never closed"
    fin = _get(real, "A-gens ") or ""
    for tok in (fin.split("finalised=")[1].split(",") if "finalised=" in fin and fin.split("finalised=")[1] else []):
        if tok.split(":")[1] != "1":
            return f"{what}: generator {tok.split(':')[0]} finalised {tok.split(':')[1]} times"
    if case.get("oc") == "gen" and "oc:done" not in ev and "oc:closed" not in ev:
        return f"{what}: the on_connection generator was never closed"
    n_od = ev.count("disc")
    if n_od != (1 if "oc:done" in ev else 0):
        return f"{what}: on_disconnection ran {n_od} time(s), on_connection {'completed' if 'oc:done' in ev else 'did not complete'}"
    if ev and ev[-1] != "disc" and "oc:done" in ev:
        return f"{what}: something happened after on_disconnection: {ev[-3:]}"
    # what the peer got
    busy = case.get("moment") == "busy"
    answers = (_get(real, "A-answers ") or "").split()
    want_a = [] if case.get("sender") else [answer_of(r) for r in (want[:-1] if busy else want)]
    if answers != want_a:
        return f"{what}: answers received by the peer {answers}, expected {want_a}"
    if closer != "peer":
        seen = (_get(real, "A-peer ") or "").split()
        if not seen or seen[-1] not in ("eof", "reset") or len(seen) > 1:
            return f"{what}: the peer did not see the connection closed: {seen}"
    # the others
    want_b = (["welcome"] if case.get("oc") == "gen" else []) + ["ok_b0"] + (["ok_kill"] if closer == "other" else []) + ["ok_b1"]
    if (_get(real, "B-answers ") or "").split() != want_b:
        return f"{what}: the other client was answered {(_get(real, 'B-answers ') or '').split()}, expected {want_b}"
    if _get(real, "serving ") != "1 servetask running":
        return f"{what}: the server stopped: serving {_get(real, 'serving ')}"
    if "serve-end clean" not in real:
        return f"{what}: shutdown: " + str(_get(real, "serve-end "))
    return None


def nontrivial(case: dict, real: list[str]) -> str | None:
    if real == [SKIPPED]:
        return None
    return f"loop/{case.get('path')}/{case.get('closer')}+{case.get('moment')}+{case.get('how')}" + ("+sender" if case.get("sender") else "")


def shrink(case: dict):
    for key, val in (("partial", False), ("extra", False), ("timeout", None), ("per_gen", 0), ("how", "aclose"),
                     ("spawn", "task"), ("oc", "coro"), ("sender", False)):
        if case.get(key) != val and case.get(key) is not None:
            yield normalise({**case, key: val})
    a = int(case.get("after", 1))
    if a > 0:
        yield normalise({**case, "after": a - 1})


def corpus() -> list[dict]:
    cs = []
    base = {"layer": "loop", "how": "aclose", "spawn": "tg", "per_gen": 0, "timeout": None, "oc": "coro", "partial": False,
            "extra": False}
    for path in ("copy", "buffered"):
        for closer in CLOSERS:
            for moment in MOMENTS:
                for after in ((1, 2) if moment == "busy" else (0, 1, 2)):
                    cs.append(normalise({**base, "path": path, "closer": closer, "moment": moment, "after": after,
                                         "extra": moment == "busy"}))
        # the same through the other shapes: generator restarts, yield with a timeout (the receive sits in a timeout scope),
        # on_connection generator (closed while IT waits for the login / afterwards), forced close, plain asyncio task,
        # half a request in the consumer
        for closer in ("helper", "onconn", "other"):
            cs.append(normalise({**base, "path": path, "closer": closer, "moment": "parked", "after": 2, "per_gen": 1,
                                 "timeout": 30.0}))
            cs.append(normalise({**base, "path": path, "closer": closer, "moment": "parked", "after": 0, "oc": "gen",
                                 "spawn": "task"}))
            cs.append(normalise({**base, "path": path, "closer": closer, "moment": "parked", "after": 3, "oc": "gen",
                                 "per_gen": 2, "how": "force", "partial": True}))
            cs.append(normalise({**base, "path": path, "closer": closer, "moment": "busy", "after": 2, "per_gen": 2,
                                 "how": "force", "spawn": "task", "extra": True, "timeout": 30.0}))
        # the client closed while a helper task is parked inside client.send_packet() with the send lock (peer not reading):
        # gracefully (waits for the send), forcefully, by an aclose() that gets cancelled
        for how in ("aclose", "force", "cancel"):
            for closer, moment, after in (("inline", "busy", 1), ("inline", "parked", 1), ("helper", "parked", 1),
                                          ("other", "parked", 0), ("onconn", "busy", 2)):
                cs.append(normalise({**base, "path": path, "closer": closer, "moment": moment, "after": after, "how": how,
                                     "sender": True, "cancel_after": 1}))
            # (the cancelled close without a concurrent sender: cancelled inside the transport's own close)
            cs.append(normalise({**base, "path": path, "closer": "helper", "moment": "parked", "after": 1, "how": how,
                                 "cancel_after": 1}))
        # (round 7) the client closed inside on_connection() (coroutine / generator after the login request), which returns
        # normally: by itself, by a helper task, by the task on_connection spawned, by another client's handler; a request
        # pipelined behind or not: on_disconnection, no handle() generator
        for closer in ("inline", "helper", "onconn", "other"):
            for oc in ("coro", "gen"):
                for extra in (False, True):
                    cs.append(normalise({**base, "path": path, "closer": closer, "moment": "oc", "oc": oc, "extra": extra,
                                         "how": "force" if (closer == "other" and extra) else "aclose",
                                         "spawn": "task" if closer == "helper" else "tg"}))
    return cs


def gen_case(rng) -> dict:
    return normalise({
        "layer": "loop", "path": rng.choice(["copy", "buffered"]),
        "closer": rng.choice(["helper", "helper", "onconn", "other", "other", "inline", "peer"]),
        "moment": rng.choice(["parked", "parked", "busy", "oc"]), "how": rng.choice(["aclose", "aclose", "force", "cancel"]),
        "sender": rng.random() < 0.15, "cancel_after": rng.choice([1, 1, 2, 3]),
        "spawn": rng.choice(["tg", "task"]), "after": rng.choice([0, 1, 1, 2, 3, 4]), "per_gen": rng.choice([0, 0, 1, 2, 3]),
        "timeout": rng.choice([None, None, 30.0]), "oc": rng.choice(["coro", "coro", "gen"]),
        "partial": rng.random() < 0.3, "extra": rng.random() < 0.5, "max_recv": rng.choice([16384, 16384, 4, 1]),
    })
