"""
Oracle-only C04 cases, kind = "aiohist": multi-call HISTORIES on ONE asyncio adapter / endpoint / client object.

Every other asyncio case of C04 makes its sends on a fresh object.  Here the object lives through a sequence of sends of which
some park in the write flow control (the peer does not read, the socket buffer is full) and are ENDED FROM OUTSIDE — task
cancellation, `backend.timeout()`, `backend.move_on_after()` — while parked; the peer reads between the calls (everything / a
part / nothing); then later sends, small (accepted by the kernel at once) and big (they fill the socket again), are made on the
same object.  What survives a call — the "write paused" flag of the flow control, drain waiters, asyncio's write buffer, the
client's send lock — is what these cases are about.

drivers (case["drv"])
  "flow"   protocol level, fully deterministic: the REAL AsyncioTransportStreamSocketAdapter + StreamReaderBufferedProtocol
           (+ WriteFlowControl) over the fake asyncio transport of vlib/c20_drive (CPython's own _FlowControlMixin, the kernel is a
           counter `kroom` that only `kernel k` events increase).  ops = the events of c20_drive.FlowRun:
             ["send", i, n] ["sendv", i, [n..]] ["cancel", i] ["kernel", k] ["turn"] and, for the end of the connection,
             ["lost", errno] ["fail", errno] ["close"]
  "sock"   the real asyncio selector transport on a socketpair (AF_UNIX: what one end writes is readable by the other end at
           once, so "the peer reads, then ONE loop turn" is deterministic), SO_SNDBUF / SO_RCVBUF as in the case, virtual-time
           loop (vlib/c10_vloop.VLoop: one `turn` = one loop iteration, timeouts fire when the case advances the clock)
  "tcp"    the same over a loopback TCP connection (AF_INET: the high-level client wants it); a round in which nothing moved counts
           as quiet only when SIOCOUTQ of our socket is 0 (nothing in flight, no acknowledgement outstanding: the socket is writable)
  api      "all" adapter.send_all | "iterable" adapter.send_all_from_iterable | "endpoint" AsyncStreamEndpoint.send_packet |
           "client" AsyncTCPNetworkClient.send_packet (tcp only)
  ops (sock / tcp)
     ["send", i, n, end]   task i sends n bytes; end = null | ["timeout", d] | ["move_on", d]  (backend.timeout / move_on_after
                           around the call, virtual seconds)
     ["cancel", i]         task i .cancel()
     ["turn", k]           k loop iterations
     ["advance", dt]       the virtual clock moves on by dt (pending timeouts fire at the next turn)
     ["peer-read", k]      the peer reads up to k bytes (null: everything that is readable now)
     (api "endpoint": the endpoint refuses concurrent use — BusyResourceError —, so a send op first drains while another send is
      pending; if that one never ends the new one is `skipped`)
     ["drain"]             rounds of (the peer reads everything, one loop turn) until nothing has moved and no task has ended for
                           QUIET consecutive rounds
     ["peer-close"]        the peer closes its socket (what it has not read is lost; TCP: unread data makes it a RST)
  every case ends with an implicit ["drain"].

The bytes of send i are  ((i % 15) + 1) << 4 | (j % 16)  for j = 0 … n-1: the wire splits into the runs of the single sends.

lines   start i n | done i ok | done i cancelled | done i timeout | done i moved | done i err <Class> ; drained ; parked i … ;
        wire <run-length summary> ; (flow) the lines of FlowRun + `acct accepted=a flushed=f`
oracle  (the property: "it then returns, or fails with TimeoutError or a connection error …; it never … blocks forever and never
        duplicates or drops bytes") — after the final drain the peer has read everything that was written and the socket is
        writable: EVERY send has ended (`parked` = it never returns); a send ends `ok`, or the way the case ended it (cancelled /
        timeout / moved only if the case did that), never with another exception on this healthy connection; the wire is, in the
        order the sends were started, ALL the bytes of every send that was reported complete and a PREFIX of the bytes of every
        send that was ended from outside — nothing else, nothing twice.  Once the connection has ended (peer-close / lost / fail /
        close) a send may also fail with a connection error (ClientClosedError for the client) and completed sends are no longer
        required on the wire (the peer threw them away); every send must still END, and what the peer did read is still in order.
        The quiescence criterion counts loop turns, never seconds; for tcp a `parked` outcome is re-run once with 300 quiet
        rounds of 1 ms and reported only if it shows again.
"""
from __future__ import annotations

import asyncio
import logging
import socket
import time
from typing import Any

from vlib import core

logging.getLogger("asyncio").setLevel(logging.CRITICAL)     # ("socket.send() raised exception." after a peer-close is expected)

APIS = ("all", "iterable", "endpoint", "client")
BIG = 300_000              # parks on a socketpair (also with the default buffer sizes)
BIG_TCP = 3_000_000        # parks on loopback TCP with SO_SNDBUF = SO_RCVBUF = TCP_BUF
TCP_BUF = 262_144          # (buffers smaller than the loopback MSS of 64 KiB make TCP stall for tens of ms per window)


_HI = bytes(b >> 4 for b in range(256))


def pattern(i: int, n: int) -> bytes:
    hi = ((i % 15) + 1) << 4
    one = bytes(hi | j for j in range(16))
    return (one * (n // 16 + 1))[:n]


def _is_conn_error(e: BaseException) -> bool:
    import errno

    if isinstance(e, ConnectionError):
        return True
    try:
        from easynetwork.exceptions import ClientClosedError

        if isinstance(e, ClientClosedError):
            return True
    except ImportError:  # pragma: no cover
        pass
    return isinstance(e, OSError) and e.errno in (errno.ECONNRESET, errno.EPIPE, errno.ECONNABORTED, errno.ENOTCONN, errno.ESHUTDOWN,
                                                  errno.EBADF)


# ----------------------------------------------------------------------------------------------------------------
# real transport (socketpair / loopback TCP)
# ----------------------------------------------------------------------------------------------------------------

def _vloop():
    """c10_vloop.VLoop (virtual clock, one iteration per turn()) on the platform's default selector (epoll) instead of select():
    CPython 3.12.1's transport.writelines() may leave the descriptor of a connection it has just lost registered in the
    selector (no `_conn_lost` guard; see docs/C04.md, finding 6); select() then raises EBADF at every iteration and kills the
    loop, epoll forgets a closed descriptor by itself.  Not a C04 clause: the sends end with their connection error."""
    import selectors

    from vlib.c10_vloop import VLoop

    class ELoop(VLoop):
        def __init__(self) -> None:
            asyncio.SelectorEventLoop.__init__(self, selectors.DefaultSelector())
            self._vnow = 0.0
            self.turns = 0
            self.unhandled: list[str] = []
            self.set_exception_handler(self._on_exc)

    return ELoop()


class _SockHist:
    def __init__(self, case: dict, quiet: int, slow: bool = False) -> None:
        from easynetwork.lowlevel.api_async.backend._asyncio.backend import AsyncIOBackend

        self.case = case
        self.api = case["api"]
        self.tcp = case["drv"] == "tcp"
        self.quiet = quiet
        self.slow = slow
        self.loop = _vloop()
        if self.tcp:
            from vlib.c04_aiofault import tcp_pair

            self.a, self.b = tcp_pair()
        else:
            self.a, self.b = socket.socketpair()
        if case.get("sndbuf"):
            self.a.setsockopt(socket.SOL_SOCKET, socket.SO_SNDBUF, int(case["sndbuf"]))
            self.b.setsockopt(socket.SOL_SOCKET, socket.SO_RCVBUF, int(case["sndbuf"]))
        self.b.setblocking(False)
        self.raw = self.a.dup()       # only asked for SIOCOUTQ; the library owns `a`
        self.backend = AsyncIOBackend()
        self.lines: list[str] = []
        self.tasks: dict[int, asyncio.Task] = {}
        self.got = bytearray()
        self.closer: Any = None
        self.peer_closed = False
        self._setup()

    def _run(self, coro) -> Any:
        t = self.loop.create_task(coro)
        for _ in range(2000):
            if t.done():
                break
            self.loop.turn()
            if self.tcp:
                time.sleep(0.0005)
        if not t.done():
            t.cancel()
            self.loop.turn()
            raise core.InfraError("C04 aiohist: set-up did not complete")
        return t.result()

    def _setup(self) -> None:
        from easynetwork.protocol import StreamProtocol
        from vlib.c04_async import _serializer

        if self.api == "client":
            from easynetwork.clients.async_tcp import AsyncTCPNetworkClient

            client = AsyncTCPNetworkClient(self.a, StreamProtocol(_serializer()), "asyncio")
            self._run(client.wait_connected())
            self.closer = client.aclose
            self._send = lambda bufs: client.send_packet(bufs)
            return
        tr = self._run(self.backend.wrap_stream_socket(self.a))
        self.closer = tr.aclose
        if self.api == "endpoint":
            from easynetwork.lowlevel.api_async.endpoints.stream import AsyncStreamEndpoint

            ep = AsyncStreamEndpoint(tr, StreamProtocol(_serializer()), max_recv_size=1024)
            self.closer = ep.aclose
            self._send = lambda bufs: ep.send_packet(bufs)
        elif self.api == "iterable":
            self._send = lambda bufs: tr.send_all_from_iterable(iter(bufs))
        else:
            self._send = lambda bufs: tr.send_all(b"".join(bufs))

    async def _sender(self, i: int, n: int, end: Any) -> str:
        data = pattern(i, n)
        h = len(data) // 3
        bufs = [data[:h], data[h:]] if h else [data]
        if end is None:
            await self._send(bufs)
            return "ok"
        kind, d = end
        if kind == "timeout":
            with self.backend.timeout(float(d)):
                await self._send(bufs)
            return "ok"
        with self.backend.move_on_after(float(d)) as scope:
            await self._send(bufs)
        return "moved" if scope.cancelled_caught() else "ok"

    # ---- observation
    def _collect(self) -> int:
        n = 0
        for i in sorted(self.tasks):
            t = self.tasks[i]
            if not t.done():
                continue
            del self.tasks[i]
            n += 1
            if t.cancelled():
                self.lines.append(f"done {i} cancelled")
            elif t.exception() is not None:
                e = t.exception()
                self.lines.append(f"done {i} " + ("timeout" if isinstance(e, TimeoutError) and not isinstance(e, ConnectionError)
                                                  else f"err conn:{type(e).__name__}" if _is_conn_error(e)
                                                  else f"err {type(e).__name__}"))
            else:
                self.lines.append(f"done {i} {t.result()}")
        return n

    def _peer_read(self, k: int | None) -> int:
        n = 0
        if self.peer_closed:
            return 0
        while k is None or n < k:
            try:
                d = self.b.recv(1 << 16 if k is None else min(1 << 16, k - n))
            except (BlockingIOError, InterruptedError):
                break
            except OSError:
                break
            if not d:
                break
            self.got += d
            n += len(d)
        return n

    def _turn(self) -> int:
        self.loop.turn()
        return self._collect()

    def _outq(self) -> int:
        """bytes of our TCP socket that are not yet acknowledged by the peer's kernel (SIOCOUTQ): while this is not 0 something is
        still in flight (data, or the ACK that will make the socket writable again)"""
        if not self.tcp or self.peer_closed:      # (after a RST the counter of the dead socket is meaningless)
            return 0
        import fcntl
        import struct
        import termios

        try:
            return struct.unpack("i", fcntl.ioctl(self.raw.fileno(), termios.TIOCOUTQ, b"\0\0\0\0"))[0]
        except OSError:
            return 0

    def drain(self) -> None:
        idle = 0
        rounds = 0
        waited = 0
        while idle < (self.quiet if not (self.tcp and self.peer_closed) else max(self.quiet, 30)):
            rounds += 1
            moved = self._peer_read(None)
            ended = self._turn()
            if moved or ended:
                idle = 0
            elif self._outq():
                # loopback TCP: segments / acknowledgements still in flight (delayed ACK timer ...): not quiet yet
                waited += 1
                if waited > 20000:
                    raise core.InfraError("C04 aiohist: the loopback connection never got quiet (20 s)")
                time.sleep(0.001)
            else:
                idle += 1
                if self.slow or (self.tcp and self.peer_closed):
                    time.sleep(0.001)
        self.lines.append("drained")

    def op(self, op: list) -> None:
        k = op[0]
        if k == "send":
            i, n = int(op[1]), int(op[2])
            end = op[3] if len(op) > 3 else None
            if i in self.tasks:
                self.lines.append(f"busy {i}")
                return
            if self.api == "endpoint" and self.tasks:
                # the endpoint refuses concurrent use (BusyResourceError): one send at a time — let the pending one end first
                self.drain()
                if self.tasks:
                    self.lines.append(f"skipped {i}")
                    return
            self.tasks[i] = self.loop.create_task(self._sender(i, n, end))
            self.lines.append(f"start {i} {n}")
        elif k == "cancel":
            t = self.tasks.get(int(op[1]))
            if t is not None:
                t.cancel()
            self.lines.append(f"cancel {op[1]}")
        elif k == "turn":
            for _ in range(int(op[1])):
                self._turn()
                if self.tcp:
                    time.sleep(0.0002)
        elif k == "advance":
            self.loop.advance(float(op[1]))
        elif k == "peer-read":
            self._peer_read(None if op[1] is None else int(op[1]))
        elif k == "drain":
            self.drain()
        elif k == "peer-close":
            if not self.peer_closed:
                self.b.close()
                self.peer_closed = True
            self.lines.append("peer-close")
        else:
            raise core.InfraError(f"unknown C04 aiohist op {op!r}")

    def finish(self) -> list[str]:
        self.drain()
        for i in sorted(self.tasks):
            self.lines.append(f"parked {i}")
        # wire: run-length summary by sender id, the content of every run checked against the pattern
        got = bytes(self.got)
        hi = got.translate(_HI)
        runs: list[list[int]] = []
        bad = None
        p = 0
        while p < len(hi):
            rest = hi[p:]
            n = len(rest) - len(rest.lstrip(rest[:1]))
            sid = rest[0] - 1
            runs.append([sid, n])
            if bad is None and got[p:p + n] != pattern(sid, n):
                bad = p
            p += n
            if len(runs) > 64:
                bad = p if bad is None else bad
                break
        self.lines.append("wire " + (" ".join(f"{s}:{n}" for s, n in runs) or "-"))
        if bad is not None:
            self.lines.append(f"wire-bad-byte-at {bad}")
        if self.loop.unhandled:
            self.lines.append("loop-unhandled " + "; ".join(self.loop.unhandled[:3]))
        return self.lines

    def close(self) -> None:
        try:
            for t in list(self.tasks.values()):
                t.cancel()
            if self.closer is not None:
                t = self.loop.create_task(self.closer())
                for _ in range(200):
                    if t.done():
                        break
                    self._peer_read(None)
                    self.loop.turn()
                if t.done() and not t.cancelled():
                    t.exception()
        except Exception:  # noqa: BLE001
            pass
        finally:
            for x in (self.b, self.raw):
                try:
                    x.close()
                except OSError:
                    pass
            self.loop.shutdown()
            try:
                self.a.close()
            except OSError:
                pass


def _run_sock(case: dict, quiet: int, slow: bool = False) -> list[str]:
    h = _SockHist(case, quiet, slow)
    try:
        for op in case["ops"]:
            h.op(op)
        return h.finish()
    finally:
        h.close()


def _run_flow(case: dict) -> list[str]:
    from vlib import c20_drive

    ntask = 1 + max([int(op[1]) for op in case["ops"] if op[0] in ("send", "sendv", "cancel")] or [0])
    fr = c20_drive.FlowRun("stream", ntask)
    try:
        for op in case["ops"]:
            fr.event(list(op))
        fr.finish()
        lines = list(fr.lines)
        for i in fr.parked():
            lines.append(f"parked {i}")
        lines.append(f"acct accepted={fr.transport.accepted} flushed={fr.transport.flushed}")
        if fr.loop.unhandled:
            lines.append("loop-unhandled " + "; ".join(fr.loop.unhandled[:3]))
        return lines
    finally:
        fr.close()


def run_real(case: dict) -> list[str]:
    if case["drv"] == "flow":
        return _run_flow(case)
    if case["drv"] == "sock":
        return _run_sock(case, 12)
    lines = _run_sock(case, 12)
    if any(ln.startswith("parked") for ln in lines):
        again = _run_sock(case, 300, slow=True)      # confirm with 300 quiet rounds of 1 ms before this can become a verdict
        if not any(ln.startswith("parked") for ln in again):
            return again + ["note: a first run looked parked after 12 quiet rounds, not confirmed"]
        return again
    return lines


# ----------------------------------------------------------------------------------------------------------------
# oracle
# ----------------------------------------------------------------------------------------------------------------

def _sends(case: dict, real: list[str]) -> dict[int, dict]:
    out: dict[int, dict] = {}
    order = 0
    skipped = {int(ln.split()[1]) for ln in real if ln.startswith("skipped ")}
    for op in case["ops"]:
        if op[0] in ("send", "sendv", "cancel") and int(op[1]) in skipped:
            continue
        if op[0] == "send" and int(op[1]) not in out:
            out[int(op[1])] = {"n": int(op[2]) if case["drv"] != "flow" else int(op[2]), "end": op[3] if len(op) > 3 else None,
                               "order": order, "cancelled": False}
            order += 1
        elif op[0] == "sendv" and int(op[1]) not in out:
            out[int(op[1])] = {"n": sum(op[2]), "end": None, "order": order, "cancelled": False}
            order += 1
        elif op[0] == "cancel" and int(op[1]) in out:
            out[int(op[1])]["cancelled"] = True
    return out


def oracle(case: dict, real: list[str]) -> str | None:
    for ln in real:
        if ln.startswith(("busy", "wire-bad-byte-at")):
            return f"harness/wire problem: {ln} ({case['drv']}/{case['api']})"
    sends = _sends(case, real)
    what = f"{case['drv']}/{case['api']}"
    parked = [int(ln.split()[1]) for ln in real if ln.startswith("parked ")]
    if parked:
        i = parked[0]
        n = sends.get(i, {}).get("n", "?")
        hist = " ".join(ln for ln in real if ln.startswith(("start", "done", "cancel ", "parked")))[:400]
        return (f"{what}: send #{i} of {n} bytes NEVER RETURNS: it is still parked in the write flow control after the peer has read "
                f"everything that was written and the socket has been writable for the whole quiet period (history: {hist})")
    done: dict[int, str] = {}
    ended_at: int | None = None          # index of the line at which the connection ended (peer-close / lost / fail / close)
    done_at: dict[int, int] = {}
    for k, ln in enumerate(real):
        if ln.startswith("done "):
            p = ln.split()
            done[int(p[1])] = " ".join(p[2:])
            done_at[int(p[1])] = k
        elif ln in ("peer-close", "lost", "fail", "close") and ended_at is None:
            ended_at = k
    def after_end(i: int) -> bool:
        return ended_at is not None and done_at.get(i, 10 ** 9) > ended_at
    if case["drv"] == "flow":
        for i, res in done.items():
            r = res.split()[0]
            if r == "ok" or (r == "cancelled" and sends.get(i, {}).get("cancelled")):
                continue
            if r == "err" and after_end(i) and (res.split()[1].isdigit() or res.split()[1] == "oserror"):
                continue      # an OSError (errno) once the connection has ended
            return f"{what}: send #{i} ended with `{res}` " + ("after the connection ended: not a connection error" if after_end(i) else "on a healthy connection")
        acct = next((ln for ln in real if ln.startswith("acct ")), None)
        if acct and ended_at is None:
            a, f = (int(x.split("=")[1]) for x in acct.split()[1:])
            if a != f:
                return f"{what}: {a} bytes were accepted by the transport but {f} were flushed after the peer read everything"
        return None
    for i, s in sends.items():
        res = done.get(i)
        if res is None:
            return f"{what}: send #{i} has no outcome ({real[-4:]})"
        if res == "ok":
            continue
        if res == "cancelled" and s["cancelled"]:
            continue
        if res == "timeout" and s["end"] and s["end"][0] == "timeout":
            continue
        if res == "moved" and s["end"] and s["end"][0] == "move_on":
            continue
        if res.startswith("err conn:") and after_end(i):
            continue
        return (f"{what}: send #{i} of {s['n']} bytes ended with `{res}` " + ("after the peer closed: not a connection error"
                if after_end(i) else "on a healthy connection (neither completion nor the way the case ended it)"))
    wire = next((ln[5:] for ln in real if ln.startswith("wire ")), None)
    if wire is None:
        return f"{what}: incomplete observation"
    runs = [] if wire == "-" else [(int(a), int(b)) for a, b in (r.split(":") for r in wire.split())]
    by_order = sorted(sends, key=lambda i: sends[i]["order"])
    seen: dict[int, int] = {}
    pos = -1
    for sid, n in runs:
        ids = [i for i in by_order if i % 15 == sid]
        if not ids or sid in seen:
            return f"{what}: the peer read bytes of send #{sid} {'twice (two separate runs)' if sid in seen else 'that was never made'}: {wire}"
        i = ids[0]
        if sends[i]["order"] <= pos:
            return f"{what}: the bytes of send #{i} arrived after those of a send started later: {wire}"
        pos = sends[i]["order"]
        seen[sid] = n
        if n > sends[i]["n"]:
            return f"{what}: the peer read {n} bytes of send #{i} which has {sends[i]['n']}: duplicated ({wire})"
    if ended_at is None:
        for i in by_order:
            n = seen.get(i % 15, 0)
            if done.get(i) == "ok" and n != sends[i]["n"]:
                return (f"{what}: send #{i} was reported complete but the peer read {n} of its {sends[i]['n']} bytes after reading "
                        f"everything there was: bytes dropped ({wire})")
    return None


def nontrivial(case: dict, real: list[str]) -> str | None:
    ends = sorted({ln.split()[2] for ln in real if ln.startswith("done ")})
    interrupted = [e for e in ends if e in ("cancelled", "timeout", "moved")]
    if not interrupted:
        return None
    # a later send after an interrupted one
    idx = [k for k, ln in enumerate(real) if ln.startswith("done ") and ln.split()[2] in ("cancelled", "timeout", "moved")]
    later = any(ln.startswith("start") for ln in real[idx[0]:]) if idx else False
    return f"aiohist/{case['drv']}/{case['api']}/" + "+".join(interrupted) + ("/later-send" if later else "")


def shrink(case: dict):
    ops = case["ops"]
    for i in range(len(ops)):
        cand = ops[:i] + ops[i + 1:]
        # keep the structure sound: no cancel of a task that is never started
        started = {int(o[1]) for o in cand if o[0] in ("send", "sendv")}
        if any(o[0] == "cancel" and int(o[1]) not in started for o in cand):
            continue
        yield {**case, "ops": cand}
    if case["drv"] != "flow":
        for i, op in enumerate(ops):
            if op[0] == "send" and int(op[2]) > 64 and int(op[2]) not in (BIG, BIG_TCP):
                yield {**case, "ops": ops[:i] + [[op[0], op[1], 10] + list(op[3:])] + ops[i + 1:]}
        if case["drv"] == "tcp" and case["api"] != "client":
            yield {**case, "drv": "sock"}
        if case["api"] in ("endpoint", "iterable"):
            yield {**case, "api": "all"}


def known_key(case: dict, real: list[str], why: str) -> str:
    tag = "never-returns" if "NEVER RETURNS" in why else "bytes" if ("peer read" in why or "bytes of send" in why) else "outcome"
    return f"kind=aiohist,drv={case['drv']},api={case['api']},{tag}"


# ----------------------------------------------------------------------------------------------------------------
# cases
# ----------------------------------------------------------------------------------------------------------------

def _sock_case(drv: str, api: str, ops: list, sndbuf: int | None = 4096) -> dict:
    return {"kind": "aiohist", "drv": drv, "api": api, "sndbuf": sndbuf, "ops": ops}


def _interrupt_ops(i: int, how: str) -> tuple[Any, list]:
    """(end of the send, ops that end it while it is parked)"""
    if how == "cancel":
        return None, [["turn", 3], ["cancel", i], ["turn", 2]]
    if how == "timeout":
        return ["timeout", 5], [["turn", 3], ["advance", 6], ["turn", 3]]
    return ["move_on", 5], [["turn", 3], ["advance", 6], ["turn", 3]]


def corpus() -> list[dict]:
    cs: list[dict] = []
    # protocol level: a send parks, is cancelled, the peer reads (resume_writing() with nobody waiting), later sends
    for later in ([["send", 1, 10]], [["send", 1, 10], ["turn"], ["send", 2, 70000]], [["sendv", 1, [3, 4]]],
                  [["send", 1, 70000], ["turn"], ["kernel", 100000], ["turn"], ["send", 2, 1]]):
        for mid in ([["kernel", 10 ** 6]], [["kernel", 10 ** 6], ["turn"]], [["kernel", 1000], ["turn"], ["kernel", 10 ** 6], ["turn"]],
                    [["turn"]]):
            cs.append({"kind": "aiohist", "drv": "flow", "api": "all",
                       "ops": [["kernel", 100], ["send", 0, 70000], ["turn"], ["turn"], ["cancel", 0], ["turn"], *mid, *later,
                               ["turn"], ["turn"]]})
    # the real transport: every way of ending a parked send x every send path x what the peer reads in between x the later send
    for drv, apis in (("sock", ("all", "iterable", "endpoint")), ("tcp", ("client", "endpoint"))):
        big = BIG if drv == "sock" else BIG_TCP
        for api in apis:
            for how in ("cancel", "timeout", "move_on"):
                for between in ("all", "part", "none"):
                    end, stop = _interrupt_ops(0, how)
                    rd = {"all": [["drain"]], "part": [["peer-read", 5000], ["turn", 3]], "none": []}[between]
                    for later in ([["send", 1, 13, None]], [["send", 1, 13, None], ["turn", 2], ["send", 2, big, None]],
                                  [["send", 1, big, None]]):
                        if drv == "tcp" and ((between == "part" or later[0][2] != 13) and how != "timeout"
                                             or api == "endpoint" and (how != "timeout" or between != "all")):
                            continue
                        cs.append(_sock_case(drv, api, [["send", 0, big, end], *stop, *rd, *later, ["turn", 3]],
                                             sndbuf=4096 if drv == "sock" else TCP_BUF))
    # the peer goes away while a send is parked / after it was ended: every send still ends, later sends fail or return
    for drv, api in (("sock", "all"), ("sock", "iterable"), ("sock", "endpoint"), ("tcp", "client")):
        big = BIG if drv == "sock" else BIG_TCP
        buf = 4096 if drv == "sock" else TCP_BUF
        cs.append(_sock_case(drv, api, [["send", 0, big, None], ["turn", 3], ["peer-close"], ["turn", 3], ["send", 1, 13, None]], sndbuf=buf))
        cs.append(_sock_case(drv, api, [["send", 0, big, None], ["turn", 3], ["cancel", 0], ["turn", 2], ["peer-read", 5000], ["peer-close"],
                                        ["send", 1, 13, None], ["turn", 2], ["send", 2, big, ["timeout", 5]], ["turn", 3], ["advance", 6]],
                             sndbuf=buf))
    return cs


def generate(rng, tier: str, boost: int):
    n = (300 if tier == "quick" else 3000) * min(boost, 2)
    for k in range(n):
        r = rng.random()
        if r < 0.5:
            # protocol level
            ops: list = [["kernel", rng.choice([0, 100, 5000])]]
            live: list[int] = []
            nid = 0
            for _ in range(rng.randint(3, 14)):
                x = rng.random()
                if x < 0.35 and nid < 8:
                    if rng.random() < 0.3:
                        ops.append(["sendv", nid, [rng.choice([1, 10, 3000, 70000]) for _ in range(rng.randint(1, 3))]])
                    else:
                        ops.append(["send", nid, rng.choice([1, 10, 10, 3000, 70000, 70000, 200000])])
                    live.append(nid)
                    nid += 1
                elif x < 0.5 and live:
                    ops.append(["cancel", live.pop(rng.randrange(len(live)))])
                elif x < 0.7:
                    ops.append(["kernel", rng.choice([1, 1000, 65536, 10 ** 6, 10 ** 6])])
                else:
                    ops.append(["turn"])
            if rng.random() < 0.12:
                # the connection ends somewhere in the history: every send must still end (ok / OSError), none may stay parked
                ops.insert(rng.randint(1, len(ops)), rng.choice([["fail", 104], ["fail", 32], ["fail", 0], ["close"]]))
            yield {"kind": "aiohist", "drv": "flow", "api": "all", "ops": ops}
            continue
        drv = "sock" if r < 0.93 else "tcp"
        api = rng.choice(["all", "iterable", "endpoint"] if drv == "sock" else ["client", "client", "endpoint"])
        ops = []
        nid = 0
        live = []
        for _ in range(rng.randint(2, 5 if drv == "tcp" else 8)):
            size = rng.choice([1, 13, 13, 3000, 20000, BIG, BIG] if drv == "sock" else [1, 13, 13, 3000, 200000, BIG_TCP, BIG_TCP])
            how = rng.choice(["cancel", "timeout", "move_on", None, None])
            end, stop = _interrupt_ops(nid, how) if how else (None, [["turn", rng.randint(0, 3)]])
            ops.append(["send", nid, size, end])
            ops.extend(stop)
            nid += 1
            x = rng.random()
            if x < 0.45:
                ops.append(["drain"])
            elif x < 0.75:
                ops.append(["peer-read", rng.choice([1, 1000, 5000, 70000, 250000, 2000000])])
                ops.append(["turn", rng.randint(1, 4)])
        if rng.random() < 0.15:
            ops.insert(rng.randint(1, len(ops)), ["peer-close"])
        yield _sock_case(drv, api, ops, sndbuf=rng.choice([4096, 4096, 16384, None]) if drv == "sock" else TCP_BUF)
