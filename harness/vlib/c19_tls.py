"""
C19, TLS twin of the client layer (api "tls", oracle only): AsyncTCPNetworkClient(ssl=...) connects through
    backend.create_tcp_connection()  = name resolution + the staggered race + wrap_stream_socket
    AsyncTLSStreamTransport.wrap()   = the TLS handshake on the socket which won the race
(clients/async_tcp.py __create_ssl_over_tcp_connection; with a connected socket handed over by the caller:
__wrap_ssl_over_stream_socket_client_side).  The region covered here is everything between "the race has a winner" and
"wait_connected() returns": the client holds NO reference to the winner's socket yet, so whatever interrupts the connect
there, or makes the handshake fail, has to close it on the spot.

Everything is real: the asyncio backend on the real event loop, loopback sockets, the `ssl` module with the committed
certificate (vlib/c14_certs: CN / SAN "localhost", self-signed).  The server side is the harness': a listening socket per
family, every accepted connection is driven by a task of the same loop which is silent / a real ssl.SSLObject peer
(memory BIOs) answering at once or piece by piece (one piece per loop turn) / hostile.  The schedule is fixed by loop
turns counted from an anchor (start of the connect, connection accepted by the server, ClientHello received).

Case (api "tls"):
   addrs     list of "ok" | "refused" | "ok6" | "refused6"   candidate addresses of the remote name, in order
   hed       None | 0                                        happy_eyeballs_delay (0: all attempts at once)
   via       "host" (default) | "socket"                     "socket": the harness connects a socket to the first "ok"
                                                             address and hands it to AsyncTCPNetworkClient(sock, ssl=...)
   srv       behaviour of the server on every accepted connection
               "silent"    reads, never answers
               "normal"    SSLObject peer, answers every flight at once
               "slow"      SSLObject peer, its handshake bytes leave in pieces, one piece per loop turn (`chunk`)
               "garbage"   answers the ClientHello with bytes which are not TLS
               "alert"     answers the ClientHello with a fatal handshake_failure alert
               "close"     reads the ClientHello, then half-closes (FIN)
               "reset"     reads the ClientHello, then resets the connection (SO_LINGER 0)
               "closemid"  SSLObject peer which sends the first `chunk` bytes of its first flight, then half-closes
               "eofaccept" half-closes as soon as the connection is accepted
   chunk     piece size for "slow" (below 8: forty pieces of that size, then pieces of 211 bytes) / byte count for "closemid"
   cli       "noverify" | "verify" (CA = the certificate, server_hostname "localhost") | "badhost" (verify, server_hostname
             does not match) | "untrusted" (verify against an empty trust store)
   tls12     client offers TLS 1.2 at most (two round trips) instead of 1.3
   std       ssl_standard_compatible (closing handshake on aclose())
   hto       None | seconds                                  ssl_handshake_timeout (None: library default, 60 s)
   then      "none" | "send" | "ctx"                         connect started by wait_connected() / send_packet() / `async with`
   how       "cancel" | "timeout" | "moveon" | "aclose" | "exit" | "none"
             task.cancel() of the connecting task / backend.timeout() around the call expiring / backend.move_on_after()
             around the call expiring / client.aclose() / client.__aexit__() from another task / no interruption
   anchor    "start" | "accept" | "hello"                    the turn count `at` starts when the connect is started / when
                                                             the server has accepted a connection / has received bytes
   at        k                                               loop turns between the anchor and the interruption
   again     None | [kind, d]                                a second interruption ("cancel" | "aclose") d turns after the
                                                             first one (lands in the clean-up of the first)
Lines: `cfg v6 b`, `phase accepted n hello b hsdone b` (server side at the moment of the interruption), `early b`,
       `pendingscope n` / `pendingscope2 n` (cancel requests of cancel scopes outstanding on the task when the first / second
       task.cancel() was issued), `recancel` (see below), `wc <outcome>`, `post srv-open n` / `post fds +n` (the failure has been reported, the client object
       not yet closed: server side connections without EOF, descriptors opened since the start), `mid connected b`,
       `mid fds +n`, `mid srv-live n` (the connect returned), `close <...>`, `closing b`, `connected b`, `srv-open n`, `fds +n`.
No expectation depends on the garbage collector: it is disabled while a case runs and every count is taken before any
collection (a socket released only by a __del__ safety net counts as leaked).  "Closed" is judged a bounded number of
LOOP TURNS after the failure was reported (loopback: a close() is visible to the peer at once), never after a delay.
The listed lost-cancel finding is not widened: no verdict of this layer carries its signature.  A task.cancel() issued while
a cancel request of a cancel scope is outstanding on the task (`pendingscope`) is issued at its exact turn; if the call then
returns normally and the ClientHello had not been sent yet (the connect was still in the race: the listed window, judged by
the race layer and the plain client layer), the "failure reported" clause is not judged for that case - every resource clause
still is - and a task still running 40 turns later is cancelled again (`recancel`) so that the case ends.
"""
from __future__ import annotations

import asyncio
import contextlib
import gc
import socket
import ssl
import struct
import sys
import time
from pathlib import Path
from typing import Any

from vlib import c19_env as env
from vlib import core

CERT = str(Path(__file__).with_name("c14_certs") / "cert.pem")
KEY = str(Path(__file__).with_name("c14_certs") / "key.pem")
REMOTE = "remote.verif.invalid"
SNI = "localhost"
DEADLINE = 10.0
SETTLE_TURNS = 60          # loop turns granted for a close() to show on the other side / in the descriptor table
SSL_PEERS = ("normal", "slow", "closemid")
COMPLETING = ("normal", "slow")            # server behaviours with which a handshake can complete
_hangs = {"confirmed": 0}
COUNT = {"in_known_window": 0, "cases": 0, "in_handshake": 0, "recancelled": 0}
_ctx: dict[Any, ssl.SSLContext] = {}


def server_context() -> ssl.SSLContext:
    c = _ctx.get("server")
    if c is None:
        c = ssl.SSLContext(ssl.PROTOCOL_TLS_SERVER)
        c.load_cert_chain(CERT, KEY)
        _ctx["server"] = c
    return c


def client_context(cli: str, tls12: bool) -> ssl.SSLContext:
    key = (cli, bool(tls12))
    c = _ctx.get(key)
    if c is None:
        c = ssl.SSLContext(ssl.PROTOCOL_TLS_CLIENT)
        if cli == "noverify":
            c.check_hostname = False
            c.verify_mode = ssl.CERT_NONE
        elif cli in ("verify", "badhost"):
            c.load_verify_locations(CERT)
        # "untrusted": verification required, empty trust store
        if tls12:
            c.maximum_version = ssl.TLSVersion.TLSv1_2
        _ctx[key] = c
    return c


def _classify(e: BaseException) -> str:
    from easynetwork.exceptions import ClientClosedError

    def leaves(x):
        if isinstance(x, BaseExceptionGroup):
            for y in x.exceptions:
                yield from leaves(y)
        else:
            yield x

    if isinstance(e, ClientClosedError):
        return "closed"
    if isinstance(e, asyncio.CancelledError):
        return "cancelled"
    if isinstance(e, BaseExceptionGroup):
        ls = list(leaves(e))
        if ls and all(isinstance(x, OSError) for x in ls):
            return "connfail"
        return "exc:" + type(e).__name__ + "[" + ",".join(sorted({type(x).__name__ for x in ls})) + "]"
    if isinstance(e, ssl.SSLError):
        return "ssl"
    if isinstance(e, TimeoutError):
        return "timeout"
    if isinstance(e, OSError):
        return "connfail"
    return "exc:" + type(e).__name__


class _Conn:
    __slots__ = ("sock", "got", "eof", "gone", "hsdone", "sent")

    def __init__(self, sock: socket.socket) -> None:
        self.sock = sock
        self.got = 0            # bytes received from the client
        self.eof = False        # the client's end is closed (EOF / reset seen by the server)
        self.gone = False       # the server itself dropped the connection ("reset"): nothing can be observed on it
        self.hsdone = False
        self.sent = 0


def _pieces(data: bytes, chunk: int):
    if chunk >= 8:
        for i in range(0, len(data), chunk):
            yield data[i:i + chunk]
        return
    pos = 0
    for _ in range(40):
        if pos >= len(data):
            return
        yield data[pos:pos + chunk]
        pos += chunk
    for i in range(pos, len(data), 211):
        yield data[i:i + 211]


def _run_once(case: dict, deadline: float, fast: bool = False) -> list[str]:
    from easynetwork.clients.async_tcp import AsyncTCPNetworkClient
    from easynetwork.lowlevel.api_async.backend._asyncio.backend import AsyncIOBackend
    from easynetwork.protocol import StreamProtocol
    from easynetwork.serializers import StringLineSerializer

    lines: list[str] = []
    how = case["how"]
    then = case.get("then", "none")
    srvkind = case.get("srv", "silent")
    chunk = max(1, int(case.get("chunk", 1)))
    via = case.get("via", "host")
    anchor = case.get("anchor", "start")
    at = max(0, int(case.get("at", 0)))
    again = case.get("again")
    v6 = env.ipv6_loopback_ok()
    addrs = [a if v6 else a.rstrip("6") for a in case["addrs"]]
    leaked = {"n": 0}

    async def main() -> None:
        loop = asyncio.get_running_loop()
        before = env.open_fds()
        lines.append(f"cfg v6 {int(v6)}")
        need6 = any(a.endswith("6") for a in addrs)
        srv: dict[int, socket.socket] = {}
        dead: dict[int, socket.socket] = {}
        for fam in (4, 6) if need6 else (4,):
            af = socket.AF_INET if fam == 4 else socket.AF_INET6
            host = "127.0.0.1" if fam == 4 else "::1"
            s = socket.socket(af, socket.SOCK_STREAM)
            s.bind((host, 0))
            s.listen(16)
            s.setblocking(False)
            d = socket.socket(af, socket.SOCK_STREAM)
            d.bind((host, 0))            # bound, not listening: connections are refused
            srv[fam], dead[fam] = s, d
        conns: list[_Conn] = []
        handlers: list[asyncio.Task] = []
        accepted_ev, hello_ev = asyncio.Event(), asyncio.Event()
        hooks: dict[str, Any] = {"reached": lambda name: None}

        def mark_hello() -> None:
            if not hello_ev.is_set():
                hello_ev.set()
                hooks["reached"]("hello")

        # ---- server side --------------------------------------------------------------------------------------
        async def drain(c: _Conn) -> None:
            while True:
                try:
                    data = await loop.sock_recv(c.sock, 65536)
                except OSError:
                    data = b""
                if not data:
                    c.eof = True
                    return
                c.got += len(data)

        async def first_bytes(c: _Conn) -> bool:
            try:
                data = await loop.sock_recv(c.sock, 65536)
            except OSError:
                data = b""
            if not data:
                c.eof = True
                return False
            c.got += len(data)
            mark_hello()
            return True

        async def send(c: _Conn, data: bytes) -> bool:
            try:
                await loop.sock_sendall(c.sock, data)
            except OSError:
                c.eof = True         # EPIPE / ECONNRESET: the client's end is gone
                return False
            c.sent += len(data)
            return True

        def half_close(c: _Conn) -> None:
            with contextlib.suppress(OSError):
                c.sock.shutdown(socket.SHUT_WR)

        async def ssl_peer(c: _Conn) -> None:
            inc, out = ssl.MemoryBIO(), ssl.MemoryBIO()
            so = server_context().wrap_bio(inc, out, server_side=True)
            budget = chunk if srvkind == "closemid" else None

            async def flush() -> bool:
                """False: stop (the connection is over for the server)"""
                nonlocal budget
                data = out.read()
                if not data:
                    return True
                if budget is not None:
                    data = data[:budget]
                    if data and not await send(c, data):
                        return False
                    half_close(c)
                    await drain(c)
                    return False
                if srvkind == "slow" and not c.hsdone:
                    for piece in _pieces(data, chunk):
                        if not await send(c, piece):
                            return False
                        await asyncio.sleep(0)
                    return True
                return await send(c, data)

            while True:
                try:
                    if not c.hsdone:
                        so.do_handshake()
                        if not await flush():
                            return
                        c.hsdone = True
                    elif not so.read(65536):
                        raise ssl.SSLZeroReturnError()      # (read() returns b"" once the client's close_notify is in)
                    continue
                except ssl.SSLWantReadError:
                    if not await flush():
                        return
                    try:
                        data = await loop.sock_recv(c.sock, 65536)
                    except OSError:
                        data = b""
                    if not data:
                        c.eof = True
                        return
                    c.got += len(data)
                    mark_hello()
                    inc.write(data)
                except ssl.SSLZeroReturnError:
                    # the client's close_notify: answer with ours, as a well-behaved peer does
                    with contextlib.suppress(ssl.SSLError):
                        so.unwrap()
                    await flush()
                    await drain(c)
                    return
                except ssl.SSLError:
                    # an alert from the client (certificate rejected) or a protocol error: emit what is pending, wait for EOF
                    await flush()
                    await drain(c)
                    return

        async def handle(c: _Conn) -> None:
            if srvkind == "eofaccept":
                half_close(c)
                await drain(c)
                return
            if srvkind in SSL_PEERS:
                await ssl_peer(c)
                return
            if not await first_bytes(c):
                return
            if srvkind == "garbage":
                await send(c, b"HTTP/1.1 400 Bad Request\r\nConnection: close\r\n\r\n")
            elif srvkind == "alert":
                await send(c, b"\x15\x03\x03\x00\x02\x02\x28")          # fatal, handshake_failure
            elif srvkind == "close":
                half_close(c)
            elif srvkind == "reset":
                c.sock.setsockopt(socket.SOL_SOCKET, socket.SO_LINGER, struct.pack("ii", 1, 0))
                c.sock.close()
                c.gone = True
                return
            await drain(c)

        async def acceptor(s: socket.socket) -> None:
            while True:
                sk, _ = await loop.sock_accept(s)
                sk.setblocking(False)
                c = _Conn(sk)
                conns.append(c)
                if not accepted_ev.is_set():
                    accepted_ev.set()
                    hooks["reached"]("accept")
                handlers.append(loop.create_task(handle(c)))

        accs = [loop.create_task(acceptor(s)) for s in srv.values()]

        def srv_open() -> int:
            return sum(1 for c in conns if not c.eof and not c.gone)

        def own_fds() -> set[int]:
            return {c.sock.fileno() for c in conns if not c.gone}

        async def quiesce(want_live: int) -> None:
            """a bounded number of loop turns: until the server side shows `want_live` connections without EOF (and keeps
            showing it for a few turns: connections still in the accept queue get accepted meanwhile)"""
            stable = 0
            for _ in range(SETTLE_TURNS):
                await asyncio.sleep(0)
                stable = stable + 1 if srv_open() == want_live else 0
                if stable >= 6:
                    return

        # ---- client side --------------------------------------------------------------------------------------
        def remote_info() -> list:
            res = []
            for a in addrs:
                fam = 6 if a.endswith("6") else 4
                af = socket.AF_INET if fam == 4 else socket.AF_INET6
                host = "127.0.0.1" if fam == 4 else "::1"
                sa: tuple = (host, (srv if a.startswith("ok") else dead)[fam].getsockname()[1])
                if fam == 6:
                    sa = sa + (0, 0)
                res.append((af, socket.SOCK_STREAM, socket.IPPROTO_TCP, "", sa))
            return res

        class ScriptedBackend(AsyncIOBackend):
            async def getaddrinfo(self, host, port_, *a, **kw):     # type: ignore[override]
                await asyncio.sleep(0)
                return remote_info()

        backend = ScriptedBackend()
        cli = case.get("cli", "noverify")
        kw: dict[str, Any] = {
            "ssl": client_context(cli, bool(case.get("tls12"))),
            "server_hostname": "wrong.verif.invalid" if cli == "badhost" else SNI,
            "ssl_shutdown_timeout": 8.0,
            "ssl_standard_compatible": bool(case.get("std", True)),
        }
        if case.get("hto") is not None:
            kw["ssl_handshake_timeout"] = float(case["hto"])
        base = env.open_fds()
        if via == "socket":
            target = next((i for i in remote_info() if i[4][1] in {s.getsockname()[1] for s in srv.values()}), remote_info()[0])
            sk = socket.socket(target[0], socket.SOCK_STREAM)
            sk.setblocking(False)
            try:
                await asyncio.wait_for(loop.sock_connect(sk, target[4]), deadline)
            except OSError:
                sk.close()
                lines.append("wc connfail")
                lines.append("presocket refused")
                sk = None
            if sk is not None:
                client: Any = AsyncTCPNetworkClient(sk, StreamProtocol(StringLineSerializer()), backend, **kw)
        else:
            if case.get("hed") is not None:
                kw["happy_eyeballs_delay"] = float(case["hed"])
            client = AsyncTCPNetworkClient((REMOTE, srv[4].getsockname()[1]), StreamProtocol(StringLineSerializer()), backend, **kw)
        if via == "socket" and sk is None:
            client = None

        scopes: list[Any] = []

        async def start() -> None:
            if then == "send":
                await client.send_packet("x")
            elif then == "ctx":
                async with client:
                    lines.append(f"entered connected {int(client.is_connected())}")
            else:
                await client.wait_connected()

        async def connect() -> str:
            try:
                if how == "timeout":
                    with backend.timeout(3600.0) as scope:
                        scopes.append(scope)
                        await start()
                elif how == "moveon":
                    with backend.move_on_after(3600.0) as scope:
                        scopes.append(scope)
                        await start()
                    if scope.cancelled_caught():
                        return "movedon"
                else:
                    await start()
                return "ok"
            except BaseException as e:  # noqa: BLE001
                return _classify(e)

        async def do_close(kind: str, first: bool) -> None:
            if first:
                lines.append(f"early {int(t.done() or client.is_connected())}")
            if kind == "exit":
                await client.__aexit__(None, None, None)
            else:
                await client.aclose()

        async def settle(task: asyncio.Task, limit: float) -> bool:
            if fast:
                # a hang has been established already in this run (replay exists): do not spend minutes on further ones.
                # Everything is loopback I/O which completes within loop turns; the only timers are short handshake timeouts.
                for _ in range(400):
                    if task.done():
                        return True
                    await asyncio.sleep(0)
                limit = min(limit, 0.1)
            end = time.monotonic() + limit
            while not task.done():
                await asyncio.wait({task}, timeout=0.05)
                if time.monotonic() > end:
                    return task.done()
            return True

        closers: list[asyncio.Task] = []

        # The interruption is driven by loop callbacks, not by a task of its own: `at` loop turns after the anchor was
        # reached (the anchor is signalled synchronously, from inside the server's handler), one call_soon() per turn.
        fired = asyncio.Event()
        state = {"armed": False}

        def interrupt(kind: str, first: bool) -> None:
            if first:
                lines.append(f"phase accepted {len(conns)} hello {int(hello_ev.is_set())} hsdone {int(any(c.hsdone for c in conns))}")
            if kind in ("aclose", "exit"):
                closers.append(loop.create_task(do_close(kind, first)))
                return
            if first:
                lines.append(f"early {int(t.done() or client.is_connected())}")
            if kind == "cancel" or not scopes:
                pend = t.cancelling() - state.get("mine", 0)
                if pend > 0 and not t.done():
                    lines.append(f"pendingscope{'' if first else '2'} {pend}")
                    if first:
                        state["window"] = True
                if first and kind != "cancel":
                    lines.append("noscope")                         # the task has not entered its scope yet: plain cancel
                if t.cancel():
                    state["mine"] = state.get("mine", 0) + 1
                return
            scopes[0].reschedule(backend.current_time())            # the time limit is reached NOW

        def fire_second(k: int) -> None:
            if k > 0:
                loop.call_soon(fire_second, k - 1)
                return
            interrupt(str(again[0]), False)
            fired.set()

        def fire_first() -> None:
            interrupt(how, True)
            if again:
                fire_second(max(0, int(again[1])))
            else:
                fired.set()

        def tick(k: int) -> None:
            if k > 0:
                loop.call_soon(tick, k - 1)
            else:
                fire_first()

        def reached(name: str) -> None:
            if how != "none" and name == anchor and not state["armed"]:
                state["armed"] = True
                tick(at)

        hooks["reached"] = reached

        if client is not None:
            t = loop.create_task(connect())
            reached("start")
            if accepted_ev.is_set():
                reached("accept")           # (via socket: the harness' own connect has been accepted already)
            if hello_ev.is_set():
                reached("hello")
            if how != "none":
                end = time.monotonic() + deadline
                while not fired.is_set() and time.monotonic() < end:
                    if t.done() and not state["armed"]:
                        # the connect ended without the anchor being reached (e.g. no address accepts connections)
                        lines.append("anchor missed")
                        state["armed"] = True
                        fire_first()
                        continue
                    await asyncio.sleep(0)
                if state.get("window") and not t.done():
                    # task.cancel() was issued while a cancel request of a cancel scope was outstanding on the task (between
                    # the scope's task.cancel() and the task waking up): during the race that is the window of the listed
                    # lost-cancel finding (judged by the race layer and the plain client layer, never reported from here).
                    # A cancelled task ends within a few turns; if it is still running much later, the cancellation was
                    # lost: cancel again so that the case ends (every resource clause is judged all the same).
                    for _ in range(40):
                        if t.done():
                            break
                        await asyncio.sleep(0)
                    if not t.done():
                        lines.append("recancel")
                        COUNT["recancelled"] += 1
                        t.cancel()
            if not await settle(t, deadline):
                wc = "hang"
            else:
                wc = "cancelled" if t.cancelled() else t.result()      # (cancelled before its first step: it never ran)
            lines.append("wc " + wc)
            if wc == "ok" and then != "ctx" and not closers:
                # the moment the connect has returned: exactly one socket of this process is open for it, one live
                # connection on the server side (every other socket of the race is closed)
                lines.append(f"mid connected {int(client.is_connected() and not client.is_closing())}")
                await quiesce(1)
                lines.append(f"mid fds +{len(env.open_fds() - base - own_fds())}")
                lines.append(f"mid srv-live {srv_open()}")
            elif wc != "ok" and not closers:
                # the failure has been reported to the caller; the client object has not been closed (and holds nothing)
                await quiesce(0)
                lines.append(f"post srv-open {srv_open()}")
                lines.append(f"post fds +{len(env.open_fds() - base - own_fds())}")
            if not closers:
                closers.append(loop.create_task(client.aclose()))
            for k, closer in enumerate(closers):
                if not await settle(closer, deadline):
                    lines.append("close hang")
                elif closer.cancelled():
                    lines.append("close exc:CancelledError")
                elif closer.exception() is not None:
                    lines.append("close exc:" + type(closer.exception()).__name__)
                elif k == 0:
                    lines.append("close ok")
            if not t.done():
                t.cancel()
                await settle(t, 2.0)
            await quiesce(0)
            lines.append(f"closing {int(client.is_closing())}")
            lines.append(f"connected {int(client.is_connected())}")
            lines.append(f"srv-open {srv_open()}")
        for a in accs + handlers:
            a.cancel()
        for a in accs + handlers:
            with contextlib.suppress(BaseException):
                await a
        for c in conns:
            if not c.gone:
                c.sock.close()
        for s in list(srv.values()) + list(dead.values()):
            s.close()
        await asyncio.sleep(0)
        after = env.open_fds()
        lines.append(f"fds +{len(after - before)}")
        leaked["n"] = len(after - before)
        if after - before and client is not None:
            with contextlib.suppress(BaseException):
                await asyncio.wait_for(client.aclose(), 2.0)

    was = gc.isenabled()
    gc.disable()
    try:
        asyncio.run(main())
    finally:
        if leaked["n"]:
            # AFTER every count: do not let a leak of this case pollute the following ones (the __del__ safety nets of the
            # abandoned transports complain about the closed loop: not an observable, keep stderr readable)
            hook = sys.unraisablehook
            sys.unraisablehook = lambda *a: None
            try:
                gc.collect()
            finally:
                sys.unraisablehook = hook
        if was:
            gc.enable()
    return lines


def _hung(lines: list[str]) -> bool:
    return "wc hang" in lines or "close hang" in lines


def run_tls_case(case: dict) -> list[str]:
    COUNT["cases"] += 1
    if _hangs["confirmed"] >= 1:
        return _run_once(case, 2.0, fast=True)
    lines = _run_once(case, DEADLINE)
    if _hung(lines):
        again = _run_once(case, 2 * DEADLINE)
        if not _hung(again):
            raise core.InfraError(f"C19 tls case missed a {DEADLINE:.0f} s deadline once and not when re-run "
                                  f"(machine overloaded?): {case!r}")
        _hangs["confirmed"] += 1
        return again
    return lines


# ----------------------------------------------------------------------------------------------

def _expect(case: dict) -> str:
    """outcome of the connect when nothing interrupts it: "ok" | "fail" | "either" (a wall-clock handshake timeout races
    with a handshake that can complete)"""
    if not any(a.startswith("ok") for a in case["addrs"]):
        return "fail"
    if case.get("srv", "silent") not in COMPLETING or case.get("cli", "noverify") in ("badhost", "untrusted"):
        return "fail"
    if case.get("hto") is not None and float(case["hto"]) < 5.0:
        return "either"
    return "ok"


def _terminates(case: dict) -> bool:
    """does an uninterrupted connect end without the 60 s default handshake timeout"""
    if case.get("srv", "silent") == "silent" and any(a.startswith("ok") for a in case["addrs"]):
        return case.get("hto") is not None and float(case["hto"]) < 5.0
    return True


def oracle(case: dict, real: list[str]) -> str | None:
    d: dict[str, str] = {}
    for ln in real:
        if " " in ln:
            k, v = ln.rsplit(" ", 1) if ln.startswith(("mid ", "cfg ", "post ")) else ln.split(" ", 1)
            d.setdefault(k, v)
    how = case["how"]
    wc = d.get("wc", "")
    if "presocket refused" in real:
        return None                      # via socket without an address that accepts connections: nothing to run
    if wc == "hang" or "close hang" in real:
        return "tls-hang: the connect / the close did not finish"
    if any(ln.startswith("close exc:") for ln in real):
        return f"tls-close-failed: aclose() failed: {[ln for ln in real if ln.startswith('close exc:')][0]}"
    if wc.startswith("exc:"):
        return f"tls-unexpected-exception: the pending call raised {wc[4:]}"
    early = d.get("early") == "1" or how == "none"
    inhs = d.get("phase", "").startswith("accepted ") and not d.get("phase", "").startswith("accepted 0") and not early
    if inhs:
        COUNT["in_handshake"] += 1
    where = (f" (interruption {how}{'+' + str(case['again'][0]) if case.get('again') else ''} at {case.get('anchor', 'start')}"
             f"+{case.get('at', 0)}, server {case.get('srv')}: {d.get('phase', '-')})") if how != "none" else f" (server {case.get('srv')})"
    # 1. the failure is reported
    if not early:
        if wc == "ok":
            if ((how == "cancel" or "noscope" in real) and "pendingscope" in d and " hello 0 " in d.get("phase", "")
                    and (not case.get("again") or (case["again"][0] == "cancel" and "pendingscope2" in d))):
                # a cancel request of a cancel scope was outstanding on the task when task.cancel() was issued and the TLS
                # handshake had not begun (no ClientHello yet: the connect was still in the race): the window of the listed
                # lost-cancel finding (judged, and counted, by the race layer and the plain client layer).
                # Not judged here, and never reported under that key; every resource clause below still applies.
                COUNT["in_known_window"] += 1
            elif how in ("aclose", "exit"):
                return ("tls-connect-succeeded-after-close: the pending call completed successfully although the client had "
                        "been closed while the connect was in progress: the failure is not reported" + where)
            else:
                return ("tls-interruption-lost: the connect was interrupted while in progress, yet the call returned "
                        "normally: the failure is not reported" + where)
        elif how in ("aclose", "exit") and d.get("connected") == "1":
            return "tls-connected-after-close: the client is connected although it was closed during the connect" + where
    # 2. outcome of a connect nothing interfered with
    if early and how == "none":
        exp = _expect(case)
        if exp == "ok" and wc != "ok":
            return (f"tls-possible-connection-failed: the connect failed ({wc}) although an address accepts connections and "
                    "the server completes the handshake" + where)
        if exp == "fail" and wc == "ok":
            return "tls-impossible-connection: the connect succeeded although the handshake cannot complete" + where
    # 3. a connect which returned: exactly one socket, one live connection
    if "mid connected" in d:
        if d["mid connected"] != "1":
            return "tls-not-connected: the connect returned normally but the client is not connected" + where
        if d.get("mid fds") != "+1":
            return (f"tls-sockets-after-connect: the connect returned; descriptors opened by it and still open: "
                    f"{d.get('mid fds')} (exactly one expected)" + where)
        if d.get("mid srv-live") != "1":
            return (f"tls-sockets-after-connect: the connect returned; {d.get('mid srv-live')} connection(s) open on the server "
                    "side (exactly one expected: every other socket of the race is closed)" + where)
    # 4. a connect which failed / was interrupted: every socket closed once the failure has been reported
    if "post srv-open" in d:
        if d["post srv-open"] != "0" or d.get("post fds") != "+0":
            return (f"tls-socket-open-after-failure: the connect reported its failure ({wc}), yet {d['post srv-open']} "
                    f"connection(s) are still open on the server side (no EOF after {SETTLE_TURNS} loop turns) and the process "
                    f"holds {d.get('post fds')} descriptor(s) opened by the connect; the client object holds nothing to close"
                    + where)
    # 5. after aclose(): nothing left
    if d.get("closing") != "1":
        return "tls-not-closing: client.is_closing() is false after aclose() returned" + where
    if d.get("srv-open") not in (None, "0"):
        return (f"tls-server-side-open: {d.get('srv-open')} connection(s) still open on the server side after the client was "
                f"closed (pending call: {wc})" + where)
    if d.get("fds") != "+0":
        return f"tls-leak: descriptors leaked: fds {d.get('fds')} (pending call: {wc})" + where
    return None


# ----------------------------------------------------------------------------------------------

SRV_ALL = ["silent", "normal", "slow", "garbage", "alert", "close", "reset", "closemid", "eofaccept"]


def _fix(case: dict) -> dict:
    """keep generated cases inside what terminates by itself: an uninterrupted / early-finished connect to a silent
    server needs a short handshake timeout"""
    if case["how"] == "none" and not _terminates(case):
        case["hto"] = 0.02
    return case


def gen_case(rng) -> dict[str, Any]:
    n = rng.choice([1, 2, 2, 2, 3])
    addrs = [rng.choice(["ok", "refused", "ok", "refused", "ok6", "refused6"]) for _ in range(n)]
    r = rng.random()
    if n >= 2 and r < 0.6:
        addrs[0] = rng.choice(["refused", "refused", "refused6"])          # first refuses, a later one wins
        addrs[-1] = rng.choice(["ok", "ok", "ok6"])
    elif r < 0.92 and not any(a.startswith("ok") for a in addrs):
        addrs[rng.randrange(n)] = "ok"
    srv = rng.choice(["silent", "silent", "normal", "normal", "slow", "slow", "slow", "garbage", "alert", "close", "reset",
                      "closemid", "eofaccept"])
    case: dict[str, Any] = {"api": "tls", "addrs": addrs, "hed": rng.choice([None, None, 0]), "srv": srv,
                            "cli": rng.choice(["noverify", "noverify", "verify", "verify", "badhost", "untrusted"]),
                            "tls12": rng.random() < 0.3, "std": rng.random() < 0.75,
                            "then": rng.choice(["none", "none", "send", "ctx"])}
    if srv == "slow":
        case["chunk"] = rng.choice([1, 1, 2, 5, 16, 64, 200, 400, 700])
    elif srv == "closemid":
        case["chunk"] = rng.choice([1, 5, 6, 11, 60, 127, 500, 1200])
    if rng.random() < 0.1:
        case["via"] = "socket"
    how = rng.choice(["cancel", "cancel", "timeout", "moveon", "aclose", "aclose", "exit", "none"])
    case["how"] = how
    if how == "none":
        if rng.random() < 0.2:
            case["hto"] = 0.02
        return _fix(case)
    anchor = rng.choice(["start", "accept", "accept", "hello", "hello", "hello"])
    if case.get("via") == "socket":
        # the socket is connected (and accepted) before the client object exists: only the handshake is the connect here
        anchor = "hello"
    # loop turns the handshake lasts once the ClientHello is in (measured: TLS 1.3 three, TLS 1.2 seven, a failing one four
    # or five, one more per piece of a slow server; ClientHello = accept + 7 = start + 12 + 4 per refused address); the interruption is drawn over the whole stretch plus a small margin
    if srv == "silent":
        span = 8
    elif srv == "slow":
        c = case["chunk"]
        span = (1500 // c if c >= 8 else 46) + (8 if case["tls12"] else 4)
    elif srv == "normal" and case["cli"] in ("noverify", "verify"):
        span = 7 if case["tls12"] else 3
    else:
        span = 5
    at = rng.randint(0, span + {"start": 17 + 4 * (n - 1), "accept": 8, "hello": 1}[anchor])
    case.update(anchor=anchor, at=at)
    if rng.random() < 0.15:
        case["again"] = [rng.choice(["cancel", "aclose"]), rng.choice([0, 1, 1, 2, 3])]
    if rng.random() < 0.05 and srv in ("silent", "slow"):
        case["hto"] = 0.02               # the handshake timeout and the interruption compete
    return case


def corpus() -> list[dict]:
    out: list[dict] = []
    base = {"api": "tls", "addrs": ["refused", "ok"], "hed": None, "cli": "noverify", "tls12": False, "std": True, "then": "none"}
    # the server never answers the ClientHello; every kind of interruption, at the ClientHello and a few turns later
    for how in ("cancel", "timeout", "moveon", "aclose", "exit"):
        for at in (0, 2, 5):
            out.append({**base, "srv": "silent", "how": how, "anchor": "hello", "at": at})
    # every loop turn from "accepted" on, normal server (TLS 1.3 and 1.2): the interruption sweeps over the whole handshake
    for at in range(0, 15):
        out.append({**base, "srv": "normal", "how": "cancel", "anchor": "accept", "at": at})
        out.append({**base, "srv": "normal", "how": "aclose", "anchor": "accept", "at": at})
        out.append({**base, "tls12": True, "srv": "normal", "how": "timeout" if at % 2 else "cancel", "anchor": "accept", "at": at})
    # byte-by-byte server flight: interruption while a record header / a record body is half received
    for at in (1, 4, 7, 12, 30, 44, 50):
        out.append({**base, "srv": "slow", "chunk": 1, "how": "cancel", "anchor": "hello", "at": at})
        out.append({**base, "cli": "verify", "srv": "slow", "chunk": 5, "how": "timeout", "anchor": "hello", "at": at})
    # a second interruption during the clean-up of the first
    for ag in (["cancel", 0], ["cancel", 1], ["aclose", 1], ["cancel", 2]):
        out.append({**base, "srv": "silent", "how": "cancel", "anchor": "hello", "at": 3, "again": ag})
        out.append({**base, "srv": "slow", "chunk": 16, "how": "aclose", "anchor": "hello", "at": 6, "again": ag})
    # handshake failures: every socket closed, the failure reported
    for srv in ("garbage", "alert", "close", "reset", "eofaccept"):
        out.append({**base, "srv": srv, "how": "none"})
    for chunk in (1, 5, 60, 1200):
        out.append({**base, "srv": "closemid", "chunk": chunk, "how": "none"})
    out.append({**base, "srv": "normal", "cli": "badhost", "how": "none"})
    out.append({**base, "srv": "normal", "cli": "untrusted", "how": "none", "tls12": True})
    out.append({**base, "srv": "silent", "how": "none", "hto": 0.02})
    out.append({**base, "srv": "slow", "chunk": 1, "how": "none", "hto": 0.02})
    # successful connects: one socket, which aclose() closes (several candidates connecting at once: the losers are closed)
    for addrs, hed in ((["refused", "ok"], None), (["ok", "ok", "ok"], 0), (["refused6", "ok6", "ok"], 0), (["ok"], None)):
        for then in ("none", "send", "ctx"):
            out.append({**base, "addrs": addrs, "hed": hed, "srv": "normal", "cli": "verify", "how": "none", "then": then})
    out.append({**base, "srv": "slow", "chunk": 64, "how": "none", "std": False})
    # a connected socket handed over by the caller
    out.append({**base, "via": "socket", "srv": "silent", "how": "cancel", "anchor": "hello", "at": 2})
    out.append({**base, "via": "socket", "srv": "normal", "cli": "verify", "how": "none"})
    out.append({**base, "via": "socket", "srv": "alert", "how": "none"})
    return out


def shrink(case: dict):
    if len(case["addrs"]) > 1:
        for i in range(len(case["addrs"])):
            yield {**case, "addrs": case["addrs"][:i] + case["addrs"][i + 1:]}
    for i, a in enumerate(case["addrs"]):
        if a.endswith("6"):
            yield {**case, "addrs": case["addrs"][:i] + [a[:-1]] + case["addrs"][i + 1:]}
    if case.get("again"):
        yield {**case, "again": None}
    if case.get("via") == "socket":
        yield {**case, "via": "host"}
    if case.get("hed") is not None:
        yield {**case, "hed": None}
    if case.get("then", "none") != "none":
        yield {**case, "then": "none"}
    if case.get("tls12"):
        yield {**case, "tls12": False}
    if not case.get("std", True):
        yield {**case, "std": True}
    if case.get("cli", "noverify") != "noverify":
        yield {**case, "cli": "noverify"}
    if case.get("hto") is not None and (case["how"] != "none" or _terminates({**case, "hto": None})):
        yield {**case, "hto": None}
    if case.get("srv") == "slow" and int(case.get("chunk", 1)) < 400:
        yield {**case, "chunk": 400}
    if case["how"] in ("exit",):
        yield {**case, "how": "aclose"}
    if case["how"] in ("moveon", "timeout"):
        yield {**case, "how": "cancel"}
    if case["how"] != "none" and int(case.get("at", 0)) > 0:
        yield {**case, "at": int(case["at"]) - 1}
