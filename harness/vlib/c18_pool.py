"""
C18: worker-process pool for the threaded histories (vlib/c18_threads.py).

* `prefetch(cases)` hands the cases to N worker processes (each runs one history at a time, with real threads) while the
  caller goes on with the deterministic histories; `run_case(case)` returns the lines of a case (waits for it).
* watchdog expiry (`@hang`): the worker is gone; the history is retried ONCE, alone (no other worker busy), with a fresh
  worker; only a hang that shows up again counts.  Otherwise the result is an infrastructure error line (`infra …`),
  which the oracle turns into core.InfraError (exit 2) — never into a violation.
* `fix_flag()`: behavioural probe of the repository under test, done once in a worker: 1 if the standalone server lets
  the embedded server's BusyResourceError through (docs/C18-fix-1.patch), 0 if it swallows it.
"""
from __future__ import annotations

import json
import os
import queue
import subprocess
import sys
import threading
from pathlib import Path
from typing import Any

from vlib import core

HERE = Path(__file__).resolve().parent
NWORK = max(2, min(6, (os.cpu_count() or 4) // 3))
STATS: dict[str, int] = {"retries": 0, "hangs": 0, "skipped": 0, "g_retries": 0}
# `retries`: watchdog expiries of the sampled histories, `g_retries`: of the gated ones (separate budgets: expiries of one
# family that do not show up again must not keep the other family from being run); `hangs`: reproduced hangs, any family


def _rkey(case: dict) -> str:
    return "g_retries" if case.get("gated") or case.get("mode") == "portal" else "retries"


_lock = threading.Lock()
_results: dict[str, "queue.Queue[list[str]]"] = {}
_todo: "queue.Queue[tuple[str, dict] | None]" = queue.Queue()
_started = False
_fix: int | None = None
_hang_lines: dict[str, list[str]] = {}      # reproduced hangs: asked again (shrinking, replay) they are not run a third time
_seen_lines: dict[str, list[str]] = {}      # gated (deterministic) histories already run: what is answered when the same history is
                                            # asked for again after the pool has stopped running histories (two reproduced hangs)
_solo = threading.Lock()          # held (exclusively) while a history is retried alone
_active = 0
_active_cv = threading.Condition()


class Worker:
    def __init__(self) -> None:
        env = dict(os.environ)
        env["PYTHONPATH"] = str(HERE.parent) + os.pathsep + env.get("PYTHONPATH", "")
        self.p = subprocess.Popen([sys.executable, str(HERE / "c18_threads.py")], stdin=subprocess.PIPE, stdout=subprocess.PIPE,
                                  stderr=subprocess.DEVNULL, text=True, env=env, cwd=str(HERE.parent))

    def ask(self, obj: dict, timeout: float = 240.0) -> dict | None:
        try:
            assert self.p.stdin and self.p.stdout
            self.p.stdin.write(json.dumps(obj) + "\n")
            self.p.stdin.flush()
            res: list[Any] = []

            def rd() -> None:
                res.append(self.p.stdout.readline())      # type: ignore[union-attr]

            t = threading.Thread(target=rd, daemon=True)
            t.start()
            t.join(timeout)
            if not res or not res[0]:
                return None
            return json.loads(res[0])
        except (OSError, ValueError):
            return None

    def alive(self) -> bool:
        return self.p.poll() is None

    def kill(self) -> None:
        try:
            self.p.kill()
            self.p.wait(timeout=5)
        except Exception:
            pass


def _run_one(w: Worker, key: str, case: dict) -> tuple[Worker, list[str]]:
    global _active
    with _active_cv:
        while _solo.locked():
            _active_cv.wait(0.05)
        _active += 1
    try:
        r = w.ask({"id": key, "case": case})
    finally:
        with _active_cv:
            _active -= 1
            _active_cv.notify_all()
    if r is not None and not any(ln.startswith("@hang") for ln in r["lines"]):
        return w, r["lines"]
    # watchdog expiry or dead worker: retry once, alone
    first = r["lines"] if r is not None else ["infra worker died"]
    w.kill()
    w = Worker()
    with _lock:
        STATS[_rkey(case)] += 1
        enough = STATS["hangs"] >= 2 or STATS[_rkey(case)] > 4
    if enough:
        return w, ["@skipped after repeated watchdog expiries"]
    with _solo:
        with _active_cv:
            while _active > 0:
                _active_cv.wait(0.05)
        with _lock:
            enough = STATS["hangs"] >= 2
        if enough:
            # (several workers ran into a watchdog at the same time: two reproduced hangs are enough evidence)
            return w, ["@skipped after repeated watchdog expiries"]
        r2 = w.ask({"id": key, "case": case})
    if r2 is None:
        w.kill()
        return Worker(), ["infra worker died twice: " + "; ".join(first[-3:])]
    if any(ln.startswith("@hang") for ln in r2["lines"]):
        with _lock:
            STATS["hangs"] += 1
            _hang_lines[key] = r2["lines"]
        w.kill()
        return Worker(), r2["lines"]              # reproducible hang: a real observation
    if r is None:
        return w, r2["lines"]
    return w, ["infra watchdog expiry not reproduced when the history was retried alone: "
               + " | ".join(ln for ln in first if ln.startswith(("@hang", "@stack")))[:600]]


def _worker_loop() -> None:
    w = Worker()
    while True:
        item = _todo.get()
        if item is None:
            w.kill()
            return
        key, case = item
        if STATS["hangs"] >= 2 or STATS[_rkey(case)] >= 4:
            # two reproducible hangs (or four watchdog expiries) are enough evidence: do not spend two watchdog
            # periods on every remaining history
            with _lock:
                STATS["skipped"] += 1
            _results[key].put(["@skipped after repeated watchdog expiries"])
            continue
        try:
            w, lines = _run_one(w, key, case)
        except Exception as e:  # noqa: BLE001
            lines = [f"infra pool exception {type(e).__name__}: {e}"]
            w.kill()
            w = Worker()
        if (case.get("gated") or case.get("mode") == "portal") and not lines[0].startswith(("@skipped", "infra")):
            with _lock:
                _seen_lines[key] = lines
        _results[key].put(lines)


def _ensure_started() -> None:
    global _started
    with _lock:
        if _started:
            return
        _started = True
        for _ in range(NWORK):
            threading.Thread(target=_worker_loop, daemon=True).start()


def prefetch(cases: list[dict]) -> None:
    _ensure_started()
    for c in cases:
        key = core.case_digest(c)
        with _lock:
            if key in _results:
                continue
            _results[key] = queue.Queue()
        _todo.put((key, c))


def run_case(case: dict) -> list[str]:
    key = core.case_digest(case)
    with _lock:
        known = key in _results
        if not known and key in _hang_lines:
            return list(_hang_lines[key])
        if not known and key in _seen_lines and (STATS["hangs"] >= 2 or STATS["g_retries"] >= 4):
            return list(_seen_lines[key])
    if not known:
        prefetch([case])
    try:
        lines = _results[key].get(timeout=600)
    except queue.Empty:
        return ["infra no result from the worker pool"]
    with _lock:
        _results.pop(key, None)
    return lines


def fix_flag() -> int:
    global _fix
    if _fix is None:
        w = Worker()
        r = w.ask({"cmd": "fix_flag"}, timeout=60)
        w.kill()
        if r is None:
            raise core.InfraError("fix_flag probe failed")
        _fix = int(r["fix"])
    return _fix


# ----------------------------------------------------------------------------------------------
# cases
# ----------------------------------------------------------------------------------------------

def _case(kind: str, progs: list[list[str]], jit: list[list[int]] | None = None, init_ms: int = 0) -> dict:
    return {"mode": "threads", "kind": kind, "progs": progs, "jit": jit or [[0] * len(p) for p in progs], "init_ms": init_ms}


def corpus_threads() -> list[dict]:
    cs = []
    for kind in ("tcp", "udp"):
        # close during start-up: lands in the close-guard window of the embedded serve_forever (service_init sleeps)
        for d in (0, 5, 20, 40):
            cs.append(_case(kind, [["serve"], ["close", "probe", "echo"]], [[0], [d, 0, 0]], init_ms=60))
        # shutdown during start-up
        for d in (0, 2, 5, 20):
            cs.append(_case(kind, [["serve", "serve"], ["shutdown", "probe"]], [[0, 0], [d, 0]], init_ms=20))
        # serve -> shutdown -> serve, with echoes
        cs.append(_case(kind, [["serve", "serve"], ["echo", "shutdown", "echo", "echo"]], [[0, 0], [60, 0, 0, 80]]))
        # two serves at the same time
        cs.append(_case(kind, [["serve"], ["serve"], ["serve"]], [[0], [0], [1]]))
        # close while serving then serve
        cs.append(_case(kind, [["serve", "serve"], ["echo", "close", "serve", "echo"]], [[0, 0], [60, 0, 0, 0]]))
        # shutdown twice concurrently; close concurrently with shutdown
        cs.append(_case(kind, [["serve"], ["shutdown", "serve"], ["shutdown", "probe"]], [[0], [50, 0], [50, 0]]))
        cs.append(_case(kind, [["serve"], ["shutdown", "probe"], ["close", "serve"]], [[0], [50, 0], [50, 0]]))
        cs.append(_case(kind, [["serve"], ["close", "probe"], ["close", "serve"]], [[0], [50, 0], [51, 0]]))
        cs.append(_case(kind, [["serve"], ["shutdownT", "shutdownT", "shutdown", "probe"]], [[0], [30, 0, 0, 0]]))
    return cs + corpus_nst() + corpus_fixed_port_sampled()


def corpus_fixed_port_sampled() -> list[dict]:
    """fixed port, sampled schedules (jitters let the server come up): serve -> bye (the server closes the connection first)
    -> shutdown -> serve again -> echo; NetworkServerThread start / join / start"""
    cs = []
    for kind in ("tcp",):
        cs.append({**_case(kind, [["serve", "serve"], ["bye", "shutdown", "echo", "echo"]], [[0, 0], [80, 0, 0, 80]]), "port": "fixed"})
        cs.append({**_case(kind, [["tstart", "bye", "echo", "tjoin", "probe", "tstart", "echo", "bye", "tjoin", "tstart", "echo"]]), "port": "fixed"})
    return cs


def corpus_nst() -> list[dict]:
    """NetworkServerThread (servers/threads_helper.py): start() = thread + wait for "server ready", join() = shutdown +
    Thread.join.  `ws` makes the next call of that thread land while serve_forever is parked in service_init."""
    cs = []
    for kind in ("tcp", "udp"):
        # shutdown / close / join / a second start / a plain serve_forever landing in the start-up window of start()
        for other in (["ws", "shutdown", "probe"], ["ws", "close", "probe", "echo"], ["ws", "tjoin", "probe"],
                      ["ws", "tstart", "probe"], ["ws", "serve"], ["ws", "shutdownT", "shutdown", "tstart", "echo", "tjoin"],
                      ["ws", "tjoinT", "tjoin"], ["ws", "close", "shutdown", "close", "tstart"]):
            cs.append(_case(kind, [["tstart"], other], init_ms=150))
        # the same without the rendez-vous (jitters across the whole start-up, incl. before the thread exists)
        for d in (0, 1, 3, 8):
            cs.append(_case(kind, [["tstart", "probe"], ["shutdown", "probe"]], [[0, 0], [d, 0]], init_ms=20))
            cs.append(_case(kind, [["tstart", "probe"], ["tjoin", "tjoin"]], [[0, 0], [d, 1]], init_ms=20))
        # start() on a closed server; start() twice (same thread, two threads); start() while a plain serve_forever runs
        cs.append(_case(kind, [["close", "tstart", "probe", "tjoin"]]))
        cs.append(_case(kind, [["tstart", "tstart", "echo", "tjoin", "probe"]]))
        cs.append(_case(kind, [["tstart"], ["tstart"], ["tstart"]], [[0], [0], [1]], init_ms=5))
        cs.append(_case(kind, [["serve"], ["ws", "tstart", "probe"], ["tstart", "tjoin"]], [[0], [0, 0, 0], [40, 0]], init_ms=30))
        # start -> join -> start again (stopped, not closed: serves again), then close -> start
        cs.append(_case(kind, [["tstart", "echo", "tjoin", "probe", "tstart", "echo", "tjoin", "close", "tstart"]]))
        # shutdown in the set-up, then the same helper thread object is gone: a NEW start() must come up
        cs.append(_case(kind, [["tstart", "tstart", "echo", "tjoin"], ["ws", "shutdown"]], init_ms=150))
    return cs


THR_OPS = ["serve", "serve", "shutdown", "shutdown", "close", "probe", "echo", "shutdownT"]


NST_OPS = ["tstart", "tstart", "tstart", "tjoin", "tjoin", "tjoinT", "shutdown", "shutdown", "close", "serve", "probe", "echo", "shutdownT"]


def rand_case(rng) -> dict:
    c = _rand_case(rng)
    if rng.random() < 0.10:
        # a fixed port, and clients whose connection the server closes first
        c["port"] = "fixed"
        for p in c["progs"]:
            for k, op in enumerate(p):
                if op == "echo" and rng.random() < 0.7:
                    p[k] = "bye"
        if not any("bye" in p for p in c["progs"]):
            i = rng.randrange(len(c["progs"]))
            c["progs"][i].insert(rng.randint(0, len(c["progs"][i])), "bye")
            c["jit"][i].insert(0, rng.choice([30, 60, 60]))
    return c


def _rand_case(rng) -> dict:
    kind = rng.choice(["tcp", "udp"])
    n = rng.choice([2, 2, 3, 3, 4])
    if rng.random() < 0.35:
        # NetworkServerThread histories; half of them with a rendez-vous in the start-up window
        progs = [[rng.choice(NST_OPS) for _ in range(rng.randint(1, 4))] for _ in range(n)]
        if not any("tstart" in p for p in progs):
            progs[0].insert(0, "tstart")
        if rng.random() < 0.5:
            i = rng.choice([k for k in range(n) if k != 0] or [0])
            progs[i].insert(0, "ws")
        progs = [p[:5] for p in progs]
        jit = [[rng.choice([0, 0, 0, 1, 1, 2, 3, 5, 8, 15, 30]) for _ in p] for p in progs]
        return {"mode": "threads", "kind": kind, "progs": progs, "jit": jit, "init_ms": rng.choice([0, 5, 20, 50, 150])}
    progs = [[rng.choice(THR_OPS) for _ in range(rng.randint(1, 4))] for _ in range(n)]
    if not any("serve" in p for p in progs):
        progs[0].insert(0, "serve")
    progs = [p[:4] for p in progs]
    # jitters: mostly tiny (cross the start-up window, ~ a few ms), sometimes long enough to let the server come up
    jit = [[rng.choice([0, 0, 0, 1, 1, 2, 3, 5, 8, 15, 30, 60]) for _ in p] for p in progs]
    return {"mode": "threads", "kind": kind, "progs": progs, "jit": jit, "init_ms": rng.choice([0, 0, 0, 5, 20, 50])}


# ----------------------------------------------------------------------------------------------
# gated histories (vlib/c18_gates.py): the ThreadsPortal hand-over windows, crossed deterministically
# ----------------------------------------------------------------------------------------------

T_POS = ("lk", "cf", "post", "cf+post")                           # where the caller is stopped (cf+post: at both steps)
L_PTS = ("L:ul", "L:xd", "L:r1", "L:r3", "L:close", "L:closed")   # how far the portal exit / loop shut-down has got when it moves on
PORTAL_CALLS = ("sync", "sync_soon", "coro", "coro_soon")


def _window(t: int, pos: str, lp: str, xb: bool = True) -> list[dict]:
    """thread t is stopped at step `pos` of its first portal call and goes on when the loop thread has reached `lp`
    (a caller that has registered its waiter is also let go when the exit starts waiting for it: nothing else can
    happen); the loop thread stays at `lp` until thread t has handed its callback over (or its call is over);
    `xb`: the portal is kept open (loop running) until thread t is at `pos`"""
    hs = []
    first = pos.split("+")[0]
    if xb:
        hs.append({"at": "L:xb", "until": [f"{t}:{first}", f"{t}:ret"]})
    for p in pos.split("+"):
        hs.append({"at": f"{t}:{p}", "until": [lp] + (["L:wait"] if p == "post" else [])})
    hs.append({"at": lp, "until": [f"{t}:posted", f"{t}:pret", f"{t}:ret"]})
    return hs


def corpus_portal() -> list[dict]:
    """ThreadsPortal driven directly (backend.create_threads_portal()): one caller stopped at every step of every entry
    point while the portal exits (normally / with an exception) and the runner shuts the loop down; then several callers"""
    cs = []
    for op in PORTAL_CALLS:
        for pos in T_POS:
            for lp in L_PTS:
                for ex in ("ok", "exc"):
                    cs.append({"mode": "portal", "progs": [["w:L:entered", op]], "holds": _window(0, pos, lp, xb=False),
                               "exit_when": [f"0:{pos.split('+')[0]}"], "exit": ex})
    for ex in ("ok", "exc"):
        # a call before the portal is entered, calls while it runs, a call still running when it exits (drained /
        # cancelled), a call after the exit has returned
        cs.append({"mode": "portal", "progs": [["sync", "w:L:entered", "sync", "coro", "sync_soon", "coro_soon", "w:L:xd", "sync", "coro"]],
                   "holds": [], "start_when": ["0:ret"], "exit_when": ["0:ret#5"], "exit": ex})
        for op in ("coroS", "coroS_soon"):
            cs.append({"mode": "portal", "progs": [["w:L:entered", op, "sync"], ["w:L:entered", "sync", "w:L:xd", op]],
                       "holds": [], "exit_when": ["1:ret"], "exit": ex})
            # a long call in progress + a second caller in the hand-over window
            for pos in T_POS:
                for lp in ("L:ul", "L:close"):
                    cs.append({"mode": "portal", "progs": [["w:L:entered", op], ["w:L:entered", "w:0:posted", "sync", "coro"]],
                               "holds": _window(1, pos, lp, xb=False), "exit_when": [f"1:{pos.split('+')[0]}"], "exit": ex})
        # three callers, one at each step, released at three different moments of the shut-down
        for lps in (("L:ul", "L:xd", "L:close"), ("L:close", "L:close", "L:close"), ("L:r1", "L:close", "L:closed")):
            hs = []
            for t, (pos, lp) in enumerate(zip(T_POS[:3], lps)):
                hs.append({"at": f"{t}:{pos}", "until": [lp] + (["L:wait"] if pos == "post" else [])})
            for lp in sorted(set(lps)):
                hs.append({"at": lp, "until": ["0:posted|0:ret"], "ms": 300})
            cs.append({"mode": "portal", "progs": [["w:L:entered", "sync"], ["w:L:entered", "coro"], ["w:L:entered", "sync_soon"]],
                       "holds": hs, "exit_when": ["0:lk", "1:cf", "2:post"], "exit": ex})
    return cs


def rand_portal(rng) -> dict:
    n = rng.choice([1, 2, 2, 3])
    ops = list(PORTAL_CALLS) + ["coroS", "coroS_soon", "sync", "sync"]
    progs, holds, when = [], [], []
    for t in range(n):
        p = ["w:L:entered"] if rng.random() < 0.85 else []
        for _ in range(rng.randint(1, 3)):
            if rng.random() < 0.15:
                p.append(rng.choice(["w:L:xb", "w:L:xd", "w:L:ul", "w:L:close"]))
            p.append(rng.choice(ops))
        progs.append(p)
        if rng.random() < 0.8:
            pos, lp = rng.choice(T_POS), rng.choice(L_PTS + ("L:r2", "L:lk"))
            nth = rng.choice([1, 1, 1, 2])
            if "+" in pos:
                holds.append({"at": f"{t}:post", "n": nth, "until": [lp, "L:wait"], "ms": 250})
                pos = "cf"
            holds.append({"at": f"{t}:{pos}", "n": nth, "until": [lp] + (["L:wait"] if pos == "post" else []), "ms": 250})
            if not any(h["at"] == lp for h in holds):
                holds.append({"at": lp, "until": [f"{t}:posted", f"{t}:ret#{nth}"], "ms": 250})
            if rng.random() < 0.7:
                when.append(f"{t}:{pos}#{nth}|{t}:ret#{len([o for o in p if not o.startswith('w:')])}")
    return {"mode": "portal", "progs": progs, "holds": holds, "exit_when": when, "exit": rng.choice(["ok", "ok", "exc"]),
            "exit_ms": 600, "post_hops": rng.choice([0, 1, 2, 5])}


G_CALLS = ("probe", "shutdown", "shutdownT", "close", "addrs")


def _gcase(kind: str, progs: list[list[str]], holds: list[dict]) -> dict:
    return {"mode": "threads", "gated": 1, "kind": kind, "progs": progs, "holds": holds, "init_ms": 0}


def corpus_gated() -> list[dict]:
    """standalone servers: thread 2 issues a cross-thread call X while the serve thread tears down on its own — nobody
    holding the bootstrap lock started it — and is stopped at a step of the portal hand-over until the loop thread has
    reached a given point of the portal exit / loop shut-down.  Four ways into such a tear-down:
      A (tcp) server_close() with a client connected, then the client leaves;   B server_close() while serving;
      C shutdown(timeout) that has timed out / returned;                       D shutdown() waiting, lock released"""
    cs = []
    hot = [("cf", "L:close"), ("cf+post", "L:close"), ("post", "L:close"), ("lk", "L:close")]    # callback handed over after the last loop iteration
    combos = hot + [("cf", "L:xd"), ("cf", "L:r1"), ("lk", "L:ul")] + hot + [("post", "L:r3"), ("cf", "L:closed"), ("cf+post", "L:r3"), ("post", "L:ul")]
    k = 0
    for kind in ("tcp", "udp"):
        for x in G_CALLS:
            for sc in "ABCD":
                if sc == "A" and kind != "tcp":
                    continue
                for _ in range(3 if x in ("probe", "close") else 2):
                    pos, lp = combos[k % len(combos)]
                    k += 1
                    # (the restart waits for the end of the first serve_forever: no two serve_forever calls race)
                    tail = [x] + (["probe"] if x != "probe" else []) + ["w:0:ret", "serve"]
                    if sc == "A":
                        progs = [["serve"], ["w:up", "conn", "close", f"w:2:{pos.split('+')[0]}|2:ret", "disc"], ["w:1:ret:close"] + tail]
                    elif sc == "B":
                        progs = [["serve"], ["w:up", "close"], ["w:1:ret:close"] + tail]
                    elif sc == "C":
                        progs = [["serve"], ["w:up", "shutdownT"], ["w:1:ret:shutdownT"] + tail]
                    else:
                        progs = [["serve"], ["w:up", "shutdown"], ["w:L:xb"] + tail]
                    cs.append(_gcase(kind, progs, _window(2, pos, lp)))
    # (two callers can never be inside the portal at once: the bootstrap lock serialises every cross-thread call of a
    # standalone server.)  A third thread queued on the bootstrap lock while thread 2 sits in the window: its calls are
    # the "every later lifecycle call returns" part
    for kind in ("tcp", "udp"):
        for x, y, (pos, lp) in (("probe", "close", hot[0]), ("shutdown", "probe", hot[1]), ("addrs", "shutdownT", hot[2]), ("close", "shutdown", hot[3])):
            cs.append(_gcase(kind, [["serve"], ["w:up", "shutdown", "serve"], ["w:L:xb", x, "probe"],
                                    [f"w:2:{pos.split('+')[0]}|2:ret", y, "probe"]], _window(2, pos, lp)))
    return cs + corpus_tail() + corpus_gated_accept() + corpus_fixed_port()


def corpus_fixed_port() -> list[dict]:
    """"a stopped server can serve again unless it was closed" where the restart has to BIND AGAIN: the standalone servers
    build a new embedded server (new listening sockets on the configured (host, port)) at every serve_forever().  With the
    port 0 of every other history each run gets a fresh ephemeral port; here the port is FIXED (reserved for the history,
    vlib/c18_ports.py), and the first run has client activity of every kind: connections the SERVER closes first (`bye`: the
    handler answers and calls `client.aclose()`; the server's side of the connection stays in TIME_WAIT on the server's
    port), connections the client closes first (`echo`), connections still open at shutdown() (`conn`: aborted by the
    server).  Then shutdown() / shutdown(timeout) / NetworkServerThread.join() and serve_forever() AGAIN on the same object,
    at once (rendez-vous on events, no sleeps): a client gets its answer.  Controls: server_close() instead -> refused."""
    cs = []

    def fx(kind: str, progs: list[list[str]]) -> dict:
        return {**_gcase(kind, progs, []), "port": "fixed"}

    for kind in ("tcp", "udp"):
        # the history of the clause: one server-closed connection, shutdown, serve again
        cs.append(fx(kind, [["serve", "serve"], ["w:up", "bye", "shutdown", "w:up#2", "echo", "probe"]]))
        if kind == "udp":
            # (UDP has no TIME_WAIT: a cheap control; the main history, NetworkServerThread, the close control)
            cs.append(fx(kind, [["tstart", "bye", "tjoin", "probe", "tstart", "echo", "bye", "tjoin"]]))
            cs.append(fx(kind, [["serve", "serve"], ["w:up", "bye", "close", "probe", "echo"]]))
            continue
        # every kind of client activity in the first run
        cs.append(fx(kind, [["serve", "serve"], ["w:up", "echo", "bye", "bye", "echo", "shutdown", "w:up#2", "echo", "bye", "probe"]]))
        if kind == "tcp":
            cs.append(fx(kind, [["serve", "serve"], ["w:up", "conn", "bye", "shutdown", "w:up#2", "echo", "disc", "probe"]]))
        # three runs on the same object, a server-closed connection in each
        cs.append(fx(kind, [["serve", "serve", "serve"], ["w:up", "bye", "shutdown", "w:up#2", "bye", "echo", "shutdown", "w:up#3", "echo", "addrs"]]))
        # shutdown(timeout) that times out first, then shutdown(); a second thread's shutdown racing
        cs.append(fx(kind, [["serve", "serve"], ["w:up", "bye", "shutdownT", "shutdown", "w:up#2", "echo"], ["w:1:ret:bye", "shutdown", "probe"]]))
        # the restart issued by another thread than the first run's
        cs.append(fx(kind, [["serve"], ["w:up", "bye", "shutdown", "serve"], ["w:up#2", "echo", "bye", "probe"]]))
        # NetworkServerThread: start, a server-closed connection, join, start again
        cs.append(fx(kind, [["tstart", "bye", "tjoin", "probe", "tstart", "echo", "bye", "tjoin", "tstart", "echo", "tjoin"]]))
        # only client-closed connections / no client at all before the restart (controls: nothing lingers on the port)
        cs.append(fx(kind, [["serve", "serve"], ["w:up", "echo", "shutdown", "w:up#2", "echo"]]))
        cs.append(fx(kind, [["serve", "serve"], ["w:up", "shutdown", "w:up#2", "bye", "echo"]]))
        # control: closed instead of stopped -> ServerClosedError, nothing listening
        cs.append(fx(kind, [["serve", "serve"], ["w:up", "bye", "close", "probe", "echo"]]))
    return cs


def rand_fixed_port(rng) -> dict:
    """random fixed-port standalone histories: 2-3 runs on the same server object, clients of every kind in each run (the
    server closing the connection first, the client closing first, still connected at the stop), stopped by shutdown() /
    shutdown(timeout) + shutdown() / NetworkServerThread.join(); the next run starts at once"""
    kind = rng.choice(["tcp", "tcp", "tcp", "udp"])
    runs = rng.choice([2, 2, 3])

    def clients() -> list[str]:
        ops = [rng.choice(["bye", "bye", "bye", "echo", "conn" if kind == "tcp" else "echo"]) for _ in range(rng.randint(1, 3))]
        return ops

    if rng.random() < 0.3:
        p: list[str] = []
        for r in range(runs):
            p += ["tstart"] + [op for op in clients() if op != "conn"] + ["tjoin"]
        return {**_gcase(kind, [p + ["probe"]], []), "port": "fixed"}
    p1: list[str] = []
    for r in range(runs):
        p1 += [f"w:up#{r + 1}" if r else "w:up"] + clients()
        if r < runs - 1:
            p1 += rng.choice([["shutdown"], ["shutdown"], ["shutdownT", "shutdown"]])
            if "conn" in p1 and "disc" not in p1 and rng.random() < 0.5:
                p1.append("disc")
    p1.append(rng.choice(["probe", "addrs", "shutdown"]))
    if rng.random() < 0.3:
        # the restart is issued by another thread than the one whose serve_forever() has just returned
        return {**_gcase(kind, [["serve"], p1, ["w:0:ret"] + ["serve"] * (runs - 1)], []), "port": "fixed"}
    return {**_gcase(kind, [["serve"] * runs, p1], []), "port": "fixed"}


TAIL_PTS = ("L:xd", "L:r1", "L:r2", "L:r3", "L:close", "L:closed")
TAIL_MS = 150
# what 1-2 threads do inside the window "portal already exited, serve_forever() still tearing down"
TAIL_PROGS = (
    [["shutdown", "serve"]],
    [["shutdown", "probe", "serve"]],
    [["serve", "shutdown", "serve"]],
    [["close", "probe", "serve"]],
    [["shutdown", "serve"], ["shutdown", "probe"]],
    [["shutdownT", "shutdown", "serve"]],
    [["shutdown", "probe"], ["close", "serve"]],
    [["shutdown", "addrs", "serve"], ["serve", "shutdown"]],
)


def _tail_case(kind: str, first: str, lp: str, window: list[list[str]], ms: int = TAIL_MS) -> dict:
    """thread 0 serves, thread 1 starts the tear-down (`first`), the loop thread is kept at `lp` — after the ThreadsPortal
    has exited, before serve_forever() has finished — until the window threads (2, 3, …) have made their calls (on the
    unchanged library a shutdown() issued there blocks until serve_forever() is over: the hold ends by time-out)"""
    progs = [["serve"], ["w:up", first]]
    done = []
    for j, ops in enumerate(window):
        t = 2 + j
        progs.append([f"w:{lp}"] + list(ops))
        done.append(f"{t}:ret#{len(ops)}")
    return _gcase(kind, progs, [{"at": lp, "until_all": done, "ms": ms}])


def corpus_tail() -> list[dict]:
    """the tail of the tear-down: portal exited (it refuses calls with RuntimeError), event loop / embedded server still
    closing, bootstrap lock not yet re-taken, `is_shutdown` not yet set — 1-2 threads calling shutdown() / serve_forever() /
    server_close() there.  "shutdown returns only after serving has fully stopped"; a new serve_forever() is refused with
    ServerAlreadyRunning inside the window and accepted right after a shutdown() has returned."""
    cs = []
    k = 0
    for kind in ("tcp", "udp"):
        for first in ("shutdown", "close", "shutdownT"):
            for lp in TAIL_PTS:
                cs.append(_tail_case(kind, first, lp, TAIL_PROGS[k % len(TAIL_PROGS)]))
                k += 1
        for w in TAIL_PROGS[:3]:
            cs.append(_tail_case(kind, "shutdown", "L:r3", w))          # (where a default-executor job would keep the loop)
    return cs


ACC_ERRNOS = ("EMFILE", "ENFILE", "ENOMEM", "ENOBUFS")


def corpus_gated_accept() -> list[dict]:
    """standalone TCP server whose listener's accept() fails with a capacity error (scripted in the harness event loop,
    c18_gates.GLoop.sock_accept): the accept loop sleeps 100 ms and retries, over and over; shutdown() / shutdown(timeout) /
    server_close() arrive during a back-off; then the same server object serves again (an echo proves it) or refuses"""
    cs = []
    for k, err in enumerate(ACC_ERRNOS):
        fail = [[err] * 40]
        cs.append({**_gcase("tcp", [["serve", "serve"], ["w:up", "w:L:accfail", "shutdown", "w:up#2", "echo", "probe"]], []), "acc": fail})
        cs.append({**_gcase("tcp", [["serve", "serve"], ["w:up", "w:L:accfail", "close", "probe"]], []), "acc": fail})
        cs.append({**_gcase("tcp", [["serve", "serve"], ["w:up", "w:L:accfail", "shutdownT", "shutdown", "w:up#2", "echo"]], []), "acc": fail})
        # a client is accepted first; the failures begin with the next accept()
        cs.append({**_gcase("tcp", [["serve", "serve"], ["w:up", "conn", "w:L:accfail", "shutdown", "w:up#2", "echo", "disc"]], []),
                   "acc": [["ok"] + [err] * 40]})
        # both runs start with failing accepts; two stops racing in the back-off
        cs.append({**_gcase("tcp", [["serve", "serve"], ["w:up", "w:L:accfail", "shutdown", "w:up#2", "echo"],
                                    ["w:up", "w:L:accfail", ("shutdown", "close", "probe", "shutdownT")[k], "probe"]], []),
                   "acc": [[err] * 40, [ACC_ERRNOS[(k + 1) % 4]] * 3]})
    return cs


def rand_gated(rng) -> dict:
    kind = rng.choice(["tcp", "udp"])
    r = rng.random()
    if r < 0.25:
        # the tail of the tear-down
        ops = ["shutdown", "shutdown", "shutdown", "serve", "close", "probe", "shutdownT", "addrs"]
        window = [[rng.choice(ops) for _ in range(rng.randint(1, 3))] for _ in range(rng.choice([1, 1, 2, 3]))]
        if not any("shutdown" in w for w in window):
            window[0].insert(0, "shutdown")
        return _tail_case(kind, rng.choice(["shutdown", "shutdown", "close", "shutdownT"]), rng.choice(TAIL_PTS), window,
                          ms=rng.choice([100, 150, 150, 250]))
    if r < 0.35:
        err = rng.choice(ACC_ERRNOS)
        stop = rng.choice(["shutdown", "shutdown", "shutdownT", "close"])
        tail = ["probe"] if stop == "close" else ["w:up#2", "echo", rng.choice(["probe", "shutdown", "close"])]
        pre = ["conn"] if rng.random() < 0.3 else []
        return {**_gcase("tcp", [["serve", "serve"], ["w:up"] + pre + ["w:L:accfail", stop] + tail], []),
                "acc": [(["ok"] if pre else []) + [err] * 40] + ([[rng.choice(ACC_ERRNOS)] * rng.randint(1, 3)] if rng.random() < 0.4 else [])}
    sc = rng.choice("ABCD" if kind == "tcp" else "BCD")
    pos, lp = rng.choice(T_POS), rng.choice(L_PTS + ("L:r2",))
    tail = [rng.choice(G_CALLS) for _ in range(rng.randint(1, 3))] + rng.choice([[], ["w:0:ret", "serve"], ["w:0:ret", "serve", "probe"]])
    if sc == "A":
        progs = [["serve"], ["w:up", "conn", "close", f"w:2:{pos.split('+')[0]}|2:ret", "disc"], ["w:1:ret:close"] + tail]
    elif sc == "B":
        progs = [["serve"], ["w:up", "close"], ["w:1:ret:close"] + tail]
    elif sc == "C":
        progs = [["serve"], ["w:up", "shutdownT"], ["w:1:ret:shutdownT"] + tail]
    else:
        progs = [["serve"], ["w:up", "shutdown"] + (rng.choice([[], ["serve"]]) if "serve" not in tail else []), ["w:L:xb"] + tail]
    holds = _window(2, pos, lp)
    if rng.random() < 0.4:
        # a third thread queued behind thread 2 on the bootstrap lock
        progs.append([f"w:2:{pos.split('+')[0]}|2:ret", rng.choice(G_CALLS), "probe"])
    return _gcase(kind, progs, holds)
