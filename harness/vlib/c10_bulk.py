"""
C10 round 6: receive buffers of the order of the protocol's OWN buffer.

Missing region (found with the seeded change C10-m9): every cancelled-receive case moved a handful of bytes, so the
cancellation path that puts the bytes of a cancelled `receive_data_into()` back into the protocol's buffer
(`__restore_data_from_external_buffer`) was never run where it interacts with the READ FLOW CONTROL of the protocol: the
internal buffer has a fixed size (`StreamReaderBufferedProtocol.max_size`, 256 KiB) and water marks (3/4 and 3/16 of it); the
bytes restored may reach or cross the high-water mark, fill the buffer exactly, or exceed it (re-allocation).  If reading is not
paused then, asyncio's next `get_buffer()` gets an empty buffer, raises and ABORTS the connection: the restored bytes and the
rest of the stream are lost.  If it is paused and never resumed, the stream stalls.

Two families of cases:

* layer "proto", tag `fill` (gen_fill / corpus_fill): the protocol-level driving of c10_drive.ProtoRun with caller buffers of
  max_size - 1 / max_size / max_size + 1 / 2 * max_size / high-water mark - 1, +0, +1 … filled completely (or all but one byte)
  by ONE `buffer_updated`, optionally followed by more bytes into the internal buffer, and the cancel in the same loop iteration
  (both orders), then more data, receives of every size, a second such window (the buffer may have been re-allocated by the
  first).  `max_size` is 4 / 6 / 16 (water marks 0), 1024 … 8192 (real water marks, model run) and the class's own 256 KiB
  (oracle only).
* layer "e2e", kind "bulk" (BulkRun / TLSBulkRun): the same over the REAL asyncio selector transport on a socketpair with
  enlarged kernel buffers: `transport.recv_into(bytearray(cap))`, `transport.recv(n)`, `AsyncStreamEndpoint.recv_packet()` with a
  buffered protocol whose buffer has that size (`StringLineSerializer(limit=cap)`), and `AsyncTLSStreamTransport.recv()` (whose
  ciphertext reader always lends a 256 KiB buffer) — the peer writes a burst larger than the buffer, the timeout scope /
  `task.cancel()` lands in the iteration of the read event, more data follows.  Oracle: bytes / packets returned by all
  receives == bytes the peer wrote.
"""
from __future__ import annotations

import asyncio
import socket
from typing import Any

from . import core
from . import c10_drive as drv
from .c10_vloop import VLoop

LINE = 1024
_LETTERS = b"abcdefghijklmnopqrstuvw"


def water_marks(max_size: int) -> tuple[int, int]:
    """(high, low) as `_compute_read_buffer_limits()` derives them (asyncio.add_flowcontrol_defaults)"""
    high = max_size // 1024 * 3 // 4 * 1024
    return high, high // 4


# ----------------------------------------------------------------------------------------------
# protocol level
# ----------------------------------------------------------------------------------------------

def _window(kind: str, cap: int, fill: int, extra: int, order: str, park: bool = True) -> list[list]:
    """one critical window: a receive parked with a caller buffer of `cap` bytes (or receive_data), `fill` bytes arrive in one
    read (asyncio writes min(fill, cap) of them), then `extra` more (internal buffer), and the cancel — same iteration"""
    evs: list[list] = [[kind, cap]]
    if park:
        evs.append(["turn"])
    ios = [["iogen", fill]] + ([["iogen", extra]] if extra > 0 else [])
    if order == "io-cancel":
        evs += ios + [["cancel"]]
    elif order == "cancel-io":
        evs += [["cancel"]] + ios
    else:  # io cancel io
        evs += ios[:1] + [["cancel"]] + ios[1:]
    evs.append(["turn"])
    return evs


def _interesting_totals(m: int) -> list[int]:
    high, low = water_marks(m)
    out = {m - 1, m, m + 1, m + m // 2, 2 * m, 2 * m + 1, high - 1, high, high + 1, low, low + 1, m // 2, 1, 2, 3}
    return sorted(x for x in out if x >= 1)


def gen_fill(rng, real: bool = False) -> dict:
    m = drv.real_max_size() if real else rng.choice([4, 4, 6, 16, 1024, 2048, 4096, 4096, 8192])
    totals = _interesting_totals(m)
    evs: list[list] = []
    for w in range(rng.choice([1, 1, 1, 2])):
        total = rng.choice(totals)
        r = rng.random()
        extra = 0 if r < 0.6 else rng.choice([1, 2, min(total - 1, water_marks(m)[0]), total // 2]) if total > 1 else 0
        extra = max(0, min(extra, total - 1))
        fill = total - extra
        cap = fill if rng.random() < 0.7 else fill + rng.choice([1, 2, m])
        kind = "into" if rng.random() < 0.9 else "recv"
        order = rng.choice(["io-cancel", "io-cancel", "io-cancel", "cancel-io", "io-cancel-io"])
        if rng.random() < 0.15 and w == 0:
            # something is buffered already: the receive takes the data-already-there path (no caller buffer lent)
            evs.append(["iogen", rng.choice([1, 2, m // 2 or 1])])
        evs += _window(kind, cap, fill, extra, order, park=rng.random() < 0.93)
        # more data, receives of every size
        for _ in range(rng.randint(1, 4)):
            q = rng.random()
            if q < 0.5:
                evs.append(["iogen", rng.choice([1, 2, 3, m // 4 or 1, m, m + 1])])
            elif q < 0.75:
                evs.append([rng.choice(["recv", "into"]), rng.choice([1, 2, m // 2 or 1, m, 2 * m, 65536])])
                evs.append(["turn"])
                if rng.random() < 0.5:
                    evs.append(["turn"])
            elif q < 0.85:
                evs.append(["cancel"])
            else:
                evs.append(["turn"])
        if rng.random() < 0.04:
            evs.append(["eof"])
    case: dict[str, Any] = {"layer": "proto", "fill": True, "events": evs}
    if not real:
        case["max_size"] = m
    return case


def corpus_fill() -> list[dict]:
    cs: list[dict] = []
    for m in (4, 16, 2048, 4096, None):
        mm = m or drv.real_max_size()
        high, _low = water_marks(mm)
        caps = sorted({mm - 1, mm, mm + 1, 2 * mm, high - 1, high, high + 1} - {0, -1})
        if m is None:
            caps = sorted({mm - 1, mm, mm + 1, mm + mm // 2, high, high + 1})
        for cap in caps:
            for extra in (0, 1):
                if extra and m is None and cap not in (mm - 1, mm):
                    continue
                for order in ("io-cancel", "cancel-io"):
                    if order == "cancel-io" and (extra or cap not in (mm, mm + 1)):
                        continue
                    evs = _window("into", cap, cap, extra, order)
                    # more data: one byte, then a lot, with a receive in between
                    evs += [["iogen", 1], ["turn"], ["iogen", max(1, mm // 4)], ["recv", max(1, mm // 2)], ["turn"], ["turn"], ["iogen", 3]]
                    c: dict[str, Any] = {"layer": "proto", "fill": True, "events": evs}
                    if m is not None:
                        c["max_size"] = m
                    cs.append(c)
        # the buffer re-allocated by a first over-sized restore, then a second window that fills the NEW size exactly
        evs = _window("into", 2 * mm, 2 * mm, 0, "io-cancel") + [["recv", 2 * mm], ["turn"], ["turn"]]
        evs += _window("into", 2 * mm, 2 * mm, 0, "io-cancel") + [["iogen", 5], ["turn"], ["iogen", 5]]
        c = {"layer": "proto", "fill": True, "events": evs}
        if m is not None:
            c["max_size"] = m
        cs.append(c)
    return cs


# ----------------------------------------------------------------------------------------------
# end to end over the real asyncio selector transport
# ----------------------------------------------------------------------------------------------

_BASE = _LETTERS * (LINE // len(_LETTERS) + 2)
_stream_cache = bytearray()


def _line(number: int) -> bytes:
    """line `number` of the generated stream: LINE - 1 letters (which ones depends on the line number) + LF"""
    s = (number * LINE + number) % len(_LETTERS)
    return _BASE[s:s + LINE - 1] + b"\n"


def stream_slice(pos: int, n: int) -> bytes:
    """bytes pos … pos+n-1 of the generated stream"""
    while len(_stream_cache) < pos + n:
        _stream_cache.extend(_line(len(_stream_cache) // LINE))
    return bytes(_stream_cache[pos:pos + n])


def big_socketpair() -> tuple[socket.socket, socket.socket]:
    a, b = socket.socketpair()
    for s in (a, b):
        for opt in (socket.SO_SNDBUF, socket.SO_RCVBUF):
            try:
                s.setsockopt(socket.SOL_SOCKET, opt, 4 << 20)
            except OSError:
                pass
    b.setblocking(False)
    return a, b


class _PeerWriter:
    """the peer's side of the socketpair: bursts written at once; what the kernel does not take now is written as soon as
    possible (so the account `received == written` always holds; the schedule is then less sharp, never wrong)"""

    def __init__(self, sock: socket.socket) -> None:
        self.sock = sock
        self.unsent = bytearray()
        self.written = bytearray()

    def write(self, data: bytes) -> int:
        self.unsent += data
        return self.flush()

    def flush(self) -> int:
        total = 0
        while self.unsent:
            try:
                n = self.sock.send(self.unsent)
            except (BlockingIOError, InterruptedError):
                break
            except OSError:
                self.unsent.clear()
                break
            self.written += self.unsent[:n]
            del self.unsent[:n]
            total += n
        return total


class BulkRun:
    """
    via "transport": the asyncio stream transport of backend.wrap_stream_socket()    ops ["recvinto", cap, timeout] ["recv", n, timeout]
    via "endpoint" : AsyncStreamEndpoint over it, path "buffered" (StringLineSerializer(limit=cap): the receive buffer has `cap`
                     bytes) or "copy" (transport.recv(max_recv_size = cap))                 op  ["recvpkt", timeout]
    common ops: ["peer", n] (a burst of n bytes of the generated stream) | ["cancel"] (call_soon(task.cancel): next iteration,
    BEFORE its I/O) | ["cancel-late"] (a timer already due: next iteration, AFTER its I/O) | ["tick", d] | ["turn"]
    """

    def __init__(self, via: str, path: str, cap: int) -> None:
        from easynetwork.lowlevel.api_async.backend._asyncio.backend import AsyncIOBackend

        self.loop = VLoop()
        self.backend = AsyncIOBackend()
        self.a, self.b = big_socketpair()
        self.peer = _PeerWriter(self.b)
        self.via = via
        self.lines: list[str] = []
        self.task: asyncio.Task | None = None
        self.received = bytearray()
        self.failed = False
        self.endpoint = None

        async def setup():
            tr = await self.backend.wrap_stream_socket(self.a)
            if via == "endpoint":
                from easynetwork.lowlevel.api_async.endpoints.stream import AsyncStreamEndpoint
                from easynetwork.protocol import BufferedStreamProtocol, StreamProtocol
                from easynetwork.serializers.line import StringLineSerializer

                ser = StringLineSerializer("LF", encoding="ascii", limit=max(cap, 2 * LINE))
                proto = BufferedStreamProtocol(ser) if path == "buffered" else StreamProtocol(ser)
                self.endpoint = AsyncStreamEndpoint(tr, proto, max_recv_size=cap)
            return tr

        t = self.loop.create_task(setup())
        self.loop.turns_until(t.done, 20)
        self.tr = t.result()

    @property
    def written(self) -> bytearray:
        return self.peer.written

    async def _recv(self, op: list):
        k, timeout = op[0], op[-1]

        async def once():
            if k == "recvinto":
                buf = bytearray(op[1])
                n = await self.tr.recv_into(buf)
                return bytes(buf[:n])
            if k == "recv":
                return await self.tr.recv(op[1])
            return (await self.endpoint.recv_packet()).encode("ascii") + b"\n"

        if timeout is None:
            return await once()
        with self.backend.timeout(timeout):
            return await once()

    def op(self, op: list) -> None:
        k = op[0]
        out = self.lines
        if k in ("recvinto", "recv", "recvpkt"):
            if self.task is not None:
                out.append("busy")
            else:
                self.task = self.loop.create_task(self._recv(op))
                out.append("start")
        elif k == "peer":
            n = self.peer.write(stream_slice(len(self.peer.written) + len(self.peer.unsent), op[1]))
            out.append(f"peer {n}")
        elif k == "cancel":
            if self.task is not None:
                self.loop.call_soon(self.task.cancel)
            out.append("cancel")
        elif k == "cancel-late":
            if self.task is not None:
                self.loop.call_at(self.loop.time(), self.task.cancel)
            out.append("cancel-late")
        elif k == "tick":
            self.loop.advance(op[1])
            out.append("tick")
        elif k == "turn":
            self.loop.turn()
            self.peer.flush()
            t = self.task
            if t is None:
                out.append("idle")
            elif not t.done():
                out.append("parked")
            else:
                self.task = None
                if t.cancelled():
                    out.append("cancelled")
                elif t.exception() is not None:
                    e = t.exception()
                    if isinstance(e, TimeoutError):
                        out.append("timeout")
                    else:
                        self.failed = True
                        out.append(drv.exc_code(e) if isinstance(e, OSError) else f"err {type(e).__name__}: {e}"[:160])
                else:
                    self.received += t.result()
                    out.append(f"data {drv.hx(t.result())}")
        else:
            raise core.InfraError(f"unknown C10 bulk op {op!r}")

    def _drain_op(self) -> list:
        if self.via == "endpoint":
            return ["recvpkt", None]
        return ["recvinto", 65536, None]

    def _expected(self) -> bytes:
        w = bytes(self.written)
        if self.via == "endpoint":
            return w[:w.rfind(b"\n") + 1]
        return w

    def finish(self) -> None:
        for _ in range(3):
            self.op(["turn"])
        if self.task is not None:
            self.op(["cancel"])
            self.op(["turn"])
            self.op(["turn"])
        limit = len(self._expected()) // (LINE if self.via == "endpoint" else 4096) + 40
        _drain(self, self._drain_op(), lambda: len(self.received) >= len(self._expected()) or self.failed, limit)

    def result_lines(self) -> list[str]:
        exp, got = self._expected(), bytes(self.received)
        lines = _squeeze(self.lines)
        lines.append(f"written {drv.hx(exp)}")
        lines.append(f"received {drv.hx(got)}")
        lines.append(account(exp, got))
        if self.loop.unhandled:
            lines.append("unhandled " + "|".join(self.loop.unhandled))
        return lines

    def close(self) -> None:
        try:
            t = self.loop.create_task(self.tr.aclose())
            self.loop.turns_until(t.done, 20)
        finally:
            self.b.close()
            self.loop.shutdown()
            try:
                self.a.close()
            except OSError:
                pass


def account(exp: bytes, got: bytes) -> str:
    if exp == got:
        return "check eq"
    off = next((i for i, (x, y) in enumerate(zip(exp, got)) if x != y), min(len(exp), len(got)))
    if off == len(got):
        return f"check prefix {len(got)} of {len(exp)}"
    return f"check diff at {off} received {len(got)} written {len(exp)}"


def _drain(run: Any, receive_op: list, done, limit: int) -> None:
    """plain receives until everything written has been received (or a receive fails / nothing more comes); the lines of the
    drain are summarised: `drained <bytes>` + the outcome that ended it, if it is not data"""
    mark, before = len(run.lines), len(run.received)
    n, last = 0, ""
    while not done() and n < limit:
        run.op(receive_op)
        for _ in range(12):
            run.op(["turn"])
            if run.task is None:
                break
        if run.task is not None:  # nothing more comes
            run.op(["cancel"])
            run.op(["turn"])
            run.op(["turn"])
            last = "nothing-more"
            break
        if not run.lines[-1].startswith("data "):
            last = run.lines[-1]
            if last.startswith("err "):
                break
        n += 1
    del run.lines[mark:]
    run.lines.append(f"drained {len(run.received) - before}")
    if last:
        run.lines.append(last)


def _squeeze(lines: list[str]) -> list[str]:
    """runs of identical drain lines collapsed (`start`/`data …` pairs of the final drain stay readable in a replay)"""
    out: list[str] = []
    for ln in lines:
        key = ln.split(" ")[0]
        if len(out) >= 2 and key in ("start", "data", "idle") and out[-1].split(" ")[0] in (key, key + "*") \
                and out[-2].split(" ")[0] == key:
            prev = out[-1]
            cnt = int(prev.split(" x")[-1]) + 1 if prev.startswith(key + "* ") else 2
            out[-1] = f"{key}* x{cnt}"
        else:
            out.append(ln)
    return out


class TLSBulkRun(drv.TLSRun):
    """TLSRun with bursts of plaintext larger than the ciphertext reader's 256 KiB buffer and receives of `recv_size` bytes"""

    def __init__(self, recv_size: int) -> None:
        super().__init__()
        for s in (self.a, self.b):
            for opt in (socket.SO_SNDBUF, socket.SO_RCVBUF):
                try:
                    s.setsockopt(socket.SOL_SOCKET, opt, 4 << 20)
                except OSError:
                    pass
        self.recv_size = recv_size
        self.max_drains = 400
        self.wire = _PeerWriter(self.b)

    def op(self, op: list) -> None:
        if op[0] == "peer" and isinstance(op[1], int):
            data = stream_slice(len(self.written), op[1])
            self.peer.write(data)
            self.wire.write(self.pout.read())
            self.written += data
            self.lines.append(f"peer {len(data)}")
            return
        if op[0] == "cancel-late":
            if self.task is not None:
                self.loop.call_at(self.loop.time(), self.task.cancel)
            self.lines.append("cancel-late")
            return
        super().op(op)
        if op[0] == "turn":
            self.wire.flush()

    def finish(self, expected: int = 0) -> None:
        for _ in range(3):
            self.op(["turn"])
        if self.task is not None:
            self.op(["cancel"])
            self.op(["turn"])
            self.op(["turn"])
        self.peer_drain()
        _drain(self, ["recvpkt", None], lambda: len(self.received) >= len(self.written), self.max_drains)
        self.packets = []

    def result_lines(self) -> list[str]:
        exp, got = bytes(self.written), bytes(self.received)
        lines = _squeeze(self.lines)
        lines.append(f"written {drv.hx(exp)}")
        lines.append(f"received {drv.hx(got)}")
        lines.append(account(exp, got))
        if self.loop.unhandled:
            lines.append("unhandled " + "|".join(self.loop.unhandled))
        return lines


def run(case: dict) -> list[str]:
    if case["via"] == "tls":
        r: Any = TLSBulkRun(case.get("recv_size", 65536))
    else:
        r = BulkRun(case["via"], case.get("path", "buffered"), case["cap"])
    try:
        for op in case["ops"]:
            r.op(op)
        if case["via"] == "tls":
            r.finish(0)
        else:
            r.finish()
        return r.result_lines()
    finally:
        r.close()


def oracle(case: dict, real: list[str]) -> str | None:
    acc = next((ln for ln in real if ln.startswith("check ")), "check ?")
    errs = sorted({ln for ln in real if ln.startswith("err ")})
    unhandled = next((ln for ln in real if ln.startswith(("unhandled", "harness-exc"))), None)
    tail = (f"; a receive failed with {', '.join(e[4:] for e in errs)}" if errs else "") + (f"; event loop: {unhandled}" if unhandled else "")
    if acc != "check eq":
        what = "packets" if case["via"] == "endpoint" else "plaintext" if case["via"] == "tls" else "bytes"
        return f"{what} returned by all receives != {what} the peer wrote ({acc[6:]})" + tail
    if errs:
        return f"a receive failed with {errs[0][4:]}" + tail.split(";", 2)[-1]
    return unhandled


def nontrivial(case: dict, real: list[str]) -> str | None:
    if any(ln in ("cancelled", "timeout") for ln in real):
        return f"e2e/bulk/{case['via']}/{case.get('path', '-')}/" + ("timeout" if "timeout" in real else "cancel")
    return None


def shrink(case: dict):
    ops = case["ops"]
    for i in range(len(ops)):
        yield {**case, "ops": ops[:i] + ops[i + 1:]}


def _receive_op(via: str, cap: int, timeout) -> list:
    if via == "endpoint":
        return ["recvpkt", timeout]
    if via == "tls":
        return ["recvpkt", timeout]
    return ["recvinto", cap, timeout]


def _bulk_case(via: str, path: str, cap: int, burst: int, how: str, tail: int, recv_size: int = 65536) -> dict:
    timeout = 1.0 if how == "timeout" else None
    ops: list[list] = [_receive_op(via, cap, timeout), ["turn"], ["turn"], ["peer", burst]]
    ops.append({"timeout": ["tick", 1.0], "cancel": ["cancel"], "cancel-late": ["cancel-late"]}[how])
    ops += [["turn"], ["turn"], ["peer", tail], ["turn"]]
    case: dict[str, Any] = {"layer": "e2e", "kind": "bulk", "via": via, "path": path if via == "endpoint" else via, "cap": cap, "ops": ops}
    if via == "tls":
        case["recv_size"] = recv_size
    return case


def corpus_bulk() -> list[dict]:
    m = drv.real_max_size()
    high, _ = water_marks(m)
    cs: list[dict] = []
    for cap in (m - 1, m, m + 1, m + m // 2, high, 65536):
        for how in ("timeout", "cancel-late", "cancel"):
            if how == "cancel" and cap != m:
                continue
            cs.append(_bulk_case("transport", "-", cap, cap + m // 2, how, 8192))
    # the burst fills the buffer exactly / all but one byte, nothing else is queued when the reader is cancelled
    cs.append(_bulk_case("transport", "-", m, m, "timeout", 8192))
    cs.append(_bulk_case("transport", "-", m, m - 1, "cancel-late", 8192))
    for path in ("buffered", "copy"):
        for cap in (m, m + LINE, high):
            for how in ("timeout", "cancel-late"):
                cs.append(_bulk_case("endpoint", path, cap, cap + m // 2, how, 4 * LINE))
    for how in ("timeout", "cancel-late", "cancel"):
        cs.append(_bulk_case("tls", "tls", m, m + m // 2, how, 8192))
    cs.append(_bulk_case("tls", "tls", m, m + m // 2, "timeout", 8192, recv_size=1 << 20))
    return cs


def gen_bulk(rng) -> dict:
    m = drv.real_max_size()
    high, low = water_marks(m)
    via = rng.choice(["transport", "transport", "endpoint", "endpoint", "tls"])
    path = rng.choice(["buffered", "buffered", "copy"])
    cap = rng.choice([m - 1, m, m, m + 1, 2 * m, high - 1, high, high + 1, low, 65536, m + LINE])
    if via == "endpoint":
        cap = max(cap, 4 * LINE)
    ops: list[list] = []
    for _ in range(rng.randint(1, 3)):
        how = rng.choice(["timeout", "timeout", "cancel-late", "cancel", "none"])
        t = rng.choice([0.5, 1.0])
        ops.append(_receive_op(via, cap, t if how == "timeout" else None))
        ops += [["turn"]] * rng.randint(1, 2)
        burst = rng.choice([cap - 1, cap, cap + 1, cap + m // 2, cap + m, high, m, 3 * LINE])
        w: list[list] = [["peer", max(1, burst)]]
        if how == "timeout":
            w.append(["tick", t])
        elif how != "none":
            w.append([how])
        if rng.random() < 0.2:
            w.reverse()
        ops += w
        ops += [["turn"]] * rng.randint(1, 3)
        if rng.random() < 0.7:
            ops.append(["peer", rng.choice([1, LINE, 8192, m // 4])])
    case: dict[str, Any] = {"layer": "e2e", "kind": "bulk", "via": via, "path": path if via == "endpoint" else via, "cap": cap, "ops": ops}
    if via == "tls":
        case["recv_size"] = rng.choice([16384, 65536, 1 << 20])
    return case
