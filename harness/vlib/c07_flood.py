"""
C07, round 5 — floods of IGNORABLE input: bytes a framer skips, or frames that carry nothing.

C07's unterminated data used to be "the beginning of one frame that never ends" (a string that never closes, filler bytes without
separator).  A framer that puts a class of bytes ASIDE before its size check starts (whitespace between JSON documents, empty
lines, keep-alive separators …) is a different region: nothing in those bytes belongs to a frame, yet they are received and, if they
are held, they are held without bound.  Case kind `flood` (installed into harness/props/c07.py by `install`; the stream is built
here, the run / model run are C07's own):

    stream = lead x small complete frames  +  pre  +  FLOOD  +  post  +  (then = tail: two small complete frames a, b
                                                                          then = open: `m` bytes of a frame that never ends
                                                                          then = none: nothing)
    unit   what the flood is made of, per framer — whatever the REAL serializer treats as skippable / empty:
             ws       raw JSON: the four JSON whitespace bytes 20 09 0d 0a (`alpha` = the subset used; one byte value alone, pairs,
                      all four; cyclic or random order `mix`), at a document boundary (pre = "") or INSIDE an open document
                      (pre = `[`, `{"k":`, `[1,` …, post = the closing bracket or nothing)
             wsline   JSON lines: whitespace other than the newline (a line that never ends and that the JSON decoder would ignore)
             sep      separator framers (line, AutoSeparated subclass, JSON lines, base64, composite): the separator repeated = empty
                      frames (empty lines, keep-alive terminators, empty base64 tokens)
             sephead  separators of 2+ bytes: the separator without its last byte, repeated (never the whole separator)
             empty    file toys: zero-length frames (header 0)
    flen   length of the flood in bytes, up to hundreds of times the limit; any chunking (`cuts`), both paths, hints

oracle (unchanged in substance — the property's first clause at every step, then resumption):
  * after every read: the bytes received since the last delivered item (packet or error) never exceed limit + |separator| + the
    last read without a limit error having been raised; the buffered path never offers more than `limit` bytes of buffer;
  * a flood of ignorable bytes delivers nothing but limit errors; a flood of empty frames delivers exactly one item per frame
    (the item the real one-shot codec gives for an empty frame);
  * then = tail: the stream resumes — the last item is the packet of frame b (and, behind a flood of whole frames, a then b);
  * a document made of an opening bracket, a flood far beyond the limit and the closing bracket is never delivered.
"""
from __future__ import annotations

import random
from typing import Any

from vlib import core, sers, streamdrive as sd

WS = [0x20, 0x09, 0x0D, 0x0A]
COUNT: dict[str, int] = {}


def _kind(spec: dict) -> str:
    r = sers.recv_spec(spec)
    if r["k"] == "json":
        return "jsonl" if r.get("use_lines", True) else "jsonraw"
    return "toy" if r["k"] in sers.FILE_TOYS else r["k"]


def units_of(spec: dict) -> list[str]:
    k = _kind(spec)
    if k == "jsonraw":
        return ["ws"]
    if k == "toy":
        return ["empty"]
    sep = sers.separator(spec) or b""
    out = ["sep"]
    if k == "jsonl":
        out.append("wsline")
    if len(sep) >= 2 and sep not in (sep[:-1] * 3):
        out.append("sephead")
    return out


def flood_bytes(case: dict) -> bytes:
    spec, unit, flen = case["spec"], case["unit"], case["flen"]
    sep = sers.separator(spec) or b""
    if unit in ("ws", "wsline"):
        alpha = bytes.fromhex(case.get("alpha") or "20090d0a")
        if unit == "wsline":
            alpha = bytes(b for b in alpha if b != 0x0A) or b" "
        if case.get("mix"):
            rnd = random.Random(case["mix"])
            return bytes(rnd.choice(alpha) for _ in range(flen))
        return (alpha * (flen // len(alpha) + 1))[:flen]
    if unit == "sep":
        return sep * max(1, flen // len(sep))
    if unit == "sephead":
        head = sep[:-1]
        return (head * (flen // len(head) + 1))[:flen]
    if unit == "empty":
        hdr = sers.recv_spec(spec).get("hdr", 1)
        return b"\0" * (hdr * max(1, flen // hdr))
    raise ValueError(unit)


_CLOSER = {b"[": b"]", b"{": b"}"}


def small(case: dict, payload) -> tuple[bytes, bytes]:
    """(payload, frame) of the small complete frame used as lead / tail: self-delimiting, safely under every limit used here"""
    spec = case["spec"]
    k = _kind(spec)
    n = {"jsonraw": 3, "jsonl": 3, "b64": 4}.get(k, 1)
    p = payload(spec, n)
    sep = sers.separator(spec)
    return p, p + (sep or b"")


def stream(case: dict, payload) -> bytes:
    """`payload` = c07._payload"""
    _, frame = small(case, payload)
    pre = bytes.fromhex(case.get("pre") or "")
    post = bytes.fromhex(case.get("post") or "")
    out = frame * case.get("lead", 0) + pre + flood_bytes(case) + post
    then = case.get("then", "none")
    if then == "tail":
        out += frame * 2
    elif then == "open":
        m = case.get("m", 0)
        k = _kind(case["spec"])
        if k == "jsonraw":
            out += (b'["' + b"a" * m)[:max(m, 1)]
        elif k == "toy":
            hdr = sers.recv_spec(case["spec"]).get("hdr", 1)
            out += (bytes([200]) if hdr == 1 else (60000).to_bytes(hdr, "big")) + b"q" * min(m, 199)
        else:
            sep = sers.separator(case["spec"]) or b"\n"
            fill = next(bytes([c]) for c in b"bcxyz" if c not in sep)
            out += fill * m
    return out


def model_ok(case: dict) -> bool:
    """model runs for the floods of moderate size (the Lean framers are quadratic in what is pending)"""
    return case["flen"] <= 200 and (sers.limit_of(case["spec"]) or 0) <= 64 and _kind(case["spec"]) != "toy"


def _item_of(spec: dict, data: bytes) -> str:
    from easynetwork.exceptions import DeserializeError
    ser = sers.sender(sers.recv_spec(spec))
    try:
        return sd.pkt_line(sd.frame_decode(spec, ser, data))
    except DeserializeError:
        return "err parse"


def oracle(case: dict, real: list[str], payload) -> str | None:
    if real and real[0].startswith("skipped:"):
        return None             # (genericfr.SKIPPED: the watchdog fired three times already in this run)
    spec = case["spec"]
    lim = sers.limit_of(spec)
    sep = sers.separator(spec) or b""
    k = _kind(spec)
    unit = case["unit"]
    COUNT[f"{k}/{unit}"] = COUNT.get(f"{k}/{unit}", 0) + 1
    # ---- one pass: exceptions, the bound after every read, items
    held, last_read = 0, 0
    reads: list[int] = []
    items: list[str] = []
    flags = set()
    for ln in real:
        c = ln[0]
        if c == "r":
            if ln[1] == "o":        # room <n>
                if int(ln[5:]) > lim:
                    return f"buffered path offered a write buffer of {ln[5:]} bytes > limit {lim}"
                continue
            if held > lim + len(sep) + last_read:
                return (f"{held} bytes of a flood of ignorable input ({unit}) held since the last delivered item (limit {lim} + read {last_read} "
                        f"+ separator {len(sep)}) and no limit error raised")
            last_read = int(ln[5:])
            reads.append(last_read)
            held += last_read
        elif c == "p" or c == "e":
            items.append(ln)
            held = 0
        elif ln.startswith("harness-exc"):
            return "unexpected exception: " + ln
        else:
            flags.add(ln.split()[0])
    if "crashed" in flags:
        return "RuntimeError escaped from the consumer (write buffer exhausted before a limit error was raised)"
    why = sd.mutated(real) if "mutated" in flags else None
    if why:
        return why
    if "loop" in flags:
        return "more items than bytes received: an error that consumes nothing is reported for ever"
    if held > lim + len(sep) + last_read:
        return f"{held} bytes of a flood of ignorable input ({unit}) held at the end of the stream and no limit error raised (limit {lim})"
    maxread = max(reads) if reads else 0
    # ---- what was delivered
    p, frame = small(case, payload)
    keep = sep if sers.keep_end(spec) else b""
    small_item = _item_of(spec, p + keep)
    toy_unsafe = k == "toy" and len(p) + maxread > lim          # (file toys: frame + one read must fit, C07 table)
    lead = case.get("lead", 0)
    if not toy_unsafe and items[:lead] != [small_item] * lead:
        return f"the {lead} small frame(s) in front of the flood were delivered as {items[:lead]} (expected {small_item})"
    rest = items[lead:] if not toy_unsafe else items
    then = case.get("then", "none")
    if unit in ("sep", "empty") and not toy_unsafe:
        n_units = len(flood_bytes(case)) // (len(sep) if unit == "sep" else sers.recv_spec(spec).get("hdr", 1))
        empty_item = _item_of(spec, (b"" if unit == "sep" else bytes(sers.recv_spec(spec).get("hdr", 1))) + keep)
        exp = [empty_item] * n_units + ([small_item] * 2 if then == "tail" else [])
        got = rest if then != "open" else rest[:n_units]
        if got != exp:
            i = next((j for j, (a, b) in enumerate(zip(got, exp)) if a != b), min(len(got), len(exp)))
            return (f"a flood of {n_units} empty frames ({unit}) was delivered as {len(got)} items, item #{i}: "
                    f"{got[i:i + 3]} instead of {exp[i:i + 3]}")
        if then == "open" and any(x != "err limit" for x in rest[n_units:]):
            return f"items delivered from unterminated data behind the flood: {rest[n_units:][:4]}"
        return None
    if toy_unsafe:
        return None
    if k == "jsonraw" and then == "tail":
        # raw JSON has no terminator to look for: a limit error for pending whitespace consumes everything received, also the
        # BEGINNING of a document that arrived with it, and what follows is then cut anywhere (left open by the property).  The
        # resumption is judged when the first frame behind the flood arrives whole in one read.
        total = sum(reads)
        start, end = total - 2 * len(frame), total - len(frame)
        acc = 0
        for r in reads:
            acc += r
            if start < acc < end:
                COUNT["resumption_not_judged_tail_cut_by_a_read"] = COUNT.get("resumption_not_judged_tail_cut_by_a_read", 0) + 1
                return None
    if unit == "ws" and not set(bytes.fromhex(case.get("alpha") or "20")) <= set(WS):
        return None             # (0b / 0c are whitespace for bytes.isspace() but not for JSON: only the bound is judged)
    # ignorable bytes: nothing but limit errors comes out of them
    if then == "tail":
        if not rest or rest[-1] != small_item:
            return (f"no resumption behind the flood ({unit}, {case['flen']} bytes): the last item is {rest[-1:] or '<nothing>'}, "
                    f"the last frame sent is {small_item}")
        mid = rest[:-1]
    else:
        mid = rest
    others = [x for x in mid if x != "err limit"]
    allowed = 2 if then == "tail" else (1 if case.get("post") else 0)
    if len(others) > allowed:
        return f"a flood of ignorable bytes ({unit}) produced items other than limit errors: {others[:4]}"
    if k in ("jsonraw", "jsonl"):
        bad = [x for x in others if x.startswith("pkt ") and x != small_item]
        if bad:
            return f"a packet was delivered out of a flood of whitespace: {bad[:2]}"
    return None


def nontrivial(case: dict, real: list[str]) -> str | None:
    lim = sers.limit_of(case["spec"])
    if len(flood_bytes(case)) <= lim:
        return None
    return f"flood/{_kind(case['spec'])}/{case['path']}/{case['unit']}" + ("/inside" if case.get("pre") else "")


def shrink(case: dict):
    if case["flen"] > 1:
        yield {**case, "flen": case["flen"] // 2}
        yield {**case, "flen": case["flen"] - 1}
    if case.get("lead"):
        yield {**case, "lead": 0}
    if case.get("then", "none") != "none":
        yield {**case, "then": "none"}
    if case.get("mix"):
        yield {**case, "mix": 0}
    if case.get("pre"):
        yield {**case, "pre": "", "post": ""}
    cuts = case["cuts"]
    if len(cuts) > 1:
        for i in range(len(cuts)):
            yield {**case, "cuts": cuts[:i] + cuts[i + 1:]}
    a = case.get("alpha") or ""
    if len(a) > 2:
        for i in range(0, len(a), 2):
            yield {**case, "alpha": a[:i] + a[i + 2:]}


def known_key(case: dict, real: list[str], why: str) -> str:
    return f"flood,k={_kind(case['spec'])},path={case['path']},unit={case['unit']}"


# ------------------------------------------------------------------------------------------------
# cases
# ------------------------------------------------------------------------------------------------

_PRES = [("", ""), ("5b", "5d"), ("5b", ""), ("7b226b223a", "7d"), ("5b312c", "5d"), ("5b5b", "")]
_ALPHAS = ["20", "09", "0d", "0a", "0d0a", "2009", "20090d0a", "0a20", "0b", "0c20"]   # (0b / 0c: NOT JSON whitespace, though bytes.isspace())


def _mk(spec, path, unit, flen, cuts, hint=8, **kw) -> dict:
    return {"kind": "flood", "spec": spec, "path": path, "n": 0, "terminated": False, "unit": unit, "flen": flen, "cuts": cuts,
            "hint": hint, "pattern": 0, **kw}


def _specs_small(lim: int) -> list[dict]:
    return [
        {"k": "json", "use_lines": False, "limit": lim},
        {"k": "json", "use_lines": True, "limit": lim},
        {"k": "line", "newline": "LF", "keep_end": False, "encoding": "ascii", "limit": lim},
        {"k": "line", "newline": "CRLF", "keep_end": True, "encoding": "ascii", "limit": lim},
        {"k": "autosep", "sep": "3c7c3e", "limit": lim, "check": True},
        {"k": "autosep", "sep": "0d0a2e", "limit": lim, "check": True, "debug": True},
        {"k": "b64", "inner": {"k": "line", "newline": "LF", "limit": 65536, "encoding": "utf-8"}, "alphabet": "urlsafe", "checksum": False,
         "separator": "0d0a", "limit": max(lim, 8)},
        {"k": "filetoy", "limit": max(lim, 8)},
        {"k": "filepeek", "limit": max(lim, 8), "expected": "exception"},
        {"k": "fileahead", "limit": max(lim, 8), "hdr": 2, "expected": "tuple"},
        {"k": "stapledbuf", "sent": {"k": "line", "newline": "CR", "limit": 1, "encoding": "ascii"},
         "received": {"k": "line", "newline": "CR", "limit": lim, "encoding": "ascii"}},
    ]


def corpus() -> list[dict]:
    out: list[dict] = []
    # (a) raw JSON, at a document boundary: every whitespace alphabet x chunkings x what follows
    for lim in (8, 64):
        spec = {"k": "json", "use_lines": False, "limit": lim}
        for alpha in _ALPHAS[:8] if lim == 8 else ("0a", "0d0a", "20090d0a"):
            for cuts in ([1], [lim + 1, 3], [100000]):
                for flen in (lim + 1, 12 * lim if cuts != [1] else 3 * lim + 5):
                    for lead, then in ((0, "none"), (1, "tail"), (1, "open")):
                        out.append(_mk(spec, "copy", "ws", flen, cuts, alpha=alpha, lead=lead, then=then, m=2 * lim))
        # … and INSIDE an open document (array, object, behind a comma, nested), closed afterwards or never
        for alpha in ("20", "0d0a", "20090d0a") if lim == 8 else ("20090d0a",):
            for pre, post in _PRES[1:]:
                for cuts in ([1], [lim, 2], [100000]):
                    for flen in (lim + 1, 12 * lim if cuts != [1] else 3 * lim + 5):
                        for lead, then in ((0, "none"), (1, "tail")):
                            if then == "tail" and not post:
                                continue        # (behind an opening bracket that is never closed nothing is a frame any more)
                            out.append(_mk(spec, "copy", "ws", flen, cuts, alpha=alpha, pre=pre, post=post, lead=lead, then=then))
    # (b) every other framer: whatever it treats as skippable / empty
    for lim in (8, 64):
        for spec in _specs_small(lim)[1:]:
            toy = _kind(spec) == "toy"
            for unit in units_of(spec):
                for path in (("copy", "buffered") if sers.is_buffered(spec) else ("copy",)):
                    for cuts in ([1], [lim - 3], [10 * lim]) if lim == 8 else ([1], [10 * lim]):
                        if toy:
                            cuts = [min(cuts[0], sers.limit_of(spec) - 4)]
                        for flen in (lim + 1, 12 * lim if cuts != [1] else 3 * lim + 5):
                            for lead, then in ((0, "none"), (1, "tail"), (1, "open")) if lim == 8 else ((1, "tail"),):
                                out.append(_mk(spec, path, unit, flen, cuts, hint=4 if toy else 8, lead=lead, then=then, m=3 * lim,
                                               alpha="20090d"))
    return out


def generate(rng, tier: str, boost: int):
    for _ in range((400 if tier == "quick" else 30000) * boost):
        lim = rng.choice([4, 6, 8, 10, 12, 16, 24, 64])
        spec = dict(rng.choice(_specs_small(lim)) if rng.random() < 0.6 else _specs_small(lim)[0])
        lim = sers.limit_of(spec)
        if spec["k"] == "autosep":
            spec["sep"] = rng.choice(["0a", "0d0a", "7c7c", "616162", "2d2d3e", "3c7c3e", "0d0a2e", "61626364"])
            spec["limit"] = lim = max(lim, 6)
        if spec["k"] == "line":
            spec["newline"] = rng.choice(["LF", "CR", "CRLF"])
        if rng.random() < 0.3 and spec["k"] not in ("stapledbuf",):
            spec["debug"] = True
        toy = _kind(spec) == "toy"
        path = "buffered" if (sers.is_buffered(spec) and rng.random() < 0.5) else "copy"
        unit = rng.choice(units_of(spec))
        flen = rng.choice([lim + 1, lim + 2, 2 * lim, 3 * lim + 10, 10 * lim, 10 * lim + 3, 100 * lim, 300 * lim])
        r = rng.random()
        if r < 0.25:
            cuts = [1]
            flen = min(flen, 1500)
        elif r < 0.5:
            cuts = [rng.randint(1, 5)]
        elif r < 0.8:
            cuts = [rng.choice([1, 2, 3, max(1, lim - 1), lim, lim + 1, 7, 20]) for _ in range(rng.randint(1, 8))]
        else:
            cuts = [rng.choice([2 * lim, 1000, 16384, 100000])]
        hint = rng.choice([1, 2, 3, 8, 64, 16384])
        if unit in ("sep", "empty"):
            flen = min(flen, 500 if _kind(spec) != "jsonl" else 150)    # (one item per unit; a JSON parse error costs 0.1 ms)
        if toy:
            cuts = [min(c, lim - 4) for c in cuts]
            hint = min(hint, lim - 4)
        case = _mk(spec, path, unit, flen, cuts, hint=hint, lead=rng.choice([0, 0, 1, 2]), then=rng.choice(["none", "tail", "tail", "open"]),
                   m=rng.randint(lim, 3 * lim + 10))
        if unit in ("ws", "wsline"):
            case["alpha"] = rng.choice(_ALPHAS[:8] if (unit == "wsline" or rng.random() < 0.85) else _ALPHAS[8:])
            case["mix"] = rng.choice([0, 0, rng.randint(1, 10 ** 6)])
        if unit == "ws" and rng.random() < 0.4:
            case["pre"], case["post"] = rng.choice(_PRES[1:])
            if not case["post"]:
                case["then"] = "none"       # (behind an opening bracket that is never closed nothing is a frame any more)
            elif case["then"] == "open":
                case["then"] = "tail"
        yield case
    # limits at and above the default read size: a flood of several times the limit in reads of 1..16 KiB
    for lim in (20000, 65536):
        for spec in ({"k": "json", "use_lines": False, "limit": lim}, {"k": "json", "use_lines": True, "limit": lim},
                     {"k": "line", "newline": "CRLF", "keep_end": False, "encoding": "ascii", "limit": lim},
                     {"k": "autosep", "sep": "3c7c3e", "limit": lim, "check": True}):
            for unit in units_of(spec):
                if unit == "sep":
                    continue                # (100 000 empty packets: covered with the small limits)
                for path in (("copy", "buffered") if sers.is_buffered(spec) else ("copy",)):
                    yield _mk(spec, path, unit, 3 * lim + rng.randint(1, 5000), [rng.choice([1024, 4096, 16384])], hint=rng.choice([1024, 16384, 65536]),
                              lead=1, then=rng.choice(["tail", "none"]), alpha=rng.choice(_ALPHAS[:8]), m=0)


# ------------------------------------------------------------------------------------------------
# installation into harness/props/c07.py (after the generic framers)
# ------------------------------------------------------------------------------------------------

def install(g: dict) -> None:
    o = {k: g.get(k) for k in ("run_real", "oracle", "nontrivial", "shrink", "known_key", "corpus", "generate", "extra_coverage")}
    mine = lambda c: isinstance(c, dict) and c.get("kind") == "flood"     # noqa: E731
    payload = g["_payload"]

    def run_real_(case):
        if not mine(case):
            return o["run_real"](case)
        # a framer that never returns would hang the check instead of failing it; a stall of the machine is not a failure of the
        # code under test: a hang is reported only if it reproduces under a generous deadline
        from vlib import genericfr
        lines = genericfr._watchdog(o["run_real"], case, 5.0)
        if lines and lines[0].startswith("harness-exc hang"):
            lines = genericfr._watchdog(o["run_real"], case, 15.0)
        return lines

    def oracle_(case, real):
        return oracle(case, real, payload) if mine(case) else o["oracle"](case, real)

    def nontrivial_(case, real):
        return nontrivial(case, real) if mine(case) else o["nontrivial"](case, real)

    def shrink_(case):
        return shrink(case) if mine(case) else o["shrink"](case)

    def known_key_(case, real, why):
        return known_key(case, real, why) if mine(case) else o["known_key"](case, real, why)

    def corpus_():
        return o["corpus"]() + corpus()

    def generate_(rng, tier, boost):
        yield from o["generate"](rng, tier, boost)
        yield from generate(core.sub_rng(rng.getrandbits(32), "flood"), tier, boost)

    def extra_coverage_(stats):
        d = dict(o["extra_coverage"](stats)) if o["extra_coverage"] else {}
        d["floods_of_ignorable_input_by_framer_and_unit"] = dict(sorted(COUNT.items()))
        return d

    g.update(run_real=run_real_, oracle=oracle_, nontrivial=nontrivial_, shrink=shrink_, known_key=known_key_, corpus=corpus_, generate=generate_,
             extra_coverage=extra_coverage_)
