"""
C14, path `teardown` -- the server-side TEARDOWN of an accepted connection (oracle only, no model run).

`AsyncStreamServer.__client_coroutine` (lowlevel/api_async/servers/stream.py) owns the accepted transport: whatever ends the
client task, and whatever happens to the request handler generator's clean-up code (its `finally:` blocks, run inside
`request_handler_generator.aclose()` or inside the `asend()` that makes the handler finish), the transport must have been
closed when the client task is over.

real run: a real `AsyncStreamServer` over an in-memory `AsyncListener` / `AsyncStreamTransport` (both implement the library's
ABCs, nothing is mocked in the library) on a plain asyncio loop with the library's asyncio backend.  No socket, no clock:
every wait is a bounded number of `asyncio.sleep(0)` loop turns.

case  {"path": "teardown", "params": {...}, "step": None}
  end       why the client task ends
            eof        the peer hangs up (recv() returns b"") while the handler generator is suspended at its yield
            reset      recv() raises ConnectionResetError; serve(disconnect_error_filter=ConnectionError) -> same as eof
            recverr    recv() raises OSError(EIO) (not filtered): the error goes through the client task
            raise      the handler raises after request number `requests` (0: before its first yield)
            return     the handler returns after request number `requests` (0: before its first yield)
            selfclose  the handler closes the transport itself (client.aclose()), then yields again
            shutdown   the serve task is cancelled while the handler waits for the next request
  cleanup   what the handler's `finally:` does
            none       returns at once
            suspend    `k` loop turns then returns
            raise      `k` loop turns then raises RuntimeError
            parked     waits for ever; the serve task is cancelled `k` loop turns after the clean-up has started
            swallow    waits for ever, swallows the first cancellation (cancelled `k` turns after the start), then suspends one
                       more turn and returns
  k         see above (0..3)
  requests  number of requests served before the end (0..2)
  via       how the serve task is cancelled: "task" (task.cancel()) | "scope" (library CancelScope around serve())
  buffered  BufferedStreamProtocol (recv_into path) instead of StreamProtocol
  inner     {"steps": n, "err": bool}: the in-memory transport's own aclose() marks closed, suspends n turns, then raises OSError

lines
  end reason=.. cleanup=.. k=.. requests=.. via=.. buffered=.. inner=..
  served <n>
  cleanup-started <0|1>
  client-task outcome=<ok|cancelled|exc:Type|not-over> transport-closed=<0|1> aclose-calls=<n>     (when the client task ends)
  serve outcome=<cancelled|exc:Type|ok>
  final transport-closed=<0|1> aclose-calls=<n>                   (serve task over and awaited)
"""
from __future__ import annotations

import asyncio
import contextlib
import errno
import logging
from collections.abc import AsyncGenerator, Callable, Coroutine, Mapping
from typing import Any, NoReturn

from vlib import core

BOUND = 400          # loop turns allowed for every wait of the scenario

ENDS = ("eof", "reset", "recverr", "raise", "return", "selfclose", "shutdown")
CLEANUPS = ("none", "suspend", "raise", "parked", "swallow")


def _kind(e: BaseException | None) -> str:
    if e is None:
        return "ok"
    if isinstance(e, asyncio.CancelledError):
        return "cancelled"
    if isinstance(e, BaseExceptionGroup):
        return "exc:group(" + ",".join(sorted({_kind(x) for x in e.exceptions})) + ")"
    return "exc:" + type(e).__name__


def _classes():
    from easynetwork.lowlevel.api_async.transports.abc import AsyncListener, AsyncStreamTransport

    class MemoryStreamTransport(AsyncStreamTransport):
        def __init__(self, backend, inner: dict) -> None:
            self._backend = backend
            self._incoming: asyncio.Queue = asyncio.Queue()
            self._inner = inner or {}
            self.sent = bytearray()
            self.closed = False
            self.close_calls = 0
            self.extra: dict = {}

        def feed(self, item) -> None:
            self._incoming.put_nowait(item)

        async def aclose(self) -> None:
            self.close_calls += 1
            first = not self.closed
            self.closed = True          # contract: marked closed before the first suspension
            if first:
                for _ in range(int(self._inner.get("steps", 0))):
                    await asyncio.sleep(0)
                if self._inner.get("err"):
                    raise OSError(errno.EIO, "scripted close error")
            else:
                await asyncio.sleep(0)

        def is_closing(self) -> bool:
            return self.closed

        async def recv(self, bufsize: int) -> bytes:
            if self.closed:
                raise OSError(errno.EBADF, "closed transport")
            item = await self._incoming.get()
            if isinstance(item, BaseException):
                raise item
            assert len(item) <= bufsize
            return item

        async def recv_into(self, buffer) -> int:
            with memoryview(buffer) as view:
                data = await self.recv(view.nbytes)
                view[: len(data)] = data
                return len(data)

        async def send_all(self, data) -> None:
            if self.closed:
                raise OSError(errno.EBADF, "closed transport")
            self.sent += bytes(data)
            await asyncio.sleep(0)

        async def send_eof(self) -> None:
            await asyncio.sleep(0)

        def backend(self):
            return self._backend

        @property
        def extra_attributes(self) -> Mapping[Any, Callable[[], Any]]:
            return self.extra

    class MemoryListener(AsyncListener):
        def __init__(self, backend, inner: dict) -> None:
            self._backend = backend
            self._inner = inner
            self._accept_queue: asyncio.Queue = asyncio.Queue()
            self._closed = False
            self.client_outcome: str | None = None       # how the client task (the server's coroutine) ended
            self.closed_at_end: int | None = None        # transport.closed at that very moment
            self.calls_at_end: int | None = None
            self.client_tasks: list = []
            self.extra: dict = {}
            self.serving = False

        def connect(self, extra: dict | None = None):
            transport = MemoryStreamTransport(self._backend, self._inner)
            transport.extra = extra or {}
            self._accept_queue.put_nowait(transport)
            return transport

        async def aclose(self) -> None:
            self._closed = True
            await asyncio.sleep(0)

        def is_closing(self) -> bool:
            return self._closed

        async def serve(self, handler: Callable[[Any], Coroutine[Any, Any, None]], task_group=None) -> NoReturn:
            async def client_task(transport) -> None:
                # what every real listener does: run the server's coroutine, log (here: record) what escapes from it
                exc: BaseException | None = None
                self.client_tasks.append(asyncio.current_task())
                try:
                    await handler(transport)
                except asyncio.CancelledError as e:
                    exc = e
                    raise
                except Exception as e:
                    exc = e
                finally:
                    self.client_outcome = _kind(exc)
                    self.closed_at_end = int(transport.closed)
                    self.calls_at_end = transport.close_calls

            self.serving = True
            async with contextlib.AsyncExitStack() as stack:
                if task_group is None:
                    task_group = await stack.enter_async_context(self._backend.create_task_group())
                while True:
                    transport = await self._accept_queue.get()
                    task_group.start_soon(client_task, transport)
            raise AssertionError("unreachable")

        def backend(self):
            return self._backend

        @property
        def extra_attributes(self) -> Mapping[Any, Callable[[], Any]]:
            return self.extra

    return MemoryListener, MemoryStreamTransport


def describe(case: dict) -> str:
    p = case.get("params") or {}
    inner = p.get("inner") or {}
    return (f"layer={p.get('layer', 'lowlevel')} reason={p.get('end')} cleanup={p.get('cleanup')} k={int(p.get('k', 0))} requests={int(p.get('requests', 1))} "
            f"via={p.get('via', 'task')} buffered={int(bool(p.get('buffered')))} "
            f"inner={int(inner.get('steps', 0))}/{int(bool(inner.get('err')))}")


async def _turns(pred: Callable[[], bool], what: str, bound: int = BOUND) -> None:
    for _ in range(bound):
        if pred():
            return
        await asyncio.sleep(0)
    if not pred():
        raise core.InfraError(f"C14 teardown harness: {what} (not within {bound} loop turns)")


async def _scenario(p: dict, lines: list[str]) -> None:
    from easynetwork.lowlevel.api_async.backend.utils import ensure_backend
    from easynetwork.lowlevel.api_async.servers.stream import AsyncStreamServer
    from easynetwork.protocol import BufferedStreamProtocol, StreamProtocol
    from easynetwork.serializers.line import StringLineSerializer

    end = p["end"]
    cleanup = p.get("cleanup", "none")
    k = int(p.get("k", 0))
    nreq = int(p.get("requests", 1))
    via = p.get("via", "task")
    if end not in ENDS or cleanup not in CLEANUPS or via not in ("task", "scope"):
        raise core.InfraError(f"C14 teardown harness: unknown case parameters {p!r}")
    backend = ensure_backend("asyncio")
    MemoryListener, _ = _classes()
    listener = MemoryListener(backend, p.get("inner") or {})
    proto_cls = BufferedStreamProtocol if p.get("buffered") else StreamProtocol
    server = AsyncStreamServer(listener, proto_cls(StringLineSerializer()), max_recv_size=1024)

    st = {"served": 0, "waiting": False, "cleanup": False, "cleanup_done": False, "selfclosed": False}
    never = asyncio.Event()

    async def run_cleanup() -> None:
        st["cleanup"] = True
        try:
            if cleanup == "none":
                return
            if cleanup in ("suspend", "raise"):
                for _ in range(k):
                    await asyncio.sleep(0)
                if cleanup == "raise":
                    raise RuntimeError("error in the request handler's clean-up")
                return
            if cleanup == "parked":
                await never.wait()
                return
            if cleanup == "swallow":
                try:
                    await never.wait()
                except asyncio.CancelledError:
                    pass
                await asyncio.sleep(0)
                return
        finally:
            st["cleanup_done"] = True

    async def handler(client) -> AsyncGenerator[float | None, str]:
        try:
            while True:
                if st["served"] >= nreq:
                    if end == "raise":
                        raise ValueError("error in the request handler")
                    if end == "return":
                        return
                    if end == "selfclose" and not st["selfclosed"]:
                        st["selfclosed"] = True
                        await client.aclose()
                st["waiting"] = True
                request = yield None
                st["waiting"] = False
                await client.send_packet(request.upper())
                st["served"] += 1
        finally:
            await run_cleanup()

    scope_box: list = []

    async def serve() -> None:
        if via == "scope":
            with backend.open_cancel_scope() as scope:
                scope_box.append(scope)
                await server.serve(handler, disconnect_error_filter=lambda exc: isinstance(exc, ConnectionError))
        else:
            await server.serve(handler, disconnect_error_filter=lambda exc: isinstance(exc, ConnectionError))

    serve_task = asyncio.get_running_loop().create_task(serve())

    ncancel = [0]

    def cancel_serve() -> None:
        # first request: the serve task (or the scope around serve()) is cancelled, which is what a server shutdown does.
        # A cancellation requested again later (the clean-up swallowed or outlived the first one) is what asyncio.run() does
        # on its way out: every task still alive is cancelled, the client task included (asyncio's task group does not
        # forward a second cancellation of its parent to the children).
        ncancel[0] += 1
        if via == "scope" and scope_box:
            scope_box[0].cancel()
        else:
            serve_task.cancel()
        if ncancel[0] > 1:
            for t in listener.client_tasks:
                if not t.done():
                    t.cancel()

    def client_over() -> bool:
        return listener.client_outcome is not None

    try:
        transport = listener.connect()
        for i in range(nreq):
            if client_over() or serve_task.done():
                break
            transport.feed(b"req%d\n" % i)
            want = b"".join(b"REQ%d\n" % j for j in range(i + 1))
            await _turns(lambda: bytes(transport.sent) == want or client_over() or serve_task.done(),
                         f"the server did not answer request {i}")
        # ---- the end
        if end in ("eof", "reset", "recverr", "shutdown"):
            await _turns(lambda: st["waiting"] or client_over() or serve_task.done(), "the handler never waited for a request")
            # (let the receive call really park)
            for _ in range(3):
                await asyncio.sleep(0)
        if end == "eof":
            transport.feed(b"")
        elif end == "reset":
            transport.feed(ConnectionResetError(errno.ECONNRESET, "scripted reset"))
        elif end == "recverr":
            transport.feed(OSError(errno.EIO, "scripted receive error"))
        elif end == "shutdown":
            cancel_serve()
        cancelled = end == "shutdown"
        # ---- the clean-up
        await _turns(lambda: st["cleanup"] or client_over() or serve_task.done(), "the handler's clean-up never started")
        if cleanup in ("parked", "swallow") and st["cleanup"] and not st["cleanup_done"]:
            for _ in range(k):
                await asyncio.sleep(0)
            cancel_serve()
            cancelled = True
        # ---- the client task must end by itself now (bounded)
        for _ in range(BOUND):
            if client_over() or serve_task.done():
                break
            await asyncio.sleep(0)
        lines.append(f"served {st['served']}")
        lines.append(f"cleanup-started {int(st['cleanup'])}")
        if client_over():
            lines.append(f"client-task outcome={listener.client_outcome} transport-closed={listener.closed_at_end} "
                         f"aclose-calls={listener.calls_at_end}")
        else:
            lines.append(f"client-task outcome=not-over transport-closed={int(transport.closed)} "
                         f"aclose-calls={transport.close_calls}")
        # ---- the serve task: cancelled (if not yet) and awaited
        if not cancelled and not serve_task.done():
            cancel_serve()
        for _ in range(BOUND):
            if serve_task.done():
                break
            await asyncio.sleep(0)
        if not serve_task.done():
            lines.append("serve outcome=not-over")
        else:
            lines.append("serve outcome=" + (_kind(asyncio.CancelledError()) if serve_task.cancelled()
                                             else _kind(serve_task.exception())))
        lines.append(f"final transport-closed={int(transport.closed)} aclose-calls={transport.close_calls}")
    finally:
        never.set()
        if not serve_task.done():
            serve_task.cancel()
            for _ in range(BOUND):
                if serve_task.done():
                    break
                await asyncio.sleep(0)
        if serve_task.done() and not serve_task.cancelled():
            serve_task.exception()
        with contextlib.suppress(Exception):
            await server.aclose()


TCP_ENDS = ("eof", "reset", "recverr", "raise", "selfclose", "shutdown")


async def _scenario_tcp(p: dict, lines: list[str]) -> None:
    """the same matrix one layer up: the real AsyncTCPNetworkServer (backend= an asyncio backend whose create_tcp_listeners()
    returns the in-memory listener); the clean-up under test is the request handler's on_disconnection() hook, the
    cancellation is `await server.shutdown()` (then, if the hook outlives it, what asyncio.run() does: cancel every task)"""
    from vlib.c15_tcp import inet_extra
    from easynetwork.lowlevel.api_async.backend._asyncio.backend import AsyncIOBackend
    from easynetwork.protocol import BufferedStreamProtocol, StreamProtocol
    from easynetwork.serializers.line import StringLineSerializer
    from easynetwork.servers.async_tcp import AsyncTCPNetworkServer
    from easynetwork.servers.handlers import AsyncStreamRequestHandler

    end = p["end"]
    cleanup = p.get("cleanup", "none")
    k = int(p.get("k", 0))
    nreq = int(p.get("requests", 1))
    if end not in TCP_ENDS or cleanup not in CLEANUPS:
        raise core.InfraError(f"C14 teardown harness: unknown case parameters {p!r}")
    MemoryListener, _ = _classes()

    class Backend(AsyncIOBackend):
        async def create_tcp_listeners(self, host, port, backlog, *, reuse_port=False):
            await asyncio.sleep(0)
            return [listener]

    backend = Backend()
    listener = MemoryListener(backend, p.get("inner") or {})
    listener.extra = inet_extra(("127.0.0.1", 9000))
    st = {"served": 0, "waiting": False, "cleanup": False, "cleanup_done": False, "selfclosed": False}
    never = asyncio.Event()

    class Handler(AsyncStreamRequestHandler):
        async def handle(self, client):
            if st["served"] >= nreq:
                if end == "raise":
                    raise ValueError("error in the request handler")
                if end == "selfclose" and not st["selfclosed"]:
                    st["selfclosed"] = True
                    await client.aclose()
            st["waiting"] = True
            request = yield None
            st["waiting"] = False
            await client.send_packet(request.upper())
            st["served"] += 1

        async def on_disconnection(self, client) -> None:
            st["cleanup"] = True
            try:
                if cleanup in ("suspend", "raise"):
                    for _ in range(k):
                        await asyncio.sleep(0)
                    if cleanup == "raise":
                        raise RuntimeError("error in on_disconnection()")
                elif cleanup == "parked":
                    await never.wait()
                elif cleanup == "swallow":
                    try:
                        await never.wait()
                    except asyncio.CancelledError:
                        pass
                    await asyncio.sleep(0)
            finally:
                st["cleanup_done"] = True

    proto_cls = BufferedStreamProtocol if p.get("buffered") else StreamProtocol
    server = AsyncTCPNetworkServer("127.0.0.1", 0, proto_cls(StringLineSerializer()), Handler(), backend=backend,
                                   log_client_connection=False)
    loop = asyncio.get_running_loop()
    serve_task = loop.create_task(server.serve_forever())
    shutdown_tasks: list = []

    def cancel_serve() -> None:
        shutdown_tasks.append(loop.create_task(server.shutdown()))
        if len(shutdown_tasks) > 1:
            for t in listener.client_tasks:
                if not t.done():
                    t.cancel()

    def client_over() -> bool:
        return listener.client_outcome is not None

    try:
        await _turns(lambda: listener.serving or serve_task.done(), "the server never came up")
        transport = listener.connect(inet_extra(("127.0.0.1", 9000), ("127.0.0.1", 50000)))
        for i in range(nreq):
            if client_over() or serve_task.done():
                break
            transport.feed(b"req%d\n" % i)
            want = b"".join(b"REQ%d\n" % j for j in range(i + 1))
            await _turns(lambda: bytes(transport.sent) == want or client_over() or serve_task.done(),
                         f"the server did not answer request {i}")
        if end in ("eof", "reset", "recverr", "shutdown"):
            await _turns(lambda: st["waiting"] or client_over() or serve_task.done(), "the handler never waited for a request")
            for _ in range(3):
                await asyncio.sleep(0)
        if end == "eof":
            transport.feed(b"")
        elif end == "reset":
            transport.feed(ConnectionResetError(errno.ECONNRESET, "scripted reset"))
        elif end == "recverr":
            transport.feed(OSError(errno.EIO, "scripted receive error"))
        elif end == "shutdown":
            cancel_serve()
        await _turns(lambda: st["cleanup"] or client_over() or serve_task.done(), "on_disconnection() never started")
        if cleanup in ("parked", "swallow") and st["cleanup"] and not st["cleanup_done"]:
            for _ in range(k):
                await asyncio.sleep(0)
            cancel_serve()
        for _ in range(BOUND):
            if client_over() or serve_task.done():
                break
            await asyncio.sleep(0)
        lines.append(f"served {st['served']}")
        lines.append(f"cleanup-started {int(st['cleanup'])}")
        if client_over():
            lines.append(f"client-task outcome={listener.client_outcome} transport-closed={listener.closed_at_end} "
                         f"aclose-calls={listener.calls_at_end}")
        else:
            lines.append(f"client-task outcome=not-over transport-closed={int(transport.closed)} "
                         f"aclose-calls={transport.close_calls}")
        if not shutdown_tasks:
            cancel_serve()
        for _ in range(BOUND):
            if serve_task.done() and all(t.done() for t in shutdown_tasks):
                break
            await asyncio.sleep(0)
        if not serve_task.done():
            lines.append("serve outcome=not-over")
        else:
            lines.append("serve outcome=" + (_kind(asyncio.CancelledError()) if serve_task.cancelled()
                                             else _kind(serve_task.exception())))
        lines.append(f"final transport-closed={int(transport.closed)} aclose-calls={transport.close_calls}")
    finally:
        never.set()
        for t in [serve_task, *shutdown_tasks, *listener.client_tasks]:
            if not t.done():
                t.cancel()
        for _ in range(BOUND):
            if serve_task.done() and all(t.done() for t in shutdown_tasks):
                break
            await asyncio.sleep(0)
        for t in [serve_task, *shutdown_tasks]:
            if t.done() and not t.cancelled():
                t.exception()
        with contextlib.suppress(Exception):
            await server.server_close()


def run_case(case: dict) -> tuple[list[str], dict]:
    logging.getLogger("easynetwork").setLevel(logging.CRITICAL)
    p = case.get("params") or {}
    lines = ["end " + describe(case)]
    loop = asyncio.new_event_loop()
    try:
        loop.run_until_complete((_scenario_tcp if p.get("layer") == "tcp" else _scenario)(p, lines))
    finally:
        try:
            loop.run_until_complete(loop.shutdown_asyncgens())
        finally:
            loop.close()
    return lines, {}


def _kv(line: str) -> dict:
    return dict(x.split("=", 1) for x in line.split()[1:] if "=" in x)


def oracle(case: dict, real: list[str]) -> str | None:
    for ln in real:
        if ln.startswith("harness-exc"):
            return f"unexpected failure: {ln}"
    what = "teardown (" + describe(case) + ")"
    ct = next((ln for ln in real if ln.startswith("client-task ")), None)
    fin = next((ln for ln in real if ln.startswith("final ")), None)
    srv = next((ln for ln in real if ln.startswith("serve ")), None)
    if ct is None or fin is None or srv is None:
        return f"unexpected failure: incomplete trace of {what}: {real}"
    c, f, s = _kv(ct), _kv(fin), _kv(srv)
    if c["outcome"] != "not-over" and c["transport-closed"] != "1":
        return (f"{what}: the client task is over ({c['outcome']}) but the accepted transport has NOT been closed "
                f"(aclose() calls: {c['aclose-calls']})")
    if s["outcome"] != "not-over" and f["transport-closed"] != "1":
        return (f"{what}: the serve task is over ({s['outcome']}) but the accepted transport has NOT been closed "
                f"(aclose() calls: {f['aclose-calls']})")
    if c["outcome"] == "not-over" or s["outcome"] == "not-over":
        if f["transport-closed"] != "1":
            return (f"{what}: the client task never ends (client task {c['outcome']}, serve task {s['outcome']}) and the "
                    f"accepted transport is not closed")
        raise core.InfraError(f"C14 teardown harness: the scenario hangs although the transport is closed: {what}: {real}")
    return None


def nontrivial(case: dict, real: list[str]) -> str | None:
    p = case.get("params") or {}
    ct = next((ln for ln in real if ln.startswith("client-task ")), None)
    if ct is None:
        return None
    started = next((ln for ln in real if ln.startswith("cleanup-started ")), "cleanup-started 0").split()[1]
    if p.get("cleanup", "none") != "none" and started != "1":
        return None          # the clean-up under test did not run
    feats = [str(p.get("end")), "cleanup-" + str(p.get("cleanup", "none")), "out-" + _kv(ct).get("outcome", "?")]
    if p.get("layer") == "tcp":
        feats.insert(0, "tcp")
    if p.get("via") == "scope":
        feats.append("via-scope")
    if p.get("buffered"):
        feats.append("buffered")
    if (p.get("inner") or {}).get("err"):
        feats.append("close-err")
    return "teardown/" + "+".join(feats)


def shrink(case: dict):
    p = dict(case.get("params") or {})
    if p.get("buffered"):
        yield {**case, "params": {**p, "buffered": False}}
    if p.get("via") == "scope":
        yield {**case, "params": {**p, "via": "task"}}
    inner = p.get("inner") or {}
    if inner.get("err") or inner.get("steps"):
        yield {**case, "params": {**p, "inner": {"steps": 0}}}
    if int(p.get("requests", 1)) > 0:
        yield {**case, "params": {**p, "requests": int(p.get("requests", 1)) - 1}}
    if int(p.get("k", 0)) > 0:
        yield {**case, "params": {**p, "k": int(p.get("k", 0)) - 1}}
    if p.get("end") in ("reset",):
        yield {**case, "params": {**p, "end": "eof"}}


def known_key(case: dict, real: list[str], why: str) -> str:
    p = case.get("params") or {}
    layer = ",layer=tcp" if p.get("layer") == "tcp" else ""
    return f"path=teardown{layer},end={p.get('end')},cleanup={p.get('cleanup')}"


def _case(end: str, cleanup: str, k: int = 0, requests: int = 1, via: str = "task", buffered: bool = False,
          inner: dict | None = None, layer: str = "lowlevel") -> dict:
    return {"path": "teardown", "params": {"layer": layer, "end": end, "cleanup": cleanup, "k": k, "requests": requests, "via": via,
                                           "buffered": buffered, "inner": inner or {"steps": 0}}, "step": None}


def grid() -> list[dict]:
    """the full product end reason x clean-up (k = 0 for the kinds without a parameter, k = 0, 1 otherwise): run every time"""
    out = []
    for end in ENDS:
        for cleanup in CLEANUPS:
            ks = (0,) if cleanup == "none" else (0, 1)
            for k in ks:
                out.append(_case(end, cleanup, k))
    for end in TCP_ENDS:
        for cleanup in CLEANUPS:
            out.append(_case(end, cleanup, 0 if cleanup == "none" else 1, layer="tcp"))
    return out


def gen_case(rng) -> dict:
    layer = "tcp" if rng.random() < 0.3 else "lowlevel"
    end = rng.choice(TCP_ENDS if layer == "tcp" else ENDS)
    cleanup = rng.choice(CLEANUPS)
    inner = rng.choice([{"steps": 0}, {"steps": 1}, {"steps": 2}, {"steps": 1, "err": True}, {"steps": 0, "err": True}])
    return _case(end, cleanup, k=rng.randrange(0, 4), requests=rng.randrange(0, 3), via="task" if layer == "tcp" else rng.choice(["task", "task", "scope"]),
                 buffered=rng.random() < 0.35, inner=inner, layer=layer)
