"""
C10, round 5 — the receive entry points ABOVE `AsyncStreamEndpoint.recv_packet()`, cancelled at EVERY suspension point.

Region that was missing.  The e2e cases of C10 cancel `endpoint.recv_packet()`, `_RequestReceiver.next()` and the TLS `recv()`
at chosen loop turns.  What the application calls is one or two layers higher, and every layer adds its own `await`s, its own
timeout scopes and its own local variables in which a packet can sit while the task is suspended:

    source    "tcp"      AsyncTCPNetworkClient          recv_packet() | iter_received_packets(timeout=…) (anext / async for)
              "udp"      AsyncUDPNetworkClient          recv_packet() | iter_received_packets(timeout=…)
              "endpoint" AsyncStreamEndpoint            recv_packet()
              "dgram"    AsyncDatagramEndpoint          recv_packet()
              "srvrecv"  _RequestReceiver / _BufferedRequestReceiver .next(timeout)          (what `timeout = yield` drives)
    (kind "srvfull": the whole server chain — AsyncStreamServer.serve() resp. AsyncTCPNetworkServer — with a request handler that
     yields timeouts, catches TimeoutError and goes on: the requests handed to the handler must be the stream)

All of it is the REAL library code; only the byte / datagram transport underneath is in memory (vlib/c15_env.MemTransport: data
becomes readable at scripted VIRTUAL times, a cancelled read consumes nothing), given to the clients through the public `backend=`
argument (c15_tcp.MemBackend).  Virtual-time loop, no sockets, no wall clock.

Schedule space of one case:
  * `chunks`    [[t, hex]…]  arrival of the stream (several packets in one chunk = a burst that one read parses at once; a packet
                cut over chunks; arrival times equal to the deadlines below = "data and time-out in the same loop iteration")
  * `entry`     how the consumer receives: "recv" | "anext" (one iterator object kept) | "for" (async for) | "anext-new" (a fresh
                iterator per packet) | "next" (srvrecv);  `itimeout` = the iterator's / receiver's own time-out
  * `pre`       packets taken with plain recv before the consumer starts (so that the burst is already parsed)
  * `cancel`    "task"     task.cancel() of the consuming task                       } requested right after the k-th step of the
                "scope"    cancel() of an enclosing backend.move_on_after() scope    } consuming task, for EVERY k = 1..N (N = steps
                "aioscope" an enclosing asyncio.timeout() rescheduled to "now"       } of the undisturbed reference run) — or, with
                                                                                       `every` = q, again at every q-th step
                "deadline" enclosing backend.move_on_after(d) / backend.timeout(d) / asyncio.timeout(d) with the delays of
                           `delays` (0 = already expired: "give me a packet if you have one"), one scope per attempt
    after a cancelled attempt the consumer goes on in the same way (same iterator object) until it has `want` packets or ran out
    of attempts; then the main task drains the source with plain receives until end-of-stream.
Oracle (the property): for EVERY run of the sweep, packets handed to the consumer ++ packets drained afterwards == packets sent,
same order, each once.  A run is a failing input on its own (`only` = k replays one step of the sweep).
"""
from __future__ import annotations

import asyncio
import math
from typing import Any

from vlib import core, streamdrive as sd  # noqa: F401
from vlib import c14_env as c14
from vlib import c15_env as env
from vlib import c15_tcp as mem

from easynetwork.lowlevel.api_async.transports import abc as tr_abc

MAX_ATTEMPTS = 40


class StepInjector(c14.Injector):
    """cancellation requested right after chosen steps of the target task (through task.cancel(), or through `self.scope`)"""

    def __init__(self, steps: set[int] | None, every: int = 0) -> None:
        super().__init__(None)
        self.steps = steps or set()
        self.every = every
        self.hits: list[int] = []
        self.where: list[tuple[str, ...]] = []
        self.aio = None          # an asyncio.Timeout object: "cancel" = reschedule to now

    def after_step(self, task: asyncio.Task) -> None:
        if task is not self.target:
            return
        self.n += 1
        if task.done():
            return
        if self.n in self.steps or (self.every and self.n % self.every == 0 and self.n >= min(self.steps or {1})):
            self.hits.append(self.n)
            self.where.append(c14.coro_chain(task.get_coro())[-3:])
            if self.aio is not None:
                try:
                    self.aio.reschedule(task.get_loop().time())
                except RuntimeError:
                    pass
            elif self.scope is not None:
                self.scope.cancel()
            else:
                task.cancel()


class MemDgram(tr_abc.AsyncDatagramTransport):
    """in-memory connected datagram transport: datagram i is available from virtual time t_i; like the asyncio endpoint queue,
    recv() does not suspend when a datagram is waiting (`yield_first` adds one suspension); a cancelled recv() takes nothing"""

    def __init__(self, incoming: list[tuple[float, bytes]], be, yield_first: bool = False) -> None:
        super().__init__()
        self._be = be
        self.incoming = list(incoming)
        self.pos = 0
        self.closing = False
        self.yield_first = yield_first
        self.sent: list[bytes] = []
        self._extra = mem.inet_extra((mem.HOST, mem.CLIENT_PORT0), (mem.HOST, 9))

    def backend(self):
        return self._be

    def is_closing(self) -> bool:
        return self.closing

    async def aclose(self) -> None:
        self.closing = True
        await asyncio.sleep(0)

    @property
    def extra_attributes(self):
        return self._extra

    async def recv(self) -> bytes:
        loop = asyncio.get_running_loop()
        if self.closing:
            raise OSError(9, "closed")
        if self.yield_first:
            await asyncio.sleep(0)
        if self.pos >= len(self.incoming):
            # nothing more will come: the socket dies at virtual time 500 (so that a consumer that wants more ends)
            if loop.time() < 500.0:
                await asyncio.sleep(500.0 - loop.time())
            raise ConnectionAbortedError(103, "scripted end of the datagram source")
        t, d = self.incoming[self.pos]
        if t > loop.time():
            await asyncio.sleep(t - loop.time())
        self.pos += 1
        return d

    async def send(self, data) -> None:
        self.sent.append(bytes(data))
        await asyncio.sleep(0)


class UdpBackend(mem.MemBackend):
    def __init__(self, dgram_args: tuple) -> None:
        super().__init__()
        self._dgram_args = dgram_args
        self.dgram: MemDgram | None = None

    async def create_udp_endpoint(self, remote_host, remote_port, *, local_address=None, family=0):
        await self.coro_yield()
        self.dgram = MemDgram(*self._dgram_args[:1], self, *self._dgram_args[1:])
        return self.dgram


# ------------------------------------------------------------------------------------------------------------------------
def _packets(case: dict) -> list[str]:
    if case["source"] in ("udp", "dgram"):
        return [bytes.fromhex(h).decode("ascii") for _, h in case["chunks"]]
    data = b"".join(bytes.fromhex(h) for _, h in case["chunks"])
    return [p.decode("ascii") for p in data.split(b"\n")[:-1]]


class Source:
    """one receive stack over a fresh in-memory transport (must be built inside the running loop)"""

    def __init__(self, case: dict) -> None:
        from easynetwork.protocol import BufferedStreamProtocol, DatagramProtocol, StreamProtocol
        from easynetwork.serializers.line import StringLineSerializer

        self.case = case
        self.kind = case["source"]
        ser = StringLineSerializer("LF", encoding="ascii", limit=4096)
        incoming = [(float(t), bytes.fromhex(h)) for t, h in case["chunks"]]
        mrs = case.get("max_recv_size", 8)
        self.client: Any = None
        self.receiver: Any = None
        self.be: Any = None
        if self.kind in ("udp", "dgram"):
            proto = DatagramProtocol(ser)
            if self.kind == "udp":
                from easynetwork.clients.async_udp import AsyncUDPNetworkClient

                mem._quiet()
                self.be = UdpBackend((incoming, bool(case.get("yield_first"))))
                self.client = AsyncUDPNetworkClient((mem.HOST, 9), proto, backend=self.be)
            else:
                from easynetwork.lowlevel.api_async.endpoints.datagram import AsyncDatagramEndpoint

                self.be = env.backend()
                self.client = AsyncDatagramEndpoint(MemDgram(incoming, self.be, bool(case.get("yield_first"))), proto)
            return
        proto = BufferedStreamProtocol(ser) if case["path"] == "buffered" else StreamProtocol(ser)
        if self.kind == "tcp":
            self.client, self.tr, self.be = mem.make_tcp_client(proto, incoming, "eof", None, max_recv_size=mrs)
        elif self.kind == "endpoint":
            from easynetwork.lowlevel.api_async.endpoints.stream import AsyncStreamEndpoint

            self.be = env.backend()
            self.tr = env.MemTransport(incoming, "eof", None)
            self.client = AsyncStreamEndpoint(self.tr, proto, max_recv_size=mrs)
        elif self.kind == "srvrecv":
            from easynetwork.lowlevel import _stream
            from easynetwork.lowlevel.api_async.servers import stream as srv

            self.be = env.backend()
            self.tr = env.MemTransport(incoming, "eof", None)
            if case["path"] == "buffered":
                self.receiver = srv._BufferedRequestReceiver(transport=self.tr, consumer=_stream.BufferedStreamDataConsumer(proto, mrs),
                                                             disconnect_error_filter=None)
            else:
                self.receiver = srv._RequestReceiver(transport=self.tr, consumer=_stream.StreamDataConsumer(proto), max_recv_size=mrs,
                                                     disconnect_error_filter=None)
        else:
            raise core.InfraError(f"unknown C10 source {self.kind!r}")

    async def start(self) -> None:
        if self.kind in ("tcp", "udp"):
            await self.client.wait_connected()

    async def recv(self, timeout: float | None = None) -> str:
        if self.receiver is not None:
            from easynetwork.lowlevel._asyncgen import SendAction

            action = await self.receiver.next(timeout)
            if isinstance(action, SendAction):
                return action.value
            raise action.exception
        return await self.client.recv_packet()

    def iterator(self, timeout: float | None):
        return self.client.iter_received_packets(timeout=timeout)

    async def aclose(self) -> None:
        if self.client is not None:
            await self.client.aclose()
        else:
            await self.tr.aclose()


class _End(Exception):
    """the consumer's receive entry point reported the end (StopAsyncIteration / end-of-stream error)"""


async def _consume(case: dict, src: Source, got: list[str], state: dict) -> None:
    """one ATTEMPT of the consumer: receives through the case's entry point until `want` packets were taken"""
    entry = case["entry"]
    want = case["want"]
    itimeout = case.get("itimeout")
    try:
        if entry in ("recv", "next"):
            while len(got) < want:
                got.append(await src.recv(itimeout if entry == "next" else None))
        elif entry == "anext":
            if state.get("it") is None:
                state["it"] = src.iterator(itimeout)
            while len(got) < want:
                got.append(await anext(state["it"]))
        elif entry == "anext-new":
            while len(got) < want:
                got.append(await anext(src.iterator(itimeout)))
        elif entry == "for":
            if len(got) < want:
                async for p in src.iterator(itimeout):
                    got.append(p)
                    if len(got) >= want:
                        break
                else:
                    raise _End()
        else:
            raise core.InfraError(f"unknown C10 entry {entry!r}")
    except StopAsyncIteration:
        raise _End() from None
    except TimeoutError:
        if entry == "next":
            return          # the receiver's own time-out (what a request handler sees): go on
        raise
    except ConnectionError:
        raise _End() from None


async def _consumer(case: dict, src: Source, got: list[str], inj: StepInjector | None, notes: list[str]) -> None:
    be = src.be
    mode = case["cancel"]
    state: dict = {}
    attempts = 0
    delays = case.get("delays") or [0]
    try:
        while len(got) < case["want"] and attempts < MAX_ATTEMPTS:
            attempts += 1
            if mode == "task":
                await _consume(case, src, got, state)
            elif mode == "scope":
                with be.move_on_after(math.inf) as scope:
                    if inj is not None:
                        inj.scope = scope
                    await _consume(case, src, got, state)
            elif mode == "aioscope":
                try:
                    async with asyncio.timeout(None) as cm:
                        if inj is not None:
                            inj.aio = cm
                        await _consume(case, src, got, state)
                except TimeoutError:
                    pass
            elif mode == "deadline":
                d = delays[(attempts - 1) % len(delays)]
                how = case.get("scope_api", "move_on_after")
                if how == "move_on_after":
                    with be.move_on_after(d):
                        await _consume(case, src, got, state)
                elif how == "timeout":
                    try:
                        with be.timeout(d):
                            await _consume(case, src, got, state)
                    except TimeoutError:
                        pass
                else:
                    try:
                        async with asyncio.timeout(d):
                            await _consume(case, src, got, state)
                    except TimeoutError:
                        pass
            else:
                raise core.InfraError(f"unknown C10 cancel mode {mode!r}")
    except _End:
        notes.append("end")
    except asyncio.CancelledError:
        notes.append("cancelled")
        if mode != "task":
            raise


def _one_run(case: dict, steps: set[int] | None, every: int = 0) -> dict:
    """one run on a fresh virtual loop; returns {"got", "rest", "n", "hits", "notes", "where"}"""
    inj = StepInjector(steps, every)
    res: dict = {"got": [], "rest": [], "notes": []}
    expected = len(_packets(case))

    async def main():
        src = Source(case)
        await src.start()
        got: list[str] = res["got"]
        try:
            for _ in range(case.get("pre", 0)):
                got.append(await src.recv())
        except (ConnectionError, StopAsyncIteration):
            pass
        want_total = case["want"]
        case_ = {**case, "want": len(got) + want_total}
        t = asyncio.ensure_future(_consumer(case_, src, got, inj, res["notes"]))
        inj.arm(t)
        try:
            await t
        except asyncio.CancelledError:
            if not t.cancelled():
                raise
        inj.target = None
        # later receives deliver exactly the rest of the stream
        rest: list[str] = res["rest"]
        try:
            with src.be.move_on_after(1000.0):
                while len(rest) < expected + 2:
                    rest.append(await src.recv())
        except (ConnectionError, StopAsyncIteration):
            pass
        with src.be.move_on_after(1000.0):
            await src.aclose()

    out, _loop = c14.run_with_injector(main, inj, max_turns=20000)
    if out[0] == "exc":
        res["notes"].append(f"main-exc {type(out[1]).__name__}: {out[1]}"[:160])
    res["n"] = inj.n
    res["hits"] = inj.hits
    res["where"] = inj.where
    return res


def _fmt(xs: list[str]) -> str:
    return ",".join(core.hexs(x.encode()) for x in xs) or "-"


def run_sweep(case: dict) -> list[str]:
    lines = ["sent " + _fmt(_packets(case))]
    injected = case["cancel"] in ("task", "scope", "aioscope")
    ref = _one_run(case, None)
    lines.append(f"run ref steps {ref['n']} got {_fmt(ref['got'])} rest {_fmt(ref['rest'])} notes {'|'.join(ref['notes']) or '-'}")
    if not injected:
        return lines
    only = case.get("only")
    every = case.get("every", 0)
    ks = [only] if only else list(range(1, min(ref["n"], 60) + 1))
    for k in ks:
        r = _one_run(case, {k}, every)
        where = ">".join(r["where"][0]) if r["where"] else "-"
        lines.append(f"run k={k} hits {len(r['hits'])} at {where} got {_fmt(r['got'])} rest {_fmt(r['rest'])} notes {'|'.join(r['notes']) or '-'}")
    return lines


# ------------------------------------------------------------------------------------------------------------------------
# the whole server chain: a request handler that yields time-outs and goes on after TimeoutError
# ------------------------------------------------------------------------------------------------------------------------
def run_srvfull(case: dict) -> list[str]:
    from easynetwork.protocol import BufferedStreamProtocol, StreamProtocol
    from easynetwork.serializers.line import StringLineSerializer

    mem._quiet()
    ser = StringLineSerializer("LF", encoding="ascii", limit=4096)
    proto = BufferedStreamProtocol(ser) if case["path"] == "buffered" else StreamProtocol(ser)
    incoming = [(float(t), bytes.fromhex(h)) for t, h in case["chunks"]]
    timeouts = case.get("delays") or [None]
    got: list[str] = []
    notes: list[str] = []
    be = mem.MemBackend()
    tr = be.transport(incoming, "eof", None)
    listener = be.listen([tr])
    mrs = case.get("max_recv_size", 8)

    count = [0]

    async def handle(client):
        # (the high-level server calls handle() again when the generator returns: loop until the connection ends; after 60 requests /
        #  time-outs the handler stops giving time-outs so that every schedule reaches the end of the stream)
        while True:
            i = count[0]
            count[0] += 1
            try:
                req = yield (timeouts[i % len(timeouts)] if i < 60 else None)
            except TimeoutError:
                notes.append("timeout")
                if case.get("sleep_after_timeout"):
                    await asyncio.sleep(case["sleep_after_timeout"])
                continue
            got.append(req)

    async def main():
        if case["server"] == "lowlevel":
            from easynetwork.lowlevel.api_async.servers.stream import AsyncStreamServer

            server = AsyncStreamServer(listener, proto, max_recv_size=mrs)
            t = asyncio.ensure_future(server.serve(handle))
        else:
            from easynetwork.servers.async_tcp import AsyncTCPNetworkServer
            from easynetwork.servers.handlers import AsyncStreamRequestHandler

            class H(AsyncStreamRequestHandler):
                def handle(self, client):
                    return handle(client)

            server = AsyncTCPNetworkServer(mem.HOST, 0, proto, H(), backend=be, max_recv_size=mrs, log_client_connection=False)
            t = asyncio.ensure_future(server.serve_forever())
        try:
            while listener.all_done is None and not t.done():
                await asyncio.sleep(0)
            if listener.all_done is not None:
                await listener.all_done.wait()
            if case["server"] != "lowlevel":
                await server.shutdown()
                await server.server_close()
        finally:
            t.cancel()
            try:
                await t
            except asyncio.CancelledError:
                pass

    out, _loop = env.run(main, max_turns=50000)
    if out[0] == "exc":
        notes.append(f"main-exc {type(out[1]).__name__}: {out[1]}"[:160])
    for kind, e in listener.task_results:
        if kind == "exc":
            notes.append(f"task-exc {type(e).__name__}")
    uniq = []
    for x in notes:
        if x not in uniq:
            uniq.append(x)
    return ["sent " + _fmt(_packets({**case, "source": "tcp"})),
            f"run srv got {_fmt(got)} rest - notes {'|'.join(uniq) or '-'} timeouts {notes.count('timeout')}"]


def run(case: dict) -> list[str]:
    if case["kind"] == "srvfull":
        return run_srvfull(case)
    return run_sweep(case)


# ------------------------------------------------------------------------------------------------------------------------
def oracle(case: dict, real: list[str]) -> str | None:
    sent = next((ln.split()[1] for ln in real if ln.startswith("sent ")), "-")
    exp = [] if sent == "-" else sent.split(",")
    for ln in real:
        if not ln.startswith("run "):
            continue
        w = ln.split()
        label = w[1]
        got = w[w.index("got") + 1]
        rest = w[w.index("rest") + 1]
        notes = ln[ln.index(" notes ") + 7:]
        have = ([] if got == "-" else got.split(",")) + ([] if rest == "-" else rest.split(","))
        if "main-exc" in notes or "task-exc" in notes:
            return f"run {label}: unexpected exception: {notes}"
        if have != exp:
            at = ""
            if " at " in ln:
                at = f" (cancellation requested while the consumer was suspended in {w[w.index('at') + 1]})"
            def txt(xs):
                return [bytes.fromhex(x).decode() if x != "-" else "" for x in xs]
            return (f"run {label}{at}: packets handed to the consumer {txt([] if got == '-' else got.split(','))} + packets delivered by "
                    f"the later receives {txt([] if rest == '-' else rest.split(','))} != packets sent {txt(exp)} (lost, duplicated or reordered)")
    return None


def nontrivial(case: dict, real: list[str]) -> str | None:
    if case["kind"] == "srvfull":
        return f"e2e/srvfull/{case['server']}/{case['path']}" if any("timeouts 0" not in ln for ln in real if ln.startswith("run srv")) else None
    runs = [ln for ln in real if ln.startswith("run k=") and " hits 0 " not in ln]
    if case["cancel"] == "deadline":
        return f"e2e/citer/{case['source']}/{case['entry']}/deadline"
    if runs:
        return f"e2e/citer/{case['source']}/{case['entry']}/{case['cancel']}"
    return None


def shrink(case: dict):
    if case["kind"] == "citer" and not case.get("only") and case["cancel"] in ("task", "scope", "aioscope"):
        # first narrow the sweep down to its failing step
        for k in range(1, 61):
            yield {**case, "only": k}
    ch = case["chunks"]
    for i in range(len(ch)):
        if len(ch) > 1:
            yield {**case, "chunks": ch[:i] + ch[i + 1:]}
    for key, small in (("pre", 0), ("every", 0), ("max_recv_size", 64)):
        if case.get(key) not in (None, small):
            yield {**case, key: small}
    if case.get("want", 1) > 1:
        yield {**case, "want": case["want"] - 1}
    if case.get("delays") and len(case["delays"]) > 1:
        yield {**case, "delays": case["delays"][:1]}
        yield {**case, "delays": case["delays"][1:]}


# ------------------------------------------------------------------------------------------------------------------------
WORDS = [b"ab", b"c", b"defg", b"hi", b"jklmnopq", b"r", b""]


def _gen_chunks(rng, dgram: bool) -> list[list]:
    times = [0.0, 0.0, 0.0, 1.0, 1.0, 2.0, 0.5]
    if dgram:
        n = rng.randint(1, 6)
        ts = sorted(rng.choice(times) for _ in range(n))
        return [[t, (rng.choice(WORDS[:-1]) + bytes([65 + i])).hex()] for i, t in enumerate(ts)]
    pk = [rng.choice(WORDS) + bytes([65 + i]) + b"\n" for i in range(rng.randint(1, 6))]
    stream = b"".join(pk)
    style = rng.random()
    if style < 0.4:
        cuts = []                                   # one burst
    elif style < 0.7:
        cuts = sorted({len(b"".join(pk[:i])) for i in range(1, len(pk)) if rng.random() < 0.6})     # cut at packet boundaries
    else:
        cuts = sorted({rng.randrange(1, len(stream)) for _ in range(rng.randint(1, 4))} - {len(stream)}) if len(stream) > 1 else []
    parts = [stream[a:b] for a, b in zip([0] + cuts, cuts + [len(stream)])]
    ts = sorted(rng.choice(times) for _ in parts)
    return [[t, p.hex()] for t, p in zip(ts, parts)]


def gen_citer(rng) -> dict:
    source = rng.choice(["tcp", "tcp", "tcp", "udp", "udp", "endpoint", "dgram", "srvrecv"])
    dgram = source in ("udp", "dgram")
    chunks = _gen_chunks(rng, dgram)
    npk = len(_packets({"source": source, "chunks": chunks}))
    if source in ("tcp", "udp"):
        entry = rng.choice(["anext", "anext", "for", "anext-new", "recv"])
    elif source == "srvrecv":
        entry = "next"
    else:
        entry = "recv"
    cancel = rng.choice(["task", "scope", "scope", "aioscope", "deadline", "deadline"])
    case = {"layer": "e2e", "kind": "citer", "source": source, "path": rng.choice(["buffered", "copy"]), "chunks": chunks,
            "entry": entry, "want": rng.randint(1, max(1, npk)), "pre": rng.choice([0, 0, 1]) if npk > 1 else 0,
            "itimeout": rng.choice([None, 30.0, 30.0, 1.0, 0.5, 0]) if entry != "recv" else None,
            "cancel": cancel, "max_recv_size": rng.choice([2, 8, 64])}
    if dgram and rng.random() < 0.3:
        case["yield_first"] = True
    if cancel == "deadline":
        case["delays"] = [rng.choice([0, 0, 0.5, 1.0, 1.0, 2.0, 0.25]) for _ in range(rng.randint(1, 3))]
        case["scope_api"] = rng.choice(["move_on_after", "timeout", "aio-timeout"])
    elif rng.random() < 0.25:
        case["every"] = rng.choice([1, 2, 3])
    return case


def gen_srvfull(rng) -> dict:
    chunks = _gen_chunks(rng, False)
    return {"layer": "e2e", "kind": "srvfull", "server": rng.choice(["lowlevel", "tcp"]), "path": rng.choice(["buffered", "copy"]),
            "chunks": chunks, "delays": [rng.choice([None, 0, 0, 0.5, 1.0, 1.0, 2.0, 0.25]) for _ in range(rng.randint(1, 3))],
            "max_recv_size": rng.choice([2, 8, 64]), "sleep_after_timeout": rng.choice([0, 0, 0.5])}


def corpus() -> list[dict]:
    cs: list[dict] = []
    burst = [[0.0, b"A\nB\nC\nD\nE\n".hex()]]
    spaced = [[0.0, b"A\nB".hex()], [1.0, b"\nC\nD".hex()], [2.0, b"\nE\n".hex()]]
    dburst = [[0.0, b"A".hex()], [0.0, b"B".hex()], [0.0, b"C".hex()], [1.0, b"D".hex()]]
    for path in ("buffered", "copy"):
        for chunks in (burst, spaced):
            for entry in ("anext", "for", "anext-new", "recv"):
                for cancel in ("task", "scope", "aioscope"):
                    for pre in (0, 1):
                        cs.append({"layer": "e2e", "kind": "citer", "source": "tcp", "path": path, "chunks": chunks, "entry": entry,
                                   "want": 3, "pre": pre, "itimeout": 30.0 if entry != "recv" else None, "cancel": cancel,
                                   "max_recv_size": 64})
                for api in ("move_on_after", "timeout", "aio-timeout"):
                    cs.append({"layer": "e2e", "kind": "citer", "source": "tcp", "path": path, "chunks": chunks, "entry": entry,
                               "want": 4, "pre": 1, "itimeout": 30.0 if entry != "recv" else None, "cancel": "deadline",
                               "delays": [0, 1.0, 0], "scope_api": api, "max_recv_size": 64})
            cs.append({"layer": "e2e", "kind": "citer", "source": "srvrecv", "path": path, "chunks": chunks, "entry": "next", "want": 4,
                       "pre": 0, "itimeout": 1.0, "cancel": "task", "max_recv_size": 8})
            cs.append({"layer": "e2e", "kind": "citer", "source": "endpoint", "path": path, "chunks": chunks, "entry": "recv", "want": 4,
                       "pre": 0, "itimeout": None, "cancel": "scope", "max_recv_size": 2, "every": 2})
            for server in ("lowlevel", "tcp"):
                cs.append({"layer": "e2e", "kind": "srvfull", "server": server, "path": path, "chunks": chunks,
                           "delays": [0, 1.0, 0.5], "max_recv_size": 8, "sleep_after_timeout": 0})
    for entry in ("anext", "for", "recv"):
        for cancel in ("task", "scope", "aioscope"):
            for yf in (False, True):
                cs.append({"layer": "e2e", "kind": "citer", "source": "udp", "path": "copy", "chunks": dburst, "entry": entry, "want": 3,
                           "pre": 0, "itimeout": 30.0 if entry != "recv" else None, "cancel": cancel, "yield_first": yf})
        cs.append({"layer": "e2e", "kind": "citer", "source": "udp", "path": "copy", "chunks": dburst, "entry": entry, "want": 4,
                   "pre": 1, "itimeout": 1.0 if entry != "recv" else None, "cancel": "deadline", "delays": [0, 1.0], "scope_api": "timeout"})
    cs.append({"layer": "e2e", "kind": "citer", "source": "dgram", "path": "copy", "chunks": dburst, "entry": "recv", "want": 3,
               "pre": 0, "itimeout": None, "cancel": "task", "yield_first": True})
    return cs
