"""
C03, several threads on ONE blocking TCPNetworkClient (round 5) - api "tcpmt", oracle only.

The client is documented as thread-safe ("recv_packet ... Thread-safe", "the lock acquisition time is included in the
timeout").  Histories: the peer (loopback) feeds the stream in pieces; between two feeds worker threads - all on the same client -
are told to
    ["park", t]          the lowest idle thread starts recv_packet(timeout=None | a long one): it comes back when a packet is
                         complete (or the stream ends).  While it waits it holds the client's receive lock, possibly with a
                         part of a frame already taken out of the socket
    ["call", k, t]       the lowest idle thread runs a BOUNDED call to its end: recv_packet(timeout=0 | small) or
                         iter_received_packets(timeout=0 | small); the harness waits for it
    ["race", k, t]       the same call, not awaited: the next op (a feed as a rule) runs while it waits for the lock / for data,
                         so its timeout elapses - or the lock comes free - with the frame being completed at the same moment
    ["feed"]             the peer sends the next piece
    ["close"]            the peer closes (FIN); every parked thread comes back; thread 0 then drains the client
Gating, no sleeps: a parked thread is known to be INSIDE recv_packet() when it has signalled the call, the receive lock is
held and every byte sent so far has left the socket (FIONREAD == 0 on a dup of the descriptor); after a feed the harness waits
until the bytes have been taken and the calls that the new bytes complete have returned.  All these waits are bounded and are
only there to produce the interesting interleaving: the ORACLE does not depend on the schedule -

    every call ends with a packet, TimeoutError or the end-of-stream report (ConnectionAbortedError) - nothing else;
    what all threads received together is exactly the packets sent, each once (multiset), nothing lost at the end;
    what one thread received is in stream order;
    after the drain has seen the end of the stream every later call reports it again.

Deadlines (8 s per wait) are not verdicts: a run in which one expired is repeated once; expired again -> `stuck` lines (the
oracle reports them), not again -> InfraError.

Lines:  t<i> <call> -> pkt … | err … | timeout | eos | eos-as <Class> | iter-end | exc <Class>: <text>
        (in order of completion), `stuck …`, `note …` (not judged)
"""
from __future__ import annotations

import fcntl
import os
import queue
import select
import socket
import struct
import termios
import threading
import time
from typing import Any

from vlib import core, streamdrive as sd

from easynetwork.clients.tcp import TCPNetworkClient
from easynetwork.exceptions import StreamProtocolParseError

DEADLINE = 8.0
SMALL = 0.03
LONG = 60.0


def _fionread(fd: int) -> int:
    return struct.unpack("i", fcntl.ioctl(fd, termios.FIONREAD, b"\0\0\0\0"))[0]


def _classify(exc: BaseException) -> str:
    if isinstance(exc, StreamProtocolParseError):
        return sd.err_line(exc)
    if isinstance(exc, TimeoutError):
        return "timeout"
    if isinstance(exc, ConnectionAbortedError):
        return "eos"
    if isinstance(exc, ConnectionError):
        return f"eos-as {type(exc).__name__}"
    return f"exc {type(exc).__name__}: {exc}"[:200]


class _Worker(threading.Thread):
    def __init__(self, idx: int, client: Any, log: "_Log") -> None:
        super().__init__(daemon=True, name=f"c03-mt-{idx}")
        self.idx = idx
        self.client = client
        self.log = log
        self.q: queue.Queue = queue.Queue()
        self.busy = threading.Event()        # a call has been handed over and has not come back yet
        self.entered = threading.Event()     # ... and the thread is about to enter the client
        self.ncalls_done = 0

    def submit(self, k: str, t: str) -> None:
        self.entered.clear()
        self.busy.set()
        self.q.put((k, t))

    def run(self) -> None:
        while True:
            job = self.q.get()
            if job is None:
                return
            k, t = job
            tmo = {"none": None, "long": LONG, "zero": 0, "small": SMALL}[t]
            tag = f"t{self.idx} {k}/{t} ->"
            self.entered.set()
            try:
                if k == "iter":
                    for p in self.client.iter_received_packets(timeout=tmo):
                        self.log.add(f"{tag} {sd.pkt_line(p)}")
                    self.log.add(f"{tag} iter-end")
                else:
                    p = self.client.recv_packet(timeout=tmo)
                    self.log.add(f"{tag} {sd.pkt_line(p)}")
            except BaseException as e:  # noqa: BLE001
                self.log.add(f"{tag} {_classify(e)}")
            finally:
                self.ncalls_done += 1
                self.busy.clear()


class _Log:
    def __init__(self) -> None:
        self.lines: list[str] = []
        self.lock = threading.Lock()
        self.changed = threading.Condition(self.lock)

    def add(self, ln: str) -> None:
        with self.changed:
            self.lines.append(ln)
            self.changed.notify_all()

    def count_items(self) -> int:
        with self.lock:
            return sum(1 for ln in self.lines if " -> pkt " in ln or " -> err " in ln)


def _wait(pred, seconds: float) -> bool:
    t_end = time.monotonic() + seconds
    n = 0
    while True:
        if pred():
            return True
        if time.monotonic() >= t_end:
            return False
        n += 1
        time.sleep(0 if n < 200 else 0.0005)


def run_once(case: dict, count_items) -> tuple[list[str], bool]:
    """one attempt; returns (lines, a deadline was missed).  `count_items(bytes) -> int` = number of complete items in a
    prefix of the stream (reference decoder of the property module)"""
    proto = sd.make_protocol(case["spec"], case["path"])
    stream = b"".join(bytes.fromhex(e[1]) for e in case["events"] if e[0] == "data")
    feeds: list[bytes] = []
    pos = 0
    for n in case["feeds"]:
        feeds.append(stream[pos:pos + n])
        pos += n
    if pos < len(stream):
        feeds.append(stream[pos:])
    srv = socket.socket()
    srv.bind(("127.0.0.1", 0))
    srv.listen(1)
    log = _Log()
    missed = False
    dupfd = -1
    conn: socket.socket | None = None
    client = None
    workers: list[_Worker] = []
    try:
        client = TCPNetworkClient(("127.0.0.1", srv.getsockname()[1]), proto, max_recv_size=case["maxrecv"], connect_timeout=10)
        srv.settimeout(10)
        conn, _ = srv.accept()
        conn.setsockopt(socket.IPPROTO_TCP, socket.TCP_NODELAY, 1)
        dupfd = os.dup(client.socket.fileno())
        workers = [_Worker(i, client, log) for i in range(int(case.get("nthreads", 2)))]
        for w in workers:
            w.start()
        try:
            rlock = getattr(client, "_TCPNetworkClient__receive_lock").get()
            locked = rlock.locked
        except Exception:  # noqa: BLE001   (private name gone: the gate falls back to the byte count alone)
            locked = None
        sent = 0
        next_feed = 0
        peer_closed = False

        def idle() -> _Worker | None:
            return next((w for w in workers if not w.busy.is_set()), None)

        def settled() -> bool:
            """the bytes sent so far have left the socket, or nobody is there to take them"""
            return _fionread(dupfd) == 0 or not any(w.busy.is_set() for w in workers)

        for op in case["plan"]:
            if op[0] == "feed":
                if next_feed >= len(feeds):
                    continue
                conn.sendall(feeds[next_feed])
                sent += len(feeds[next_feed])
                next_feed += 1
                log.add(f"note feed {sent}")
                if not _wait(settled, DEADLINE):
                    missed = True
                    log.add(f"stuck the bytes fed (total {sent}) were not taken out of the socket within {DEADLINE} s although a thread "
                            "is blocked in recv_packet()")
                    break
                # the calls which the bytes sent so far complete: give them the time to come back (bounded; not judged):
                # every complete item has been delivered, or no thread is left inside a call
                total_now = count_items(stream[:sent])
                _wait(lambda: log.count_items() >= total_now or not any(w.busy.is_set() for w in workers), 0.5)
            elif op[0] == "park":
                w = idle()
                if w is None:
                    log.add("note skip park: no idle thread")
                    continue
                w.submit("recv", op[1])
                _wait(w.entered.is_set, DEADLINE)
                # inside recv_packet(): the lock is held (by it or by an earlier parked thread) and nothing is left to take
                _wait(lambda: not w.busy.is_set() or ((locked is None or locked()) and _fionread(dupfd) == 0), 1.0)
            elif op[0] == "call":
                w = idle()
                if w is None:
                    log.add("note skip call: no idle thread")
                    continue
                w.submit(op[1], op[2])
                if not _wait(lambda: not w.busy.is_set(), DEADLINE):
                    missed = True
                    log.add(f"stuck t{w.idx} {op[1]}/{op[2]}: a call bounded by its timeout ({0 if op[2] == 'zero' else SMALL} s) "
                            f"has not come back after {DEADLINE} s")
                    break
            elif op[0] == "race":
                # a bounded call which is NOT awaited: the next op (as a rule a feed) runs while it waits for the lock / the data
                w = idle()
                if w is None:
                    log.add("note skip race: no idle thread")
                    continue
                w.submit(op[1], op[2])
                _wait(w.entered.is_set, DEADLINE)
            elif op[0] == "close":
                break
            else:
                raise core.InfraError(f"C03 threads: unknown op {op!r}")
        # the rest of the stream, then the peer's FIN: every parked thread comes back, then thread 0 drains
        if not missed:
            while next_feed < len(feeds):
                conn.sendall(feeds[next_feed])
                sent += len(feeds[next_feed])
                next_feed += 1
            conn.shutdown(socket.SHUT_WR)
            peer_closed = True
            log.add("note close")
            if not _wait(lambda: not any(w.busy.is_set() for w in workers), DEADLINE):
                missed = True
                for w in workers:
                    if w.busy.is_set():
                        log.add(f"stuck t{w.idx}: recv_packet() has not come back {DEADLINE} s after the peer sent everything and closed")
        if not missed:
            total = count_items(stream)
            w0 = workers[0]
            log.add("note drain")
            for _ in range(total + 3):
                w0.submit("recv", "long")
                if not _wait(lambda: not w0.busy.is_set(), DEADLINE):
                    missed = True
                    log.add(f"stuck t0 drain: recv_packet() has not come back {DEADLINE} s after the peer closed")
                    break
        if not peer_closed and conn is not None:
            try:
                conn.shutdown(socket.SHUT_WR)
            except OSError:
                pass
    except core.InfraError:
        raise
    except (TimeoutError, OSError) as e:
        log.add(f"note set-up {type(e).__name__}: {e}")
        missed = True
    finally:
        for w in workers:
            w.q.put(None)
        if conn is not None:
            conn.close()
        for w in workers:
            w.join(0.5 if missed else 5)
            if w.is_alive():
                # neither the peer's close nor the end of its script brought it back (a receive that spins?): stop it
                import ctypes
                ctypes.pythonapi.PyThreadState_SetAsyncExc(ctypes.c_ulong(w.ident or 0), ctypes.py_object(SystemExit))
        if client is not None:
            try:
                client.close()
            except Exception:  # noqa: BLE001
                pass
        srv.close()
        if dupfd >= 0:
            os.close(dupfd)
    with log.lock:
        return list(log.lines), missed


def run(case: dict, count_items) -> list[str]:
    first, missed = run_once(case, count_items)
    if not missed:
        return first
    second, missed2 = run_once(case, count_items)
    if missed2:
        return second
    raise core.InfraError("C03 threads: a bounded wait expired once ("
                          + next((ln for ln in first if ln.startswith(("stuck ", "note set-up"))), "?")[:160] + ") and not on the re-run")


# ------------------------------------------------------------------------------------------------------------------------
# oracle
# ------------------------------------------------------------------------------------------------------------------------

def oracle(case: dict, real: list[str], exp: list[str]) -> str | None:
    """exp = reference decoding of the whole stream (the peer closes gracefully after everything)"""
    if any(ln.startswith("harness-exc") for ln in real):
        return "unexpected exception: " + next(ln for ln in real if ln.startswith("harness-exc"))
    outs = [ln for ln in real if not ln.startswith("note ")]
    for ln in outs:
        if ln.startswith("stuck "):
            return ln[6:] + " (reproduced on a second run)"
    for ln in outs:
        who, _, res = ln.partition(" -> ")
        if res.startswith("exc "):
            return (f"thread {who.split()[0]}: {who.split()[1]} raised {res[4:]} - a receive on a client shared by several threads must end "
                    "with a packet, TimeoutError or the end-of-stream report")
    per: dict[str, list[str]] = {}
    allitems: list[str] = []
    for ln in outs:
        who, _, res = ln.partition(" -> ")
        if res.startswith(("pkt ", "err ")):
            per.setdefault(who.split()[0], []).append(res)
            allitems.append(res)
    # each exactly once
    rest = list(exp)
    extra = []
    for it in allitems:
        if it in rest:
            rest.remove(it)
        else:
            extra.append(it)
    if extra:
        return f"delivered more than was sent: {extra[:3]} (sent {exp[:6]}, received by all threads together {allitems[:8]})"
    closed = any(ln == "note close" for ln in real)
    saw_eos = any(ln.partition(" -> ")[2].startswith("eos") for ln in outs)
    if closed and saw_eos and rest:
        return (f"{len(rest)} of {len(exp)} packets sent were delivered to nobody: {rest[:3]} (all threads together received "
                f"{allitems[:8]}, then the end of the stream was reported)")
    # stream order per thread
    for who, its in per.items():
        i = 0
        for it in its:
            try:
                i = exp.index(it, i) + 1
            except ValueError:
                return f"thread {who} received {its[:6]}, which is not in stream order ({exp[:8]})"
    # the report of the end + stickiness: the drain of thread 0 (every other call has come back by then)
    k_drain = next((k for k, ln in enumerate(real) if ln == "note drain"), None)
    if k_drain is not None:
        tail = [ln.partition(" -> ")[2] for ln in real[k_drain + 1:] if " -> " in ln]
        i = next((k for k, r in enumerate(tail) if r.startswith("eos")), None)
        if i is None:
            return "the end of the stream is never reported although the peer has closed and everything was received"
        later = [r for r in tail[i:] if not r.startswith("eos")]
        if later:
            return f"after the end of the stream had been reported a later call returned {later[:3]}"
    for ln in outs:
        res = ln.partition(" -> ")[2]
        if res.startswith("eos-as "):
            return (f"{ln.split()[0]}: the end of the stream is reported as {res.split()[1]} instead of the documented ConnectionAbortedError")
    return None


def nontrivial(case: dict, real: list[str]) -> str | None:
    outs = [ln for ln in real if " -> " in ln]
    tags = [f"{case.get('nthreads', 2)}threads"]
    k_close = next((k for k, ln in enumerate(real) if ln == "note close"), len(real))
    # a bounded call ended with TimeoutError / an empty iteration before the peer closed (as a rule: while another thread
    # was inside recv_packet())
    if any(" -> timeout" in ln or " -> iter-end" in ln for ln in real[:k_close]):
        tags.append("contended")
    if any("iter/" in ln for ln in outs):
        tags.append("iter")
    return f"tcpmt/{case['path']}/" + "+".join(tags)


# ------------------------------------------------------------------------------------------------------------------------
# generation
# ------------------------------------------------------------------------------------------------------------------------

def gen_plan(rng, stream: bytes, frame_ends: list[int], nthreads: int) -> tuple[list[int], list[list]]:
    """feeds (byte counts) + plan.  The first feed ends inside a frame most of the time (a parked receiver then holds a part of
    a frame), later cuts anywhere."""
    n = len(stream)
    cuts: set[int] = set()
    if n >= 2:
        inside = [c for c in range(1, n) if c not in frame_ends]
        if inside and rng.random() < 0.8:
            cuts.add(rng.choice(inside))
        for _ in range(rng.choice([0, 1, 1, 2, 3])):
            cuts.add(rng.randint(1, n - 1))
    order = sorted(cuts)
    feeds = [b - a for a, b in zip([0] + order, order + [n]) if b - a > 0]
    empty_first = rng.random() < 0.2          # receivers parked before any byte has arrived
    plan: list[list] = []

    def bounded() -> list:
        k = rng.choice(["recv", "recv", "iter"])
        t = rng.choice(["zero", "zero", "zero", "small"])
        return ["call", k, t]

    nfeeds = len(feeds)
    for i in range(nfeeds):
        if not (i == 0 and empty_first):
            plan.append(["feed"])
        r = rng.random()
        if r < 0.75:
            plan.append(["park", rng.choice(["none", "none", "long"])])
            for _ in range(rng.choice([1, 1, 2, 3])):
                plan.append(bounded())
            if rng.random() < 0.25:
                plan.append(["race", rng.choice(["recv", "iter"]), "small"])
            if nthreads >= 3 and rng.random() < 0.6:
                plan.append(["park", rng.choice(["none", "long"])])
                if rng.random() < 0.5:
                    plan.append(bounded())
        elif r < 0.9:
            for _ in range(rng.choice([1, 2])):
                plan.append(bounded())
        if i == 0 and empty_first:
            plan.append(["feed"])
    plan.append(["close"])
    return feeds, plan
