"""
C04 — the KINDS OF BUFFER a send entry point is given, and the send loops of the transport ABCs themselves.

Every send entry point is typed `bytes | bytearray | memoryview` (`send_all(data)`, the items of
`send_all_from_iterable(iterable)`, hence what a serializer's `incremental_serialize` / a producer may yield).  The bytes
that must reach the peer are the buffer's BYTES — `memoryview(x).tobytes()` — whatever its item size, shape or offset.

buffer kinds (`mk_buffer`)
    b      bytes                               ba     bytearray
    mv     memoryview(bytes)                   mvba   memoryview(bytearray)          mvro   read-only view of a bytearray
    mvH / mvI / mvQ   memoryview(array.array("H" | "I" | "Q"))   — itemsize 2 / 4 / 8: len() and slicing count ITEMS
    mv2    memoryview(bytes).cast("B", shape=[r, c])             — itemsize 1, two dimensions: len() counts ROWS
    mv2H   memoryview(bytes).cast("H", shape=[r, c])             — both
    mvsl   a slice of a longer view of bytes (non-zero offset, contiguous)
    mvHsl  a slice [1:-1] of a view of array("H") (items; non-zero offset, contiguous)
A kind that does not fit the length (odd length for "H", …, zero length for the shaped casts: CPython refuses a cast with a
zero in the shape) falls back to bytes.

Kinds that are NOT drawn, because CPython itself refuses them cleanly before a single byte moves (recorded here, probed by
`rejected_kinds()`, reported in the evidence): non-contiguous views (`memoryview(b)[::2]`, `[::-1]`): `socket.send` /
`sendmsg` raise BufferError, `bytes.join` and `memoryview.cast` raise TypeError.

case kind "bufs" (oracle only, no model run): USER-DEFINED transports that implement only the abstract methods, so that the
loops of the ABCs are what runs —
    tr = "abc"    blocking `StreamTransport` with a scripted `send()`; `send_all` / `send_all_from_iterable` are the ABC's
    tr = "abcz"   the same with the usual zero-copy override  `for chunk in iterable: self.send_all(chunk, timeout)`
    tr = "aabc"   asynchronous `AsyncStreamTransport` implementing `send_all` only (`send_all_from_iterable` is the ABC's)
    entry = "all" | "iterable" | "packet" (StreamEndpoint / AsyncStreamEndpoint .send_packet with a serializer that yields the
            buffers unchanged)
    script = [n1, n2, …]  the i-th `send()` call accepts at most n_i bytes (>= 1), later calls accept everything: a partial
            write at every offset of every buffer is enumerated by the generator.
  lines   send <offered bytes> … ; wire <hex> ; out ok | out spin | out exc <Class>
  oracle  wire == the bytes of the buffers when the call returned (a prefix otherwise), the call returns (a healthy transport),
          never more than |data| + |chunks| + 2 `send()` calls: a loop that makes no progress ends as `out spin` (BaseException
          raised by the scripted `send()` once the budget is used up — no watchdog thread).
"""
from __future__ import annotations

import array
import asyncio
from typing import Any

from vlib import core

BUF_KINDS = ("b", "ba", "mv", "mvba", "mvro", "mvH", "mvI", "mvQ", "mv2", "mv2H", "mvsl", "mvHsl")
WIDE_KINDS = ("mvH", "mvI", "mvQ", "mv2", "mv2H", "mvHsl")      # len() != nbytes
_ITEM = {"mvH": 2, "mvI": 4, "mvQ": 8, "mv2H": 2, "mvHsl": 2}


def _rows(n: int) -> int:
    for r in (2, 3, 5, 7):
        if n % r == 0 and n > r:
            return r
    return 1


def fits(kind: str, n: int) -> bool:
    if kind in ("mvH", "mvI", "mvQ", "mvHsl"):
        return n % _ITEM[kind] == 0
    if kind == "mv2":
        return n >= 1
    if kind == "mv2H":
        return n >= 2 and n % 2 == 0
    return kind in BUF_KINDS


def mk_buffer(b: bytes, kind: str):
    n = len(b)
    if not fits(kind, n):
        return b
    if kind == "ba":
        return bytearray(b)
    if kind == "mv":
        return memoryview(b)
    if kind == "mvba":
        return memoryview(bytearray(b))
    if kind == "mvro":
        return memoryview(bytearray(b)).toreadonly()
    if kind in ("mvH", "mvI", "mvQ"):
        a = array.array(kind[2], b)
        if a.itemsize != _ITEM[kind]:      # platform with another C type width: keep the byte string
            return b
        return memoryview(a)
    if kind == "mv2":
        r = _rows(n)
        return memoryview(b).cast("B", shape=[r, n // r])
    if kind == "mv2H":
        m = n // 2
        r = _rows(m)
        return memoryview(b).cast("H", shape=[r, m // r])
    if kind == "mvsl":
        return memoryview(b"\xee\xee" + b + b"\xdd")[2:2 + n]
    if kind == "mvHsl":
        a = array.array("H", b"\xee\xee" + b + b"\xdd\xdd")
        if a.itemsize != 2:
            return b
        return memoryview(a)[1:1 + n // 2]
    return b


def raw(x: Any) -> bytes:
    return x if isinstance(x, bytes) else memoryview(x).tobytes()


_rejected: dict[str, str] | None = None


def rejected_kinds() -> dict[str, str]:
    """buffer kinds refused by the interpreter itself (nothing is sent): recorded, never drawn"""
    global _rejected
    if _rejected is None:
        import socket

        out: dict[str, str] = {}
        for name, mv in (("strided view [::2]", memoryview(b"abcdef")[::2]), ("reversed view [::-1]", memoryview(b"abc")[::-1])):
            res = []
            a, b = socket.socketpair()
            try:
                for what, fn in (("socket.send", lambda: a.send(mv)), ("socket.sendmsg", lambda: a.sendmsg([mv])),
                                 ("bytes.join", lambda: b"".join([mv])), ("cast('B')", lambda: mv.cast("B"))):
                    try:
                        fn()
                        res.append(f"{what}: accepted")
                    except (TypeError, ValueError, BufferError) as e:
                        res.append(f"{what}: {type(e).__name__}")
            finally:
                a.close()
                b.close()
            out[name] = ", ".join(res)
        _rejected = out
    return _rejected


# ----------------------------------------------------------------------------------------------------------------
# user-defined transports: the loops of the ABCs
# ----------------------------------------------------------------------------------------------------------------

class Spin(BaseException):
    pass


def _sync_transport(script: list[int], budget: int, zero_copy: bool):
    from easynetwork.lowlevel.api_sync.transports.abc import StreamTransport

    class Scripted(StreamTransport):
        __slots__ = ("wire", "calls", "script", "_closed")

        def __init__(self) -> None:
            super().__init__()
            self.wire = bytearray()
            self.calls: list[int] = []
            self.script = list(script)
            self._closed = False

        def close(self) -> None:
            self._closed = True

        def is_closed(self) -> bool:
            return self._closed

        def recv_into(self, buffer: Any, timeout: float) -> int:
            return 0

        def send_eof(self) -> None:
            return None

        @property
        def extra_attributes(self):
            return {}

        def send(self, data: Any, timeout: float) -> int:
            with memoryview(data) as v:
                rawb = v.tobytes()          # what a socket takes: the bytes of the buffer
            self.calls.append(len(rawb))
            if len(self.calls) > budget:
                raise Spin()
            limit = self.script.pop(0) if self.script else len(rawb)
            k = min(max(int(limit), 1), len(rawb))
            self.wire += rawb[:k]
            return k

    class ZeroCopy(Scripted):
        __slots__ = ()

        def send_all_from_iterable(self, iterable_of_data, timeout: float) -> None:
            for chunk in iterable_of_data:
                self.send_all(chunk, timeout)

    return (ZeroCopy if zero_copy else Scripted)()


def _async_transport(backend):
    from easynetwork.lowlevel.api_async.transports.abc import AsyncStreamTransport

    class Mem(AsyncStreamTransport):
        __slots__ = ("wire", "calls", "_closing")

        def __init__(self) -> None:
            super().__init__()
            self.wire = bytearray()
            self.calls: list[int] = []
            self._closing = False

        async def aclose(self) -> None:
            self._closing = True

        def is_closing(self) -> bool:
            return self._closing

        def backend(self):
            return backend

        async def recv_into(self, buffer) -> int:
            return 0

        async def send_all(self, data) -> None:
            with memoryview(data) as v:
                rawb = v.tobytes()
            self.calls.append(len(rawb))
            self.wire += rawb
            await asyncio.sleep(0)

        async def send_eof(self) -> None:
            return None

        @property
        def extra_attributes(self):
            return {}

    return Mem()


def case_buffers(case: dict) -> tuple[list[bytes], list[Any]]:
    raws = [bytes.fromhex(h) if h != "-" else b"" for h in case["chunks"]]
    return raws, [mk_buffer(r, k) for r, k in zip(raws, case["kinds"])]


def run_real(case: dict) -> list[str]:
    from props import c04

    raws, bufs = case_buffers(case)
    total = sum(len(r) for r in raws)
    budget = total + len(raws) + 8
    exc: BaseException | None = None
    if case["tr"] == "aabc":
        async def main():
            from easynetwork.lowlevel.api_async.backend._asyncio.backend import AsyncIOBackend
            from easynetwork.lowlevel.api_async.endpoints.stream import AsyncStreamEndpoint
            from easynetwork.protocol import StreamProtocol

            t = _async_transport(AsyncIOBackend())
            if case["entry"] == "packet":
                await AsyncStreamEndpoint(t, StreamProtocol(c04._serializer()), max_recv_size=1024).send_packet(bufs)
            elif case["entry"] == "iterable":
                await t.send_all_from_iterable(iter(bufs))
            else:
                await t.send_all(mk_buffer(b"".join(raws), case.get("allkind", "b")))
            return t

        tr = None
        try:
            tr = asyncio.run(main())
        except KeyboardInterrupt:
            raise
        except BaseException as e:  # noqa: BLE001
            exc = e
        if tr is None:
            return ["wire ?", f"out exc {type(exc).__name__}"]
    else:
        from easynetwork.lowlevel.api_sync.endpoints.stream import StreamEndpoint
        from easynetwork.protocol import StreamProtocol

        tr = _sync_transport(case.get("script") or [], budget, case["tr"] == "abcz")
        try:
            if case["entry"] == "packet":
                StreamEndpoint(tr, StreamProtocol(c04._serializer()), 1024).send_packet(bufs, timeout=case.get("timeout"))
            elif case["entry"] == "iterable":
                tr.send_all_from_iterable(iter(bufs), float("inf") if case.get("timeout") is None else float(case["timeout"]))
            else:
                tr.send_all(mk_buffer(b"".join(raws), case.get("allkind", "b")),
                            float("inf") if case.get("timeout") is None else float(case["timeout"]))
        except KeyboardInterrupt:
            raise
        except BaseException as e:  # noqa: BLE001
            exc = e
    lines = [f"send {n}" for n in tr.calls[:64]]
    if len(tr.calls) > 64:
        lines.append(f"send … ({len(tr.calls)} calls)")
    lines.append(f"wire {core.hexs(bytes(tr.wire))}")
    lines.append("out ok" if exc is None else "out spin" if isinstance(exc, Spin) else f"out exc {type(exc).__name__}")
    return lines


def oracle(case: dict, real: list[str]) -> str | None:
    raws, _ = case_buffers(case)
    data = b"".join(raws)
    wire_s = next((ln[5:] for ln in real if ln.startswith("wire ")), None)
    out = next((ln[4:] for ln in real if ln.startswith("out ")), None)
    if wire_s is None or out is None or wire_s == "?":
        return f"incomplete observation {real[-3:]}"
    wire = bytes.fromhex(wire_s) if wire_s != "-" else b""
    what = f"{case['tr']}/{case['entry']} kinds={case['kinds']}" + (f" data as {case.get('allkind', 'b')}" if case["entry"] == "all" else "")
    if not data.startswith(wire):
        return (f"{what}: bytes handed to send() {wire.hex()} are not a prefix of the bytes of the buffers {data.hex()} "
                "(dropped, duplicated or reordered)")
    ncalls = sum(1 for ln in real if ln.startswith("send "))
    if out == "spin":
        return (f"{what}: the call does not terminate: send() was called more than {len(data) + len(raws) + 8} times for "
                f"{len(data)} bytes in {len(raws)} buffers, every call accepting >= 1 offered byte (wire so far: {len(wire)} bytes)")
    if out != "ok":
        return f"{what}: unexpected way of ending on a healthy transport: {out}"
    if wire != data:
        return f"{what}: the call returned but send() was given {wire.hex() or '-'} instead of {data.hex() or '-'}"
    if case["tr"] != "aabc" and ncalls > len(data) + len(raws) + 2:
        return f"{what}: {ncalls} send() calls for {len(data)} bytes in {len(raws)} buffers"
    return None


def nontrivial(case: dict, real: list[str]) -> str | None:
    wide = any(k in WIDE_KINDS and fits(k, len(bytes.fromhex(h)) if h != "-" else 0) and h != "-"
               for h, k in zip(case["chunks"], case["kinds"]))
    if case["entry"] == "all":
        n = sum(len(bytes.fromhex(h)) if h != "-" else 0 for h in case["chunks"])
        wide = case.get("allkind", "b") in WIDE_KINDS and fits(case.get("allkind", "b"), n) and n > 0
    partial = bool(case.get("script")) and case["tr"] != "aabc"
    if not (wide or partial):
        return None
    return f"bufs/{case['tr']}/{case['entry']}/" + "+".join(t for t, c in (("wide", wide), ("partial", partial)) if c)


def shrink(case: dict):
    n = len(case["chunks"])
    for i in range(n if n > 1 else 0):
        yield {**case, "chunks": case["chunks"][:i] + case["chunks"][i + 1:], "kinds": case["kinds"][:i] + case["kinds"][i + 1:]}
    sc = case.get("script") or []
    for i in range(len(sc)):
        yield {**case, "script": sc[:i] + sc[i + 1:]}
    for i, h in enumerate(case["chunks"]):
        if h != "-" and len(h) > 16:
            yield {**case, "chunks": case["chunks"][:i] + [h[:len(h) // 2 // 8 * 8 or 8]] + case["chunks"][i + 1:]}
    if case["entry"] == "packet":
        yield {**case, "entry": "iterable"}
    if case["tr"] == "abcz":
        yield {**case, "tr": "abc"}


def known_key(case: dict, real: list[str], why: str) -> str:
    out = next((ln[4:] for ln in real if ln.startswith("out ")), "?")
    return f"kind=bufs,tr={case['tr']},entry={case['entry']},out={out.replace(' ', '-')}"


def _pattern(n: int, start: int) -> bytes:
    return bytes((start + i) % 251 + 1 for i in range(n))


def _case(tr: str, entry: str, chunks: list[bytes], kinds: list[str], script: list[int], allkind: str = "b") -> dict:
    return {"kind": "bufs", "tr": tr, "entry": entry, "chunks": [core.hexs(c) for c in chunks], "kinds": list(kinds),
            "allkind": allkind, "script": list(script), "timeout": None}


def corpus() -> list[dict]:
    """a partial write at EVERY offset of one buffer of every kind, through every entry point of the blocking ABC"""
    cs: list[dict] = []
    data = _pattern(16, 1)
    for kind in BUF_KINDS:
        for k in range(1, 16):
            cs.append(_case("abc", "all", [data], ["b"], [k], allkind=kind))
            cs.append(_case("abcz", "iterable", [b"hd", data, b""], ["b", kind, "mvH"], [2, k]))
        cs.append(_case("abcz", "packet", [b"", data, b"xy"], ["mvI", kind, "ba"], [3, 1, 1, 4]))
        cs.append(_case("abc", "packet", [data, b"xy"], [kind, "mvH"], [5, 5]))
        cs.append(_case("abc", "all", [data], ["b"], [1] * 40, allkind=kind))
        cs.append(_case("aabc", "iterable", [data, b"", data[:8]], [kind, kind, "mvQ"], []))
        cs.append(_case("aabc", "packet", [data], [kind], []))
        cs.append(_case("aabc", "all", [data], ["b"], [], allkind=kind))
    return cs


def generate(rng, tier: str, boost: int):
    n = (600 if tier == "quick" else 6000) * min(boost, 2)
    for _ in range(n):
        tr = rng.choice(["abc", "abc", "abcz", "abcz", "aabc"])
        entry = rng.choice(["all", "iterable", "packet"])
        chunks, kinds, nxt = [], [], 1
        for _ in range(rng.randint(1, 4)):
            ln = rng.choice([0, 2, 4, 8, 8, 16, 24, 3, 5])
            chunks.append(_pattern(ln, nxt))
            nxt += ln
            kinds.append(rng.choice(BUF_KINDS))
        total = sum(len(c) for c in chunks)
        script = [rng.choice([1, 1, 2, 3, 4, 5, 7, 8, 9, 100]) for _ in range(rng.randint(0, 6))]
        yield _case(tr, entry, chunks, kinds, script if tr != "aabc" else [],
                    allkind=rng.choice([k for k in BUF_KINDS if fits(k, total)] or ["b"]))
