"""
Shared machinery of every check:  translate -> prove (lake build + axiom audit) -> correspondence -> oracle
-> verdict (see DESIGN.md section 3).

A property module (harness/props/cxx.py) defines

    ID                 "C01"
    TITLE              short text
    REQUIRED_THEOREMS  names that must exist in lean/EasyNet/EasyNet/Props/<ID>.lean and pass the audit
    TRUSTED_BASE       list of strings
    ASSUMPTIONS        list of strings
    RULE               how cases are generated / what counts as non-trivial
    def translate(ctx) -> None                      (optional) regenerate Gen/*.lean from /repo
    def corpus() -> list[case]                      (optional) hand-written critical cases, run first
    def generate(rng, tier, boost) -> iterator[case]      a case is a JSON-serialisable dict
    def run_real(case) -> list[str]                 canonical observable lines from the REAL code
    def model_input(case, real) -> tuple[str, list[str]]  ("<model> <cfg…>", [op lines]) for endriver  (or None: no model run)
    def model_post(case, lines) -> list[str]        (optional) canonicalise model output (e.g. apply the real codec)
    def oracle(case, real) -> str | None            the property itself judged on the real outputs
    def nontrivial(case, real) -> str | None        key of the non-trivial class this case belongs to (None = trivial)
    def shrink(case) -> iterator[case]              (optional) smaller candidates
    def known_key(case, real, why) -> str           (optional) signature matched against KNOWN_FINDINGS.txt
    def extra_coverage(stats) -> dict               (optional)
"""
from __future__ import annotations

import fcntl
import hashlib
import json
import os
import random
import re
import subprocess
import sys
import time
import traceback
from pathlib import Path
from typing import Any, Callable, Iterable, Iterator

VERIF = Path(__file__).resolve().parents[2]
LEAN = VERIF / "lean" / "EasyNet"
DRIVER = LEAN / ".lake" / "build" / "bin" / "endriver"
REPO = Path(os.environ.get("VERIF_REPO", "/repo"))
# (the two overrides are used by tools_seed.py only, so that a run against a deliberately broken scratch tree
#  does not overwrite the evidence of /repo)
EVIDENCE = Path(os.environ.get("VERIF_EVIDENCE_DIR") or VERIF / "evidence")
REPLAYS = Path(os.environ.get("VERIF_REPLAYS_DIR") or VERIF / "replays")
CORPUS = VERIF / "corpus"
KNOWN = VERIF / "KNOWN_FINDINGS.txt"
ALLOWED_AXIOMS = {"propext", "Classical.choice", "Quot.sound"}
FORBIDDEN = re.compile(r"\bsorry\b|\badmit\b|^\s*axiom\s|native_decide|bv_decide|implemented_by|\bunsafe\s|maxHeartbeats\s+0\b")

os.environ.setdefault("EASYNETWORK_VERIF", "1")
if str(REPO / "src") not in sys.path:
    sys.path.insert(0, str(REPO / "src"))


class InfraError(Exception):
    pass


def seed_from_env() -> int:
    try:
        return int(os.environ.get("VERIF_SEED", "0"))
    except ValueError:
        return 0


def sub_rng(seed: int, *keys: Any) -> random.Random:
    h = hashlib.sha256(repr((seed,) + keys).encode()).digest()
    return random.Random(int.from_bytes(h[:8], "big"))


# ----------------------------------------------------------------------------------------------
# Lean side
# ----------------------------------------------------------------------------------------------

class _BuildLock:
    def __enter__(self):
        self.f = open(VERIF / "lean" / ".buildlock", "w")
        fcntl.flock(self.f, fcntl.LOCK_EX)
        return self

    def __exit__(self, *a):
        fcntl.flock(self.f, fcntl.LOCK_UN)
        self.f.close()


def _child_unlimited() -> None:
    """children (lake, lean, leanchecker, endriver) are not subject to the address-space cap of the harness process"""
    import resource
    soft, hard = resource.getrlimit(resource.RLIMIT_AS)
    resource.setrlimit(resource.RLIMIT_AS, (hard, hard))


def cap_address_space() -> None:
    """Decoders fed with hostile bytes (pickle above all) may ask for tens of gigabytes in one allocation; with memory
    overcommit that 'works' and costs minutes of page faults (measured: 32 GB resident, 6 min, for one mutated pickle).
    A soft cap (6 GB by default) on the address space of the harness process makes such a request fail at once with MemoryError, which the
    code under test must (and does) turn into a parse error.  VERIF_AS_LIMIT_GB=0 disables the cap."""
    import resource
    try:
        gb = float(os.environ.get("VERIF_AS_LIMIT_GB", "6"))
    except ValueError:
        gb = 6.0
    if gb <= 0:
        return
    soft, hard = resource.getrlimit(resource.RLIMIT_AS)
    want = int(gb * (1 << 30))
    if hard != resource.RLIM_INFINITY:
        want = min(want, hard)
    if soft == resource.RLIM_INFINITY or soft > want:
        resource.setrlimit(resource.RLIMIT_AS, (want, hard))


def _run(cmd: list[str], cwd: Path, timeout: int = 1800, input: str | None = None) -> tuple[int, str]:
    try:
        p = subprocess.run(cmd, cwd=cwd, capture_output=True, text=True, timeout=timeout, input=input,
                           preexec_fn=_child_unlimited)
    except subprocess.TimeoutExpired as e:
        raise InfraError(f"timeout: {' '.join(cmd)}") from e
    return p.returncode, (p.stdout or "") + (p.stderr or "")


def write_if_changed(path: Path, text: str) -> bool:
    if path.exists() and path.read_text() == text:
        return False
    path.parent.mkdir(parents=True, exist_ok=True)
    path.write_text(text)
    return True


def lean_build(targets: list[str]) -> tuple[bool, str]:
    with _BuildLock():
        rc, out = _run(["lake", "build", *targets], LEAN)
    return rc == 0, out


def strip_comments(src: str) -> str:
    # remove /- … -/ (nested) and -- … comments
    out = []
    i, depth, n = 0, 0, len(src)
    while i < n:
        if src.startswith("/-", i):
            depth += 1
            i += 2
        elif depth and src.startswith("-/", i):
            depth -= 1
            i += 2
        elif depth:
            if src[i] == "\n":
                out.append("\n")
            i += 1
        elif src.startswith("--", i):
            while i < n and src[i] != "\n":
                i += 1
        else:
            out.append(src[i])
            i += 1
    return "".join(out)


def forbidden_hits() -> list[str]:
    hits = []
    for p in sorted(LEAN.rglob("*.lean")):
        if ".lake" in p.parts:
            continue
        for k, line in enumerate(strip_comments(p.read_text()).splitlines(), 1):
            if FORBIDDEN.search(line):
                hits.append(f"{p.relative_to(LEAN)}:{k}: {line.strip()}")
    return hits


def theorem_names(prop_id: str) -> list[str]:
    f = LEAN / "EasyNet" / "Props" / f"{prop_id}.lean"
    if not f.exists():
        return []
    src = strip_comments(f.read_text())
    return re.findall(rf"^theorem\s+({prop_id}_\w+)", src, flags=re.M)


def audit(prop_id: str, names: list[str]) -> dict[str, list[str] | None]:
    """axioms used by each theorem (None = could not be determined / theorem missing)"""
    if not names:
        return {}
    tmp = LEAN / ".lake" / f"audit_{prop_id}_{os.getpid()}.lean"
    tmp.parent.mkdir(exist_ok=True)
    body = [f"import EasyNet.Props.{prop_id}", "open EasyNet"] + [f"#print axioms {n}" for n in names]
    tmp.write_text("\n".join(body) + "\n")
    try:
        with _BuildLock():
            rc, out = _run(["lake", "env", "lean", str(tmp)], LEAN)
    finally:
        tmp.unlink(missing_ok=True)
    res: dict[str, list[str] | None] = {n: None for n in names}
    flat = re.sub(r"\s+", " ", out)
    for n in names:
        m = re.search(rf"'(?:EasyNet\.)?{re.escape(n)}' depends on axioms: \[([^\]]*)\]", flat)
        if m:
            res[n] = [a.strip() for a in m.group(1).split(",") if a.strip()]
        elif re.search(rf"'(?:EasyNet\.)?{re.escape(n)}' does not depend on any axioms", flat):
            res[n] = []
    return res


def leanchecker(prop_id: str) -> tuple[bool, str]:
    with _BuildLock():
        rc, out = _run(["lake", "env", "leanchecker", f"EasyNet.Props.{prop_id}"], LEAN, timeout=3600)
    return rc == 0, out[-2000:]


def run_driver(cases: list[tuple[str, str, list[str]]]) -> dict[str, list[str]]:
    """cases: (id, "<model> <cfg…>", ops) -> id -> output lines"""
    if not DRIVER.exists():
        raise InfraError("endriver not built")
    text = []
    for cid, head, ops in cases:
        text.append(f"case {cid} {head}")
        text.extend(ops)
        text.append("end")
    rc, out = _run([str(DRIVER)], LEAN, input="\n".join(text) + "\n", timeout=1800)
    if rc != 0:
        raise InfraError(f"endriver exit {rc}: {out[-500:]}")
    res: dict[str, list[str]] = {}
    cur: list[str] | None = None
    for line in out.splitlines():
        if line.startswith("case "):
            cur = res.setdefault(line.split()[1], [])
        elif line == "end":
            cur = None
        elif cur is not None:
            cur.append(line)
    return res


# ----------------------------------------------------------------------------------------------
# known findings
# ----------------------------------------------------------------------------------------------

def known_findings(prop_id: str) -> list[tuple[str, str]]:
    """open findings of this property: (key, text)"""
    res = []
    if KNOWN.exists():
        for line in KNOWN.read_text().splitlines():
            m = re.match(rf"finding:\s+property={prop_id}\s+key=(\S+)\s+(.*)", line.strip())
            if m:
                res.append((m.group(1), m.group(2)))
    return res


# ----------------------------------------------------------------------------------------------
# generic runner
# ----------------------------------------------------------------------------------------------

def hexs(b: bytes) -> str:
    return bytes(b).hex() if b else "-"


def first_diff(a: list[str], b: list[str]) -> str:
    for i, (x, y) in enumerate(zip(a, b)):
        if x != y:
            return f"line {i}: real={x!r} model={y!r}"
    if len(a) != len(b):
        i = min(len(a), len(b))
        return f"line {i}: real={(a[i] if i < len(a) else '<end>')!r} model={(b[i] if i < len(b) else '<end>')!r}"
    return ""


class Stats:
    def __init__(self) -> None:
        self.evaluations = 0
        self.nontrivial: dict[str, int] = {}
        self.distinct: set[str] = set()
        self.samples: list[Any] = []
        self.disagreements: list[dict] = []
        self.oracle_violations: list[dict] = []
        self.known_hit: list[str] = []
        self.errors: dict[str, int] = {}
        self.extra: dict[str, Any] = {}
        self.n_disagreements = 0
        self.n_oracle = 0
        self.model_runs = 0


def case_digest(case: Any) -> str:
    return hashlib.sha1(json.dumps(case, sort_keys=True, default=str).encode()).hexdigest()


def safe_run_real(mod, case: dict, stats: "Stats | None" = None) -> list[str]:
    """the real code must not crash the harness: an unexpected exception is an observable"""
    try:
        return mod.run_real(case)
    except InfraError:
        raise
    except Exception as e:
        if stats is not None:
            stats.errors[type(e).__name__] = stats.errors.get(type(e).__name__, 0) + 1
        if os.environ.get("VERIF_DEBUG"):
            traceback.print_exc()
        return [f"harness-exc {type(e).__name__}: {e}"]


def evaluate_cases(mod, cases: Iterable[dict], stats: Stats, *, use_model: bool, deadline: float | None = None,
                   batch: int = 1500) -> None:
    """run real + model on the cases (in batches, so that memory stays bounded), diff, oracle. Appends to stats.
    Stops early when `deadline` (time.time() value) has passed."""
    buf: list[dict] = []
    for c in cases:
        buf.append(c)
        if len(buf) >= batch:
            _evaluate_batch(mod, buf, stats, use_model)
            buf = []
            if deadline is not None and time.time() > deadline:
                return
    if buf:
        _evaluate_batch(mod, buf, stats, use_model)


def _evaluate_batch(mod, cases: list[dict], stats: Stats, use_model: bool) -> None:
    reals: list[list[str]] = []
    for c in cases:
        reals.append(safe_run_real(mod, c, stats))
    model_out: dict[str, list[str]] = {}
    if use_model and hasattr(mod, "model_input"):
        batch = []
        for i, c in enumerate(cases):
            mi = mod.model_input(c, reals[i])
            if mi is not None:
                batch.append((str(i), mi[0], mi[1]))
        if batch:
            model_out = run_driver(batch)
            stats.model_runs += len(batch)
    for i, (c, r) in enumerate(zip(cases, reals)):
        stats.evaluations += 1
        key = mod.nontrivial(c, r) if hasattr(mod, "nontrivial") else "case"
        if key is not None:
            d = case_digest(c)
            if d not in stats.distinct:
                stats.distinct.add(d)
                stats.nontrivial[key] = stats.nontrivial.get(key, 0) + 1
        if len(stats.samples) < 4 and (key is not None):
            stats.samples.append({"case": c, "real": r[:12]})
        if str(i) in model_out:
            m = model_out[str(i)]
            if hasattr(mod, "model_post"):
                m = mod.model_post(c, m)
            rr = mod.real_for_diff(c, r) if hasattr(mod, "real_for_diff") else r
            if rr != m:
                stats.n_disagreements += 1
                if len(stats.disagreements) < 30:
                    stats.disagreements.append({"case": c, "real": r, "model": m, "first_diff": first_diff(rr, m)})
        why = mod.oracle(c, r)
        if why:
            stats.n_oracle += 1
            # keep a few failing cases PER failure signature, so that a frequent (e.g. known) failure cannot crowd
            # a rarer, different one out of the list the verdict looks at
            try:
                k0 = mod.known_key(c, r, why) if hasattr(mod, "known_key") else ""
            except Exception:
                k0 = ""
            per = stats.extra.setdefault("_per_key", {})
            if per.get(k0, 0) < 6 and len(stats.oracle_violations) < 240:
                per[k0] = per.get(k0, 0) + 1
                stats.oracle_violations.append({"case": c, "real": r, "why": why, "key0": k0})
    if hasattr(mod, "after_batch"):
        mod.after_batch()


def shrink_case(mod, case: dict, why: str) -> tuple[dict, list[str], str]:
    """greedy shrinking while the oracle keeps firing"""
    real = safe_run_real(mod, case)
    if not hasattr(mod, "shrink"):
        return case, real, why
    has_key = hasattr(mod, "known_key")
    key0 = mod.known_key(case, real, why) if has_key else ""
    budget = 400
    deadline = time.time() + 20.0
    improved = True
    while improved and budget > 0 and time.time() < deadline:
        improved = False
        for cand in mod.shrink(case):
            budget -= 1
            if budget <= 0 or time.time() > deadline:
                break
            try:
                r = safe_run_real(mod, cand)
                w = mod.oracle(cand, r)
            except Exception:
                continue
            # a smaller case is accepted only if it fails in the SAME way (same signature): shrinking must never turn
            # an unlisted failure into a listed (known) one, or the other way round
            if w and (not has_key or mod.known_key(cand, r, w) == key0):
                case, real, why = cand, r, w
                improved = True
                break
    return case, real, why


def write_replay(prop_id: str, seed: int, n: int, obj: dict) -> Path:
    REPLAYS.mkdir(parents=True, exist_ok=True)
    p = REPLAYS / f"{prop_id}-{seed}-{n}.json"
    p.write_text(json.dumps(obj, indent=1, default=str))
    return p


def main_check(mod, argv: list[str] | None = None) -> int:
    import argparse

    ap = argparse.ArgumentParser()
    ap.add_argument("--tier", default=os.environ.get("VERIF_TIER", "quick"), choices=["quick", "thorough"])
    ap.add_argument("--replay", default=None)
    args = ap.parse_args(argv)
    t0 = time.time()
    seed = seed_from_env()
    prop_id = mod.ID
    try:
        if args.replay:
            return replay(mod, Path(args.replay))
        return _check(mod, prop_id, args.tier, seed, t0)
    except InfraError as e:
        print(f"INFRA-ERROR {prop_id}: {e}", file=sys.stderr)
        return 2


def replay(mod, path: Path) -> int:
    obj = json.loads(path.read_text())
    cap_address_space()
    case = obj.get("case")
    if case is None:
        print(json.dumps(obj, indent=1))
        return 0
    real = safe_run_real(mod, case)
    print("REAL:")
    print("\n".join(real))
    if hasattr(mod, "model_input") and mod.model_input(case, real) is not None and DRIVER.exists():
        mi = mod.model_input(case, real)
        m = run_driver([("0", mi[0], mi[1])]).get("0", [])
        if hasattr(mod, "model_post"):
            m = mod.model_post(case, m)
        print("MODEL:")
        print("\n".join(m))
    why = mod.oracle(case, real)
    print("ORACLE:", why or "ok")
    return 1 if why else 0


def _check(mod, prop_id: str, tier: str, seed: int, t0: float) -> int:
    rng = sub_rng(seed, prop_id, tier)
    notes: list[str] = []
    if REPLAYS.is_dir():
        for old in REPLAYS.glob(f"{prop_id}-*.json"):
            old.unlink(missing_ok=True)
    # ---- A. translate
    if hasattr(mod, "translate"):
        mod.translate()
    # ---- B. prove
    targets = ["endriver", f"EasyNet.Props.{prop_id}"]
    ok_build, build_log = lean_build(targets)
    driver_ok = DRIVER.exists()
    if not ok_build:
        # is it the driver or the proof that broke?
        ok_drv, _ = lean_build(["endriver"])
        driver_ok = ok_drv and DRIVER.exists()
    names = theorem_names(prop_id)
    required = list(getattr(mod, "REQUIRED_THEOREMS", []))
    proof_problems: list[str] = []
    axioms: dict[str, list[str] | None] = {}
    if ok_build:
        axioms = audit(prop_id, names)
        for n in required:
            if n not in names:
                proof_problems.append(f"required theorem {n} is missing from Props/{prop_id}.lean")
        for n, ax in axioms.items():
            if ax is None:
                proof_problems.append(f"theorem {n}: axioms could not be determined")
            elif not set(ax) <= ALLOWED_AXIOMS:
                proof_problems.append(f"theorem {n} depends on non-standard axioms {sorted(set(ax) - ALLOWED_AXIOMS)}")
    else:
        proof_problems.append("lake build failed: " + build_log[-1500:])
    hits = forbidden_hits()
    if hits:
        proof_problems.append("forbidden constructs: " + "; ".join(hits[:5]))
    checker_note = None
    if tier == "thorough" and ok_build:
        okc, outc = leanchecker(prop_id)
        checker_note = "leanchecker ok" if okc else "leanchecker FAILED: " + outc[-500:]
        if not okc:
            proof_problems.append(checker_note)
    obligations = max(len(set(names) | set(required)), 1)
    discharged = sum(1 for n in names if axioms.get(n) is not None and set(axioms[n]) <= ALLOWED_AXIOMS) if ok_build and not hits else 0

    # ---- C + D. correspondence and oracle
    cap_address_space()
    stats = Stats()
    cases: list[dict] = []
    if hasattr(mod, "corpus"):
        cases.extend(mod.corpus())
    cdir = CORPUS / prop_id
    if cdir.is_dir():
        for f in sorted(cdir.glob("*.json")):
            obj = json.loads(f.read_text())
            cases.extend(obj if isinstance(obj, list) else [obj])
    n_corpus = len(cases)
    import itertools
    # change-directed escalation (DESIGN.md section 3): modules whose normalised AST differs from the committed baseline
    # are not a verdict; they only raise the number of generated cases of this run (the time goes where the code moved)
    from vlib import asthash
    changed = asthash.changed_modules(REPO, VERIF / "harness" / "ast_baseline.json")
    boost = 1
    if changed:
        boost = int(os.environ.get("VERIF_CHANGED_BOOST", "3"))
        notes.append("modules changed w.r.t. the AST baseline (generation boosted x%d): %s" % (boost, ", ".join(changed[:12])))
    box = time.time() + (150 if tier == "quick" else 1500)
    evaluate_cases(mod, itertools.chain(cases, mod.generate(rng, tier, boost)), stats, use_model=driver_ok,
                   deadline=box if boost > 1 else None)

    if hasattr(mod, "tie_problems"):
        proof_problems.extend(mod.tie_problems(stats))
    broken_tie = bool(stats.disagreements) or bool(proof_problems) or not driver_ok
    escalated = 0
    if broken_tie and not stats.oracle_violations:
        # escalate the failing-input search (oracle on the real code only is what decides)
        # time-boxed: the search is an aid for producing a replay, never a verdict by itself
        before = stats.evaluations
        evaluate_cases(mod, mod.generate(sub_rng(seed, prop_id, "escalate"), "thorough" if tier == "quick" else tier, 3),
                       stats, use_model=False, deadline=time.time() + (60 if tier == "quick" else 240))
        escalated = stats.evaluations - before

    # ---- verdict
    known = known_findings(prop_id)
    violations: list[str] = []
    nrep = 0
    seen_keys: set[str] = set()
    for v in stats.oracle_violations:
        case, real, why = v["case"], v["real"], v["why"]
        key = mod.known_key(case, real, why) if hasattr(mod, "known_key") else ""
        if key in seen_keys:
            continue
        case, real, why = shrink_case(mod, case, why)
        key = mod.known_key(case, real, why) if hasattr(mod, "known_key") else ""
        if key in seen_keys:
            continue
        seen_keys.add(key)
        hit = next(((k, t) for k, t in known if k == key), None)
        if hit:
            stats.known_hit.append(key)
            print(f"KNOWN-FINDING: property={prop_id} {hit[1]}")
            continue
        p = write_replay(prop_id, seed, nrep, {"property": prop_id, "kind": "failing-input", "why": why, "key": key,
                                               "case": case, "real": real})
        nrep += 1
        violations.append(f"VIOLATION property={prop_id} replay={p}")
        if nrep >= 5:
            break
    if not violations and broken_tie:
        # (a known finding must not mask a proof / correspondence that no longer checks)
        what = {"property": prop_id, "kind": "no-failing-input-found",
                "broken_proof_obligations": proof_problems,
                "driver_built": driver_ok,
                "correspondence_disagreements": stats.disagreements[:5],
                "escalated_cases": escalated}
        p = write_replay(prop_id, seed, nrep, what)
        violations.append(f"VIOLATION property={prop_id} replay={p} no-failing-input-found")
    elif broken_tie and (violations or stats.known_hit):
        notes.append("proof/correspondence also broken: " + "; ".join(proof_problems)[:300] + f" disagreements={len(stats.disagreements)}")

    # ---- evidence
    cov: dict[str, Any] = {
        "obligations": obligations,
        "discharged": discharged,
        "checker_cmd": f"cd lean/EasyNet && lake build endriver EasyNet.Props.{prop_id} && lake env lean <audit: #print axioms of every {prop_id}_* theorem>"
                       + (" && lake env leanchecker EasyNet.Props." + prop_id if tier == "thorough" else ""),
        "trusted_base": list(getattr(mod, "TRUSTED_BASE", [])),
        "theorems": {n: axioms.get(n) for n in names},
        "proof_problems": proof_problems,
        "evaluations": stats.evaluations,
        "distinct_nontrivial": len(stats.distinct),
        "nontrivial_classes": stats.nontrivial,
        "rule": getattr(mod, "RULE", ""),
        "samples": stats.samples or [{"note": "no case"}],
        "corpus_cases": n_corpus,
        "model_disagreements": stats.n_disagreements,
        "model_runs": stats.model_runs,
        "oracle_violations": stats.n_oracle,
        "known_findings_hit": stats.known_hit,
        "escalated_cases": escalated,
        "harness_exceptions": stats.errors,
        "ast_hash_changed": changed if changed is not None else "no baseline",
    }
    if checker_note:
        cov["leanchecker"] = checker_note
    if hasattr(mod, "extra_coverage"):
        cov.update(mod.extra_coverage(stats))
    # keys the evidence schema types: free text given under one of them is kept under <key>_note instead
    for k, typ in (("exhaustive", bool), ("states", int), ("transitions", int), ("programs", int), ("explanation", str)):
        if k in cov and not isinstance(cov[k], typ):
            cov[k + "_note"] = cov.pop(k)
    ev = {
        "property_id": prop_id,
        "tier": tier,
        "seed": seed,
        "level": "proof",
        "coverage": cov,
        "assumptions": list(getattr(mod, "ASSUMPTIONS", [])) + notes,
        "wall_s": round(time.time() - t0, 2),
        "violations": len(violations),
    }
    EVIDENCE.mkdir(parents=True, exist_ok=True)
    (EVIDENCE / f"{prop_id}.json").write_text(json.dumps(ev, indent=1, default=str))
    for v in violations:
        print(v)
    print(f"{prop_id} {tier} seed={seed}: theorems {discharged}/{obligations}, cases {stats.evaluations} "
          f"(nontrivial distinct {len(stats.distinct)}), disagreements {stats.n_disagreements}, "
          f"oracle violations {stats.n_oracle}, known {len(stats.known_hit)}, {ev['wall_s']}s")
    return 1 if violations else 0
