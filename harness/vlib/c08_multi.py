"""
C08 — SEVERAL library TLS transports in ONE event loop, over the REAL asyncio stream adapter.

  run_multi(case)   1 … 4 connections made of `socket.socketpair()` ends.  End "x" of every connection is the library:
                    `AsyncIOBackend().wrap_stream_socket(sock)` (asyncio selector transport + the library's
                    BufferedProtocol, which hands the CALLER'S buffer to the loop: `get_buffer()` returns it, the selector
                    callback fills it, `buffer_updated()` resolves a future — one loop iteration BEFORE the waiting task
                    runs) wrapped by `AsyncTLSStreamTransport.wrap()`.  End "y" is either the same thing (peer "easynet":
                    both ends of the connection live in this process) or an independent stdlib-ssl endpoint
                    (`ssl.SSLObject` over two `MemoryBIO`s on the raw non-blocking socket, driven by harness tasks).
                    All handshakes run in the same loop (together or one connection after the other), then the traffic
                    goes in ROUNDS: in a round every end may get one message (1 B … several records) from its own peer;
                    "readers-first": every reader is parked in recv / recv_into, then ALL writers send in the same loop
                    turn, so that ciphertext for several transports arrives in the same loop iteration; also
                    writers-first and staggered starts.  Each end must read exactly what its own peer wrote.

What this kind adds to `session` / `duplex`: state that is (wrongly) shared between the transports of one process, and
buffers that are lent to the wrapped transport across a suspension, only matter when several transports receive at the
same moment through a transport that fills the lent buffer from the loop.

Determinism.  Real sockets, but a single thread and AF_UNIX socketpairs: a `send()` has queued the bytes on the peer's
receive queue when it returns, and a `recv()` has made the sender writable when it returns.  The loop is the virtual-time
loop of c08_env with one more event source: before "nothing runnable" is concluded the selector is polled; only when no
callback is ready, no socket is ready and no (near) timer is scheduled is the session stuck (`Hang`) — exact, no wall-clock
wait in the normal case.  Belt and braces: a stuck session is confirmed by waiting `GRACE` seconds of real time for socket
events, and the whole case is run a second time: stuck 2 / 2 -> a `deadlock` line (the library is the only thing that can be
stuck: the harness's peers read and write whenever they can); stuck once only -> InfraError.  A wall-clock guard (`WALL`
seconds per attempt, only ever hit on a badly overloaded machine) is an InfraError, never a verdict; a session that keeps
the loop spinning is cut by the loop's turn limit (a result, like a hang).

case = {"kind": "multi", "seed": n, "ver": "1.3" | "1.2",
        "conns": [{"peer": "easynet" | "raw", "role": "client" | "server" (role of end x)} …]      1 … 4 connections
        "hs": "together" | "sequential"        all the handshakes at once / one connection after the other
        "sndbuf": 0 | n                         SO_SNDBUF of every socket (0 = default): small values give real backpressure
        "rounds": [{"order": "readers-first" | "writers-first" | "staggered", "park": k, "gap": k,
                    "op": "recv" | "recvinto", "buf": n,
                    "sizes": [[x→y bytes, y→x bytes] per connection]} …]}
"""
from __future__ import annotations

import asyncio
import socket
import ssl
import time
from typing import Any

from vlib import core
from vlib import c08_env as env
from vlib import c08_run as R

from easynetwork.lowlevel.api_async.backend._asyncio.backend import AsyncIOBackend
from easynetwork.lowlevel.api_async.transports.tls import AsyncTLSStreamTransport

GRACE = 0.25          # real seconds a stuck session is given for late socket events before it is called stuck
GRACE_AFTER = 0.03    # … once `_CONFIRMED` stuck sessions were confirmed in this process (the verdict is settled by then)
WALL = 60.0           # wall-clock guard per attempt (infrastructure error)
MAX_TURNS = 150000

_CONFIRMED = [0]


class WallTimeout(Exception):
    pass


class SockLoop(env.VLoop):
    """c08_env.VLoop + real socket readiness as an event source"""

    def __init__(self) -> None:
        super().__init__()
        self.max_turns = MAX_TURNS
        self.grace = GRACE if _CONFIRMED[0] < 3 else GRACE_AFTER
        self.late_events = 0
        self.wall_deadline = time.monotonic() + WALL

    def _real_turn(self) -> None:
        asyncio.SelectorEventLoop._run_once(self)      # the plain asyncio turn (select, timers, callbacks)

    def _run_once(self) -> None:
        if not self._stopping and time.monotonic() > self.wall_deadline:
            raise WallTimeout()
        if not self._ready and self._selector.select(0):
            # a socket is ready (level-triggered: peeking changes nothing): an ordinary turn, virtual time stands still
            self.turns += 1
            if self.turns > self.max_turns:
                raise env.Hang("too many loop turns")
            self._real_turn()
            return
        try:
            super()._run_once()
        except env.Hang:
            if self.turns <= self.max_turns and self.grace > 0 and self._selector.select(self.grace):
                self.late_events += 1                   # (never observed with AF_UNIX pairs; see the module docstring)
                self._real_turn()
                return
            raise


class RawSockPeer:
    """independent stdlib-ssl endpoint on a raw non-blocking socket; reads and writes whenever it is asked to"""

    lib = False

    def __init__(self, sock: socket.socket, ctx: ssl.SSLContext, server_side: bool) -> None:
        self.sock = sock
        self.inc, self.out = ssl.MemoryBIO(), ssl.MemoryBIO()
        self.obj = ctx.wrap_bio(self.inc, self.out, server_side=server_side,
                                server_hostname=None if server_side else "localhost")
        self.flush_lock = asyncio.Lock()

    async def _flush(self) -> None:
        async with self.flush_lock:
            if self.out.pending:
                await asyncio.get_running_loop().sock_sendall(self.sock, self.out.read())

    async def _fill(self) -> None:
        data = await asyncio.get_running_loop().sock_recv(self.sock, 65536)
        if data:
            self.inc.write(data)
        else:
            self.inc.write_eof()

    async def _pump(self, method, *args):
        while True:
            try:
                r = method(*args)
            except ssl.SSLWantReadError:
                await self._flush()
                await self._fill()
            except ssl.SSLWantWriteError:
                await self._flush()
            else:
                await self._flush()
                return r

    async def handshake(self) -> None:
        await self._pump(self.obj.do_handshake)

    async def read_exactly(self, n: int, op: str, buf: int) -> bytes:
        got = bytearray()
        while len(got) < n:
            d = await self._pump(self.obj.read, min(65536, n - len(got)))
            if not d:
                break
            got += d
        return bytes(got)

    async def write(self, data: bytes) -> None:
        # encrypt everything, then hand it to the kernel in THIS loop turn as far as the socket buffer allows
        view = memoryview(data)
        while len(view):
            k = self.obj.write(view)
            view = view[k:]
        async with self.flush_lock:
            blob = memoryview(self.out.read())
            try:
                sent = self.sock.send(blob)
            except (BlockingIOError, InterruptedError):
                sent = 0
            if sent < len(blob):
                await asyncio.get_running_loop().sock_sendall(self.sock, blob[sent:])


class LibEnd:
    """the library: AsyncTLSStreamTransport over the asyncio stream adapter"""

    lib = True

    def __init__(self, tls: AsyncTLSStreamTransport) -> None:
        self.tls = tls

    async def read_exactly(self, n: int, op: str, buf: int) -> bytes:
        got = bytearray()
        scratch = bytearray(buf) if op == "recvinto" else None
        while len(got) < n:
            if scratch is not None:
                k = await self.tls.recv_into(scratch)
                d = bytes(scratch[:k])
            else:
                d = await self.tls.recv(buf)
            if not d:
                break
            got += d
        return bytes(got)

    async def write(self, data: bytes) -> None:
        await self.tls.send_all(data)


def _abort(raw: Any) -> None:
    tr = getattr(raw, "_AsyncioTransportStreamSocketAdapter__transport", None)
    if tr is not None:
        try:
            tr.abort()
        except Exception:  # noqa: BLE001
            pass


def _once(case: dict) -> tuple[str, list[str]]:
    """-> (status, lines)   status: "ok" (the session ran to its end; the lines say what happened), "hang", "wall" """
    seed = case["seed"]
    ver = case.get("ver", "1.3")
    specs = list(case.get("conns") or [{"peer": "easynet"}])[:4]
    rounds = list(case.get("rounds") or [])
    sndbuf = int(case.get("sndbuf", 0))
    box: dict[str, Any] = {"stage": "handshake", "waiting": [], "lines": []}
    lines: list[str] = box["lines"]

    async def main() -> None:
        loop = asyncio.get_running_loop()
        backend = AsyncIOBackend()
        raws: list[Any] = []
        socks: list[socket.socket] = []
        try:
            # ---- sockets + wrapped transports
            pairs = []
            for spec in specs:
                sx, sy = socket.socketpair()
                for s in (sx, sy):
                    s.setblocking(False)
                    if sndbuf:
                        s.setsockopt(socket.SOL_SOCKET, socket.SO_SNDBUF, sndbuf)
                raw_x = await backend.wrap_stream_socket(sx)
                raws.append(raw_x)
                if spec.get("peer", "easynet") == "easynet":
                    raw_y: Any = await backend.wrap_stream_socket(sy)
                    raws.append(raw_y)
                else:
                    raw_y = None
                    socks.append(sy)
                pairs.append((raw_x, raw_y, sy))

            # ---- handshakes
            ends: list[list[Any]] = [[None, None] for _ in specs]
            hs_err: list[str] = []

            async def hs(i: int, side: int) -> None:
                spec = specs[i]
                x_server = spec.get("role", "client") == "server"
                server_side = x_server if side == 0 else not x_server
                ctx = R.server_ctx(ver, 0) if server_side else R.client_ctx(ver)
                raw_x, raw_y, sy = pairs[i]
                name = f"hs c{i}{'xy'[side]}"
                box["waiting"].append(name)
                try:
                    if side == 0 or raw_y is not None:
                        tls = await AsyncTLSStreamTransport.wrap(raw_x if side == 0 else raw_y, ctx, server_side=server_side,
                                                                 server_hostname=None if server_side else "localhost",
                                                                 handshake_timeout=1e9)
                        ends[i][side] = LibEnd(tls)
                    else:
                        peer = RawSockPeer(sy, ctx, server_side)
                        await peer.handshake()
                        ends[i][side] = peer
                except Exception as e:  # noqa: BLE001
                    hs_err.append(f"c{i}{'xy'[side]}:{R.errname(e)}")
                box["waiting"].remove(name)

            if case.get("hs", "together") == "sequential":
                for i in range(len(specs)):
                    await asyncio.gather(loop.create_task(hs(i, 0)), loop.create_task(hs(i, 1)))
            else:
                # every x end first, then every y end: the starts of the handshakes of all connections share loop turns
                await asyncio.gather(*([loop.create_task(hs(i, 0)) for i in range(len(specs))]
                                       + [loop.create_task(hs(i, 1)) for i in range(len(specs))]))
            if hs_err:
                lines.append("o.hs-error " + ",".join(sorted(hs_err)))
                return

            # ---- rounds
            for r, rd in enumerate(rounds):
                box["stage"] = f"round-{r}"
                op, buf = rd.get("op", "recv"), int(rd.get("buf", 16384))
                park, gap = int(rd.get("park", 3)), int(rd.get("gap", 1))
                sizes = rd.get("sizes") or []
                readers, writers = [], []
                results: dict[str, bytes] = {}
                msgs: dict[str, bytes] = {}
                errs: list[str] = []

                async def rd_task(key: str, end: Any, n: int) -> None:
                    box["waiting"].append("read " + key)
                    try:
                        results[key] = await end.read_exactly(n, op, buf)
                    except Exception as e:  # noqa: BLE001
                        errs.append(f"read:{key}:{R.errname(e)}")
                    box["waiting"].remove("read " + key)

                async def wr_task(key: str, end: Any, data: bytes) -> None:
                    box["waiting"].append("write " + key)
                    try:
                        await end.write(data)
                    except Exception as e:  # noqa: BLE001
                        errs.append(f"write:{key}:{R.errname(e)}")
                    box["waiting"].remove("write " + key)

                for i in range(len(specs)):
                    sz = sizes[i] if i < len(sizes) else [0, 0]
                    for d, (src, dst) in enumerate(((0, 1), (1, 0))):
                        n = int(sz[d]) if d < len(sz) else 0
                        if n <= 0:
                            continue
                        key = f"c{i}.{'x2y' if d == 0 else 'y2x'}"
                        msgs[key] = R.plaintext(seed, f"multi-{r}-{key}", n)
                        readers.append((key, ends[i][dst], n))
                        writers.append((key, ends[i][src], msgs[key]))
                tasks = []
                order = rd.get("order", "readers-first")
                if order == "readers-first":
                    tasks += [loop.create_task(rd_task(*a)) for a in readers]
                    await env.pause(park)               # every reader is parked in the wrapped transport's recv_into
                    tasks += [loop.create_task(wr_task(*a)) for a in writers]     # all the writes in one loop turn
                elif order == "writers-first":
                    tasks += [loop.create_task(wr_task(*a)) for a in writers]
                    await env.pause(park)
                    tasks += [loop.create_task(rd_task(*a)) for a in readers]
                else:                                   # staggered: reader, writer, `gap` turns, next reader, writer, …
                    for ra, wa in zip(readers, writers):
                        tasks.append(loop.create_task(rd_task(*ra)))
                        tasks.append(loop.create_task(wr_task(*wa)))
                        await env.pause(gap)
                await asyncio.gather(*tasks)
                if errs:
                    lines.append(f"o.task-error r{r} " + ",".join(sorted(errs)))
                for key in sorted(msgs):
                    got = results.get(key, b"")
                    lines.append(f"o.xfer r{r} {key} written={R.dg(msgs[key])} received={R.dg(got)} "
                                 f"prefix={int(msgs[key].startswith(got))}")
                if errs or any(results.get(k) != m for k, m in msgs.items()):
                    return                              # the streams are out of step: later rounds mean nothing
            box["stage"] = "done"
        finally:
            # tear-down is not C08's business (C09 / C14): drop everything
            for raw in raws:
                _abort(raw)
            for s in socks:
                for rm in (loop.remove_reader, loop.remove_writer):
                    try:
                        rm(s.fileno())
                    except Exception:  # noqa: BLE001
                        pass
                try:
                    s.close()
                except OSError:
                    pass
            for raw in raws:
                try:
                    await raw.aclose()
                except BaseException:  # noqa: BLE001
                    pass

    out, loop = env.run(main, SockLoop)
    nlib = sum(2 if s.get("peer", "easynet") == "easynet" else 1 for s in specs)
    head = [f"multi conns={len(specs)} tls-transports={nlib} rounds={len(rounds)}"]
    status = "ok"
    if out[0] == "hang":
        status = "hang"
        lines.append(f"deadlock stage={box['stage']} {out[1]}; waiting={','.join(sorted(box['waiting'])).replace(' ', ':') or '-'}")
    elif out[0] == "exc":
        if isinstance(out[1], WallTimeout):
            status = "wall"
        lines.append(f"harness-exc {type(out[1]).__name__}: {out[1]}")
    if loop.unhandled:
        lines.append("unhandled " + "|".join(loop.unhandled))
    if getattr(loop, "late_events", 0):
        head.append(f"note late-socket-events={loop.late_events}")
    return status, head + lines


def problem(case: dict, real: list[str]) -> str | None:
    """the property judged on one run: every handshake completes, nothing fails (nobody injects an error, nobody closes),
    nothing is stuck, every end has read exactly what its own peer wrote"""
    for ln in real:
        if ln.startswith(("harness-exc", "unhandled")):
            return ln
        if ln.startswith("deadlock"):
            return "deadlock: tasks are waiting and nothing can wake them (" + ln + ")"
    for ln in real:
        if ln.startswith("o.hs-error "):
            return "the handshake did not complete: " + ln.split(None, 1)[1]
    for ln in real:
        if ln.startswith("o.task-error "):
            return "a transfer failed although nothing reported an error: " + ln.split(None, 1)[1]
    xfers = 0
    for ln in real:
        if ln.startswith("o.xfer "):
            xfers += 1
            w = ln.split()
            kv = dict(x.split("=", 1) for x in w if "=" in x)
            if kv["written"] != kv["received"]:
                return (f"plaintext of round {w[1]}, connection/direction {w[2]}: received {kv['received']} != written "
                        f"{kv['written']} (prefix={kv['prefix']})")
    nconn = len(list(case.get("conns") or [{"peer": "easynet"}])[:4])
    planned = sum(1 for rd in case.get("rounds") or [] for sz in (rd.get("sizes") or [])[:nconn] for n in sz[:2] if int(n) > 0)
    if xfers != planned:
        return f"no oracle data ({xfers} of {planned} transfers reported)"
    return None


def run_multi(case: dict) -> list[str]:
    status, lines = _once(case)
    if status == "wall":
        status, lines = _once(case)
        if status == "wall":
            raise core.InfraError("C08 multi session did not finish within the harness's wall-clock guard (machine load?)")
    if status == "ok":
        return lines                # ran to its end: whatever it shows (errors, wrong bytes) is behaviour, not timing
    # stuck: it is a result only if the session fails again when it is run a second time
    status2, lines2 = _once(case)
    if status2 == "hang":
        _CONFIRMED[0] += 1
        return lines2
    if status2 == "ok" and problem(case, lines2) is not None:
        return lines2               # not stuck this time, but it failed again in another way (e.g. a decryption error)
    raise core.InfraError("C08 multi session: a stuck transfer did not reproduce on the second run "
                          f"(first: {[ln for ln in lines if ln.startswith('deadlock')][:1]}, second: {status2})")
