"""
Driving the real StreamDataProducer / StreamDataConsumer / BufferedStreamDataConsumer, and turning the
same run into endriver input.  Used by C01, C02, C06, C07 (and by the endpoint properties for reference decoding).
"""
from __future__ import annotations

from typing import Any

from vlib import core, sers

from easynetwork.converter import AbstractPacketConverter
from easynetwork.exceptions import (
    IncrementalDeserializeError,
    LimitOverrunError,
    PacketConversionError,
    StreamProtocolParseError,
)
from easynetwork.lowlevel._stream import BufferedStreamDataConsumer, StreamDataConsumer, StreamDataProducer
from easynetwork.protocol import BufferedStreamProtocol, StreamProtocol


class Wrapped:
    """application-level packet produced by the converter"""

    __slots__ = ("v",)

    def __init__(self, v: Any) -> None:
        self.v = v

    def __eq__(self, o: object) -> bool:
        return isinstance(o, Wrapped) and o.v == self.v

    def __repr__(self) -> str:
        return f"W({sers.show(self.v)})"


class WrapConverter(AbstractPacketConverter[Wrapped, Any]):
    """converter used by the harness: wraps DTO packets; DTOs equal to the *poison* value are invalid"""

    def __init__(self, poison: Any = None) -> None:
        self.poison = poison

    def create_from_dto_packet(self, packet: Any) -> Wrapped:
        if self.poison is not None and packet == self.poison:
            raise PacketConversionError("poison packet")
        return Wrapped(packet)

    def convert_to_dto_packet(self, obj: Wrapped) -> Any:
        return obj.v


def make_protocol(spec: dict, path: str, conv: bool = False, poison: Any = None):
    ser = sers.build(spec)
    c = WrapConverter(poison) if conv else None
    if path == "buffered":
        return BufferedStreamProtocol(ser, c)
    return StreamProtocol(ser, c)


def produce(spec: dict, packets: list[Any], conv: bool = False) -> list[bytes]:
    """the chunks the real producer generates for each packet (concatenated per packet)"""
    proto = make_protocol(spec, "copy" if not sers.is_buffered(spec) else "buffered", conv)
    prod = StreamDataProducer(proto)
    out = []
    for p in packets:
        out.append(b"".join(prod.generate(Wrapped(p) if conv else p)))
    return out


def err_line(e: StreamProtocolParseError) -> str:
    inner = e.error
    if isinstance(inner, LimitOverrunError):
        kind = "limit"
    elif isinstance(inner, IncrementalDeserializeError):
        kind = "parse"
    elif isinstance(inner, PacketConversionError):
        kind = "conv"
    else:
        kind = "other:" + type(inner).__name__
    return f"err {kind}"


def pkt_line(p: Any) -> str:
    if isinstance(p, Wrapped):
        return "pkt " + repr(p)
    return "pkt " + sers.show(p)


RETAINED = {"packets_retained_and_rechecked": 0, "buffer_like_packets": 0, "mutated": 0,    # evidence counters
            "errors_retained_and_rechecked": 0, "view_remainders": 0}


class Retain:
    """The application keeps the packets it was given.  Every delivered packet is retained here as the very object the
    consumer returned, next to the text it had at the moment of delivery; `finish()` is called once the whole stream has been
    received and renders every retained packet AGAIN: a packet whose value changed after it was delivered (e.g. a view of
    the receive buffer that later reads overwrote), or that cannot be read any more (released view), gives a line
    `mutated #<i> <then> -> <now>`.  Oracles treat any such line as a violation of "returns exactly those packets".
    The reported parse errors are retained the same way (`add_err`): the remainder an error carries (`remaining_data`, and the
    one of the wrapped IncrementalDeserializeError) is rendered when the error is raised and again at the end of the run;
    an error whose remainder changed meanwhile (a view of the receive buffer that the consumer then overwrote) gives
    `mutated #<i> err-remainder <then> -> <now>`: the error does not carry the unread remainder (C06)."""

    def __init__(self) -> None:
        self.kept: list[tuple[int, str, Any]] = []
        self.errs: list[tuple[int, str, Any]] = []

    @staticmethod
    def _rem_text(e: Any) -> str:
        out = [core.hexs(bytes(e.remaining_data))]
        inner = getattr(e, "error", None)
        if isinstance(inner, IncrementalDeserializeError):
            out.append(core.hexs(bytes(inner.remaining_data)))
        return "/".join(out)

    def add_err(self, e: Any, lines: list[str]) -> None:
        """append the `err` line of the parse error `e` to `lines` and retain `e` with the remainder it carries now"""
        lines.append(err_line(e))
        try:
            then = self._rem_text(e)
        except Exception as x:  # noqa: BLE001
            then = f"unreadable ({type(x).__name__})"
        self.errs.append((len(self.errs), then, e))
        RETAINED["errors_retained_and_rechecked"] += 1
        if isinstance(e.remaining_data, memoryview):
            RETAINED["view_remainders"] += 1

    def add(self, p: Any, lines: list[str]) -> None:
        """append the `pkt` line of `p` to `lines` and retain `p`"""
        ln = pkt_line(p)
        self.kept.append((len(self.kept), ln, p))
        lines.append(ln)
        RETAINED["packets_retained_and_rechecked"] += 1
        if isinstance(p.v if isinstance(p, Wrapped) else p, (memoryview, bytearray)):
            RETAINED["buffer_like_packets"] += 1

    def finish(self, lines: list[str]) -> None:
        for i, then, p in self.kept:
            try:
                now = pkt_line(p)
            except Exception as e:  # noqa: BLE001
                now = f"unreadable ({type(e).__name__}: {e})"
            if now != then:
                RETAINED["mutated"] += 1
                lines.append(f"mutated #{i} {then[4:]} -> {now[4:] if now.startswith('pkt ') else now}")
        self.kept.clear()
        for i, then, e in self.errs:
            try:
                now = self._rem_text(e)
            except Exception as x:  # noqa: BLE001
                now = f"unreadable ({type(x).__name__}: {x})"
            if now != then:
                RETAINED["mutated"] += 1
                lines.append(f"mutated #{i} err-remainder {then} -> {now}")
        self.errs.clear()


def mutated(real: list[str]) -> str | None:
    """oracle helper: the first `mutated` line of a run, as a failure text"""
    for ln in real:
        if ln.startswith("mutated ") and " err-remainder " in ln:
            return ("the remainder carried by a reported parse error changed after the error had been raised "
                    "(it is not the unread remainder any more): " + ln[8:])
        if ln.startswith("mutated "):
            return "a delivered packet changed after it had been returned to the application: " + ln[8:]
    return None


def cut(stream: bytes, sizes: list[int]) -> list[bytes]:
    """cut `stream` following `sizes` (cyclically); zero sizes give empty chunks"""
    out, i, k = [], 0, 0
    if not sizes:
        sizes = [len(stream) or 1]
    guard = 0
    while i < len(stream):
        n = sizes[k % len(sizes)]
        k += 1
        if n == 0:
            guard += 1
            if guard > 3:
                n = 1
            else:
                out.append(b"")
                continue
        out.append(stream[i:i + n])
        i += n
    return out


def drive_copy(proto, chunks: list[bytes], lines: list[str], trace: list | None = None) -> StreamDataConsumer:
    consumer = StreamDataConsumer(proto)
    keep = Retain()
    try:
        for ch in chunks:
            arg: bytes | None = ch
            while True:
                try:
                    p = consumer.next(arg)
                except StopIteration:
                    break
                except StreamProtocolParseError as e:
                    keep.add_err(e, lines)
                else:
                    keep.add(p, lines)
                arg = None
            if trace is not None:
                trace.append(consumer.get_buffer().nbytes)
        lines.append("buf " + core.hexs(bytes(consumer.get_buffer())))
    finally:
        keep.finish(lines)
    return consumer


def drive_buffered(proto, stream: bytes, fills: list[int], hint: int, lines: list[str], actual: list[bytes],
                   prefill: bytes = b"") -> BufferedStreamDataConsumer:
    """fills: requested fill sizes (cyclic); each real fill = min(requested, room, remaining) and ≥ 1.
    `actual` receives the byte strings really written (for the model)."""
    consumer = BufferedStreamDataConsumer(proto, hint)
    keep = Retain()
    i, k = 0, 0
    if not fills:
        fills = [1 << 30]
    try:
        while i < len(stream):
            try:
                view = memoryview(consumer.get_write_buffer())
            except RuntimeError:
                lines.append("crashed")     # "The start position is set to the end of the buffer"
                return consumer
            room = view.nbytes
            lines.append(f"room {room}")
            n = max(1, min(fills[k % len(fills)], room, len(stream) - i))
            k += 1
            data = stream[i:i + n]
            view[:n] = data
            view.release()
            actual.append(data)
            i += n
            arg: int | None = n
            while True:
                try:
                    p = consumer.next(arg)
                except StopIteration:
                    break
                except StreamProtocolParseError as e:
                    keep.add_err(e, lines)
                else:
                    keep.add(p, lines)
                arg = None
    finally:
        keep.finish(lines)
    return consumer


def codec_items(spec: dict, model_lines: list[str], conv: bool = False, poison: Any = None) -> list[str]:
    """turn the model's `frame <hex>` lines into `pkt`/`err parse` lines by applying the REAL one-shot codec
    (the codec is a parameter of the theorems, see DESIGN.md 4.3)"""
    from easynetwork.exceptions import DeserializeError

    ser = sers.build(sers.recv_spec(spec))
    c = WrapConverter(poison) if conv else None
    out = []
    for ln in model_lines:
        if ln.startswith("frame "):
            h = ln.split()[1]
            data = b"" if h == "-" else bytes.fromhex(h)
            try:
                p = frame_decode(spec, ser, data)
            except DeserializeError:
                out.append("err parse")
                continue
            except Exception as e:  # noqa: BLE001
                # the real one-shot codec let something else than DeserializeError out: never the harness' crash, always a
                # visible difference (the real run of the same bytes is judged by the oracle)
                out.append(f"codec-exc {type(e).__name__}")
                continue
            if c is not None:
                try:
                    p = c.create_from_dto_packet(p)
                except PacketConversionError:
                    out.append("err conv")
                    continue
            out.append(pkt_line(p))
        elif ln == "limit":
            out.append("err limit")
        else:
            out.append(ln)
    return out


def frame_decode(spec: dict, ser, data: bytes) -> Any:
    """payload codec of one delimited frame, as the incremental path applies it"""
    r = sers.recv_spec(spec)
    if r["k"] == "line":
        # incremental path: str(data, encoding, unicode_errors) on the frame as cut (keep_end frames include the newline)
        from easynetwork.exceptions import DeserializeError
        try:
            return str(data, r.get("encoding", "ascii"), r.get("errors", "strict"))
        except UnicodeError as e:
            raise DeserializeError(str(e)) from e
    return ser.deserialize(data)
