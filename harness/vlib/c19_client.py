"""
C19, client layer: AsyncTCPNetworkClient (clients/async_tcp.py) and AsyncUDPNetworkClient (clients/async_udp.py) connect
lazily, through backend.create_tcp_connection() (= name resolution + the resolver's staggered race + wrap_stream_socket)
and backend.create_udp_endpoint() (= name resolution + create_datagram_connection(): one socket per address until one
connects + the asyncio datagram endpoint).  "The connect is cancelled at any point" also happens through the client:
another task calls client.aclose() / leaves the client's context (__aexit__), or the task which started the connect is
cancelled, while the connect is suspended in the name resolution of the remote host, in the name resolution of the
local host (local_address given by name: a second getaddrinfo await), in the race, or in the creation of the transport.

Case (api "client"):
   proto      "tcp" | "udp"                      (default "tcp")
   addrs      list of "ok" | "refused" | "ok6" | "refused6"
                                                 loopback addresses handed out by the (gated) resolver for the remote
                                                 name, in order.  tcp refused = bound, not listening port; udp refused =
                                                 an address to which connect() fails at once (255.255.255.255: EACCES /
                                                 ENETUNREACH; probed, falls back to an unsupported family = socket() failure)
   local      None | list of "v4" | "v6" | "v4bad" | "v6bad"
                                                 local_address=(name, 0); the name resolves to these (127.0.0.1, ::1, a
                                                 non-local address of that family: bind fails)
   hed        None | number                      tcp: happy_eyeballs_delay (None = library default, 0 = all attempts at once)
   then       "none" | "send" | "recv" | "ctx"   the connect is started by wait_connected() / send_packet() /
                                                 recv_packet() / `async with client`
   how        "aclose" | "exit" | "cancel" | "none"
                                                 interruption: another task runs client.aclose() / client.__aexit__(),
                                                 the starting task is cancelled, or nothing (plain connect)
   at         k                                  loop turn (counted from the start of the connect) of the interruption
   g1, g2     loop turns at which the resolver answers for the remote / the local name (-1 = before the connect starts);
              old form: release j = g1 is j turns after the interruption (-1: before the start)
Lines: `cfg v6 <0|1>`, `early <0|1>` (the connect had ended / the client was connected when the interruption was issued),
       `pendingscope n` (how=cancel: a cancel request of a cancel scope was outstanding on the task), `wc <outcome of the
       starting call>`, `mid connected <0|1>`, `mid fds +n`, `mid srv-live n` (how=none, before the close), `close <…>`,
       `closing <0|1>`, `connected <0|1>`, `srv-open <n>` (tcp: server side connections still open),
       `fds +n` (descriptors of this process opened since the start and still open at quiescence).
Everything runs on the real event loop and real loopback sockets; the schedule is fixed by loop turns and explicit gates.
Criteria are behaviour-only; a deadline (10 s for steps that take microseconds) which is missed once and not again when
the case is re-run is an InfraError, never a violation.
"""
from __future__ import annotations

import asyncio
import contextlib
import gc
import socket
import time
from typing import Any

from vlib import c19_env as env
from vlib import core

REMOTE = "remote.verif.invalid"
LOCAL = "local.verif.invalid"
DEADLINE = 10.0
_hangs = {"confirmed": 0}
COUNT = {"lost_cancel_known_window": 0}
_probe: dict[str, Any] = {}


def _udp_fail_target(fam: int) -> str | None:
    """an address of family `fam` to which connect() of a datagram socket fails at once on this machine (probed once)"""
    key = f"udpfail{fam}"
    if key not in _probe:
        _probe[key] = None
        cands = ["255.255.255.255"] if fam == 4 else ["::ffff:255.255.255.255", "fe80::1", "ff02::1"]
        for ip in cands:
            try:
                with socket.socket(socket.AF_INET if fam == 4 else socket.AF_INET6, socket.SOCK_DGRAM) as s:
                    s.bind(("127.0.0.1" if fam == 4 else "::1", 0))
                    s.connect((ip, 9))
            except OSError:
                _probe[key] = ip
                break
    return _probe[key]


def _norm(case: dict, v6: bool) -> tuple[list[str], list[str] | None]:
    """addresses actually used: without a usable IPv6 loopback the IPv6 remote addresses become IPv4 ones"""
    addrs = [a if v6 else a.rstrip("6") for a in case["addrs"]]
    loc = case.get("local")
    return addrs, (None if loc is None else list(loc))


def _gates(case: dict) -> tuple[int, int, int]:
    at = int(case.get("at", 1))
    if "g1" in case:
        g1 = int(case["g1"])
    else:
        rel = int(case.get("release", 0))
        g1 = -1 if rel < 0 else at + rel
    g2 = int(case.get("g2", g1))
    return at, g1, g2


def _classify(e: BaseException) -> str:
    from easynetwork.exceptions import ClientClosedError

    def leaves(x):
        if isinstance(x, BaseExceptionGroup):
            for y in x.exceptions:
                yield from leaves(y)
        else:
            yield x

    if isinstance(e, ClientClosedError):
        return "closed"
    if isinstance(e, asyncio.CancelledError):
        return "cancelled"
    if isinstance(e, BaseExceptionGroup):
        ls = list(leaves(e))
        if ls and all(isinstance(x, OSError) for x in ls):
            return "connfail"
        return "exc:" + type(e).__name__ + "[" + ",".join(sorted({type(x).__name__ for x in ls})) + "]"
    if isinstance(e, OSError):
        return "connfail"
    return "exc:" + type(e).__name__


def _run_once(case: dict, deadline: float) -> list[str]:
    from easynetwork.clients.async_tcp import AsyncTCPNetworkClient
    from easynetwork.clients.async_udp import AsyncUDPNetworkClient
    from easynetwork.lowlevel.api_async.backend._asyncio.backend import AsyncIOBackend
    from easynetwork.protocol import DatagramProtocol, StreamProtocol
    from easynetwork.serializers import StringLineSerializer

    lines: list[str] = []
    udp = case.get("proto", "tcp") == "udp"
    how = case["how"]
    then = case.get("then", "none")
    v6 = env.ipv6_loopback_ok()
    addrs, local = _norm(case, v6)
    at, g1, g2 = _gates(case)
    styp = socket.SOCK_DGRAM if udp else socket.SOCK_STREAM
    sproto = socket.IPPROTO_UDP if udp else socket.IPPROTO_TCP

    async def main() -> None:
        loop = asyncio.get_running_loop()
        before = env.open_fds()
        lines.append(f"cfg v6 {int(v6)}")
        need6 = any(a.endswith("6") for a in addrs)
        srv: dict[int, socket.socket] = {}
        dead: dict[int, socket.socket] = {}
        for fam in (4, 6) if need6 else (4,):
            af = socket.AF_INET if fam == 4 else socket.AF_INET6
            host = "127.0.0.1" if fam == 4 else "::1"
            s = socket.socket(af, styp)
            s.bind((host, 0))
            if not udp:
                s.listen(16)
                d = socket.socket(af, styp)
                d.bind((host, 0))            # bound, not listening: connections are refused
                dead[fam] = d
            s.setblocking(False)
            srv[fam] = s
        port = srv[4].getsockname()[1]
        accepted: list[socket.socket] = []
        poked: set[int] = set()

        async def acceptor(s: socket.socket) -> None:
            while True:
                c, _ = await loop.sock_accept(s)
                c.setblocking(False)
                accepted.append(c)

        accs = [] if udp else [loop.create_task(acceptor(s)) for s in srv.values()]
        gate1, gate2 = asyncio.Event(), asyncio.Event()

        def remote_info() -> list:
            res = []
            for a in addrs:
                fam = 6 if a.endswith("6") else 4
                af = socket.AF_INET if fam == 4 else socket.AF_INET6
                host = "127.0.0.1" if fam == 4 else "::1"
                if a.startswith("ok"):
                    sa: tuple = (host, srv[fam].getsockname()[1])
                elif not udp:
                    sa = (host, dead[fam].getsockname()[1])
                else:
                    tgt = _udp_fail_target(fam)
                    if tgt is None:
                        af = 9999                    # unsupported family: socket() fails
                        sa = (host, 9)
                    else:
                        sa = (tgt, 9)
                if fam == 6:
                    sa = sa + (0, 0)
                res.append((af, styp, sproto, "", sa))
            return res

        def local_info() -> list:
            res = []
            for l in local or []:
                if l.startswith("v4"):
                    res.append((socket.AF_INET, styp, sproto, "", ("203.0.113.7" if l.endswith("bad") else "127.0.0.1", 0)))
                else:
                    res.append((socket.AF_INET6, styp, sproto, "", ("2001:db8::1" if l.endswith("bad") else "::1", 0, 0, 0)))
            return res

        class GatedBackend(AsyncIOBackend):
            async def getaddrinfo(self, host, port_, *a, **kw):     # type: ignore[override]
                if host == LOCAL:
                    await gate2.wait()
                    return local_info()
                await gate1.wait()
                return remote_info()

        backend = GatedBackend()
        kw: dict[str, Any] = {}
        if local is not None:
            kw["local_address"] = (LOCAL, 0)
        if udp:
            client: Any = AsyncUDPNetworkClient((REMOTE, port), DatagramProtocol(StringLineSerializer()), backend, **kw)
        else:
            if case.get("hed") is not None:
                kw["happy_eyeballs_delay"] = float(case["hed"])
            client = AsyncTCPNetworkClient((REMOTE, port), StreamProtocol(StringLineSerializer()), backend, **kw)

        async def connect() -> str:
            try:
                if then == "send":
                    await client.send_packet("x")
                elif then == "recv":
                    await client.recv_packet()
                elif then == "ctx":
                    async with client:
                        lines.append(f"entered connected {int(client.is_connected())}")
                else:
                    await client.wait_connected()
                return "ok"
            except BaseException as e:  # noqa: BLE001
                return _classify(e)

        async def do_close() -> None:
            # judged at the very moment the close starts to execute (its first statements run without suspending):
            # had the connect already ended?
            lines.append(f"early {int(t.done() or client.is_connected())}")
            if how == "exit":
                await client.__aexit__(None, None, None)
            else:
                await client.aclose()

        def poke() -> None:
            """a pending recv_packet() on a socket which is (still) open gets something to return"""
            if udp:
                try:
                    sk = client.socket
                    me, peer = sk.getsockname(), sk.getpeername()
                except (AttributeError, OSError):
                    return
                for s in srv.values():
                    if s.getsockname()[:2] == peer[:2]:
                        with contextlib.suppress(OSError):
                            s.sendto(b"wake\n", me)
            else:
                for c in accepted:
                    if id(c) not in poked:
                        poked.add(id(c))
                        with contextlib.suppress(OSError):
                            c.send(b"wake\n")

        async def settle(task: asyncio.Task, limit: float, poking: bool) -> bool:
            end = time.monotonic() + limit
            while not task.done():
                if poking:
                    poke()
                await asyncio.wait({task}, timeout=0.02)
                if time.monotonic() > end:
                    return task.done()
            return True

        def srv_live() -> int:
            n = 0
            for c in accepted:
                try:
                    while c.recv(65536):        # drain what the client sent; b"" = EOF = the client closed its socket
                        pass
                except BlockingIOError:
                    n += 1
                except OSError:
                    pass
            return n

        base = env.open_fds()
        t = loop.create_task(connect())
        closer: asyncio.Task | None = None
        if g1 < 0:
            gate1.set()
        if g2 < 0:
            gate2.set()
        for turn in range(max(at if how != "none" else 0, g1, g2, 0) + 1):
            if turn == at and how != "none":
                if how in ("aclose", "exit"):
                    closer = loop.create_task(do_close())
                else:
                    lines.append(f"early {int(t.done() or client.is_connected())}")
                    pend = t.cancelling()
                    if pend:
                        lines.append(f"pendingscope {pend}")
                    t.cancel()
            if turn == g1:
                gate1.set()
            if turn == g2:
                gate2.set()
            await asyncio.sleep(0)
        gate1.set()
        gate2.set()
        if not await settle(t, deadline, then == "recv"):
            wc = "hang"
        else:
            wc = "cancelled" if t.cancelled() else t.result()      # (cancelled before its first step: it never ran)
        lines.append("wc " + wc)
        if how == "none" and wc == "ok" and then != "ctx":
            # the moment the connect has returned: exactly one socket of this process is open for it
            lines.append(f"mid connected {int(client.is_connected() and not client.is_closing())}")
            mid = env.open_fds() - base - {c.fileno() for c in accepted}
            lines.append(f"mid fds +{len(mid)}")
            if not udp:
                end = time.monotonic() + deadline
                while srv_live() != 1 and time.monotonic() < end:       # stable condition, polled
                    await asyncio.sleep(0.005)
                lines.append(f"mid srv-live {srv_live()}")
        if closer is None:
            # plain connect / cancelled connect: the client object is still usable; close it now
            closer = loop.create_task(client.aclose())
        if not await settle(closer, deadline, False):
            lines.append("close hang")
        elif closer.cancelled():
            lines.append("close exc:CancelledError")
        elif closer.exception() is not None:
            lines.append("close exc:" + type(closer.exception()).__name__)
        else:
            lines.append("close ok")
        if not t.done():
            t.cancel()
            await settle(t, 2.0, False)
        for _ in range(50):
            await asyncio.sleep(0)
        lines.append(f"closing {int(client.is_closing())}")
        lines.append(f"connected {int(client.is_connected())}")
        if not udp:
            # server side: every accepted connection must see EOF (the client closed its socket)
            lines.append(f"srv-open {srv_live()}")
        for a in accs:
            a.cancel()
        for a in accs:
            with contextlib.suppress(BaseException):
                await a
        for c in accepted:
            c.close()
        for s in list(srv.values()) + list(dead.values()):
            s.close()
        await asyncio.sleep(0)
        after = env.open_fds()
        lines.append(f"fds +{len(after - before)}")
        if after - before:
            # do not let a leak of this case pollute the following ones
            with contextlib.suppress(BaseException):
                await asyncio.wait_for(client.aclose(), 2.0)
            for _ in range(5):
                await asyncio.sleep(0)
            gc.collect()

    asyncio.run(main())
    return lines


def _hung(lines: list[str]) -> bool:
    """an outcome that depends on a wall-clock deadline (the polled server-side count included)"""
    return ("wc hang" in lines or "close hang" in lines
            or any(ln.startswith("mid srv-live ") and ln != "mid srv-live 1" for ln in lines))


def run_client_case(case: dict) -> list[str]:
    if _hangs["confirmed"] >= 3:
        return _run_once(case, 2.0)          # the hang is established (replay exists): do not spend minutes on more of them
    lines = _run_once(case, DEADLINE)
    if _hung(lines):
        again = _run_once(case, 2 * DEADLINE)
        if not _hung(again):
            raise core.InfraError(f"C19 client case missed a {DEADLINE:.0f} s deadline once and not when re-run "
                                  f"(machine overloaded?): {case!r}")
        _hangs["confirmed"] += 1
        return again
    return lines


# ----------------------------------------------------------------------------------------------

def _possible(case: dict, v6: bool) -> bool:
    """some remote address accepts connections and attempts of its family can bind (or no local address was asked for)"""
    addrs, local = _norm(case, v6)
    for a in addrs:
        if not a.startswith("ok"):
            continue
        fam = "v6" if a.endswith("6") else "v4"
        if local is None or any(l == fam and (fam == "v4" or v6) for l in local):
            return True
    return False


def oracle(case: dict, real: list[str]) -> str | None:
    d: dict[str, str] = {}
    for ln in real:
        if " " in ln:
            k, v = ln.rsplit(" ", 1) if ln.startswith(("mid ", "cfg ")) else ln.split(" ", 1)
            d[k] = v
    how = case["how"]
    proto = case.get("proto", "tcp")
    if d.get("wc") == "hang" or "close hang" in real:
        return "client-hang: the connect / the close did not finish"
    if any(ln.startswith("close exc:") for ln in real):
        return f"client-close-failed: aclose() failed: {[ln for ln in real if ln.startswith('close exc:')][0]}"
    if d.get("wc", "").startswith("exc:"):
        return f"client-unexpected-exception: the pending call raised {d['wc'][4:]}"
    early = d.get("early") == "1"
    leak = "" if d.get("fds") == "+0" else f" (descriptors still open at the end: fds {d.get('fds')})"
    if how in ("aclose", "exit") and not early:
        # the close was issued while the connect was in progress: the connect is cancelled, nothing stays open, the failure
        # is reported to whoever was connecting (ClientClosedError), never a connected client on a closed object
        if d.get("wc") == "ok":
            return (f"client-connect-succeeded-after-close: the pending call completed successfully although the {proto} "
                    "client had been closed while the connect was in progress: the failure is not reported" + leak)
        if d.get("connected") == "1":
            return (f"client-connected-after-close: the {proto} client is connected although aclose() returned while the "
                    "connect was in progress" + leak)
    deferred: str | None = None
    if how == "cancel" and not early and d.get("wc") == "ok":
        if "pendingscope" not in d or proto != "tcp":
            return (f"client-lost-cancel: the task connecting the {proto} client was cancelled while the connect was in "
                    "progress (no cancel request of a cancel scope of the race outstanding), yet the call returned normally")
        # with a cancel request of a scope of the race outstanding on the task at the moment of the task.cancel() this is the
        # listed finding (KNOWN_FINDINGS: lost-cancel,scope-cancel-request-outstanding — the same create_stream_connection()
        # and the same window, reached through AsyncTCPNetworkClient).  Reported under the same signature as the race layer
        # does (`lost-cancel:` -> props/c19.known_key), and only after every other clause: an unlisted failure of the same
        # run is reported first.
        COUNT["lost_cancel_known_window"] += 1
        deferred = ("lost-cancel: (client layer) the task connecting the tcp client was cancelled while a cancel request of a "
                    "cancel scope of the connection race was outstanding on it, yet the connect went on and the call returned "
                    "normally (statement: cancelled at any point => every socket closed and the failure reported)")
    if d.get("closing") != "1":
        return "client-not-closing: client.is_closing() is false after aclose() returned" + leak
    if how == "none":
        v6 = d.get("cfg v6") == "1"
        if _possible(case, v6):
            if d.get("wc") != "ok":
                return (f"client-possible-connection-failed: the {proto} connect failed ({d.get('wc')}) although an address "
                        "accepts connections and a local address of its family can be bound (or none was asked for)")
            if case.get("then") != "ctx":
                if d.get("mid connected") != "1":
                    return "client-not-connected: the connect returned normally but the client is not connected"
                if d.get("mid fds") != "+1":
                    return (f"client-sockets-after-connect: the connect returned; descriptors opened by it and still open: "
                            f"{d.get('mid fds')} (exactly one expected)")
                if proto == "tcp" and d.get("mid srv-live") != "1":
                    return (f"client-sockets-after-connect: the connect returned; {d.get('mid srv-live')} connection(s) open on "
                            "the server side (exactly one expected: every other socket of the race is closed)")
        elif d.get("wc") == "ok":
            return "client-impossible-connection: the connect succeeded although no address could be connected"
    if d.get("srv-open") not in (None, "0"):
        return (f"client-server-side-open: {d.get('srv-open')} connection(s) still open on the server side after the client "
                "was closed / the connect cancelled")
    if d.get("fds") != "+0":
        return f"client-leak: descriptors leaked: fds {d.get('fds')}"
    return deferred


# ----------------------------------------------------------------------------------------------

def gen_case(rng) -> dict[str, Any]:
    proto = rng.choice(["tcp", "udp"])
    n = rng.choice([1, 2, 2, 3])
    pool = ["ok", "refused", "ok", "refused", "ok6", "refused6"]
    addrs = [rng.choice(pool) for _ in range(n)]
    if rng.random() < 0.7 and not any(a.startswith("ok") for a in addrs):
        addrs[rng.randrange(n)] = "ok"
    local = None
    r = rng.random()
    if r < 0.2:
        local = ["v6", "v4"] if rng.random() < 0.5 else ["v4", "v6"]
    elif r < 0.4:
        local = [rng.choice(["v4", "v6", "v4bad", "v6bad"]) for _ in range(rng.randint(1, 3))]
    how = rng.choice(["aclose", "aclose", "exit", "cancel", "none"])
    then = rng.choice(["none", "none", "send", "recv", "ctx"])
    case: dict[str, Any] = {"api": "client", "proto": proto, "addrs": addrs, "local": local, "how": how, "then": then}
    if proto == "tcp":
        case["hed"] = rng.choice([None, None, 0])
    if how == "none":
        # plain connect: a non-first address is the one that works, most of the time
        if n >= 2 and rng.random() < 0.6:
            addrs[0] = rng.choice(["refused", "refused6"]) if local is None else "refused"
            addrs[-1] = "ok"
        case.update(at=0, g1=rng.choice([-1, 0, 1]), g2=rng.choice([-1, 0, 2]))
        return case
    # positions of the two resolver answers and of the interruption (loop turns after the start of the connect)
    g1 = rng.choice([-1, -1, 0, 1, 2, 3, 5])
    g2 = g1 if local is None else max(g1, 0) + rng.choice([0, 0, 1, 2, 4])
    top = max(g1, g2, 0) + (14 if proto == "tcp" else 6)
    at = rng.randint(0, top)
    case.update(at=at, g1=g1, g2=g2)
    return case


def corpus() -> list[dict]:
    out = []
    for how in ("aclose", "cancel"):
        for at in (1, 2, 3):
            for rel in (0, 2):
                out.append({"api": "client", "addrs": ["refused", "ok"], "how": how, "at": at, "release": rel, "then": "none"})
    out.append({"api": "client", "addrs": ["ok"], "how": "aclose", "at": 2, "release": 1, "then": "send"})
    # datagram twin: close / leave the context / cancel while the resolver has not answered yet, every way of starting
    for then in ("none", "send", "recv", "ctx"):
        for how in ("aclose", "exit", "cancel"):
            out.append({"api": "client", "proto": "udp", "addrs": ["refused", "ok"], "local": None, "how": how, "then": then,
                        "at": 2, "g1": 4, "g2": 4})
    # interruption between the two name resolutions (remote answered, local pending) and right after both
    for proto in ("tcp", "udp"):
        for at in (1, 3, 4, 5):
            out.append({"api": "client", "proto": proto, "addrs": ["refused", "ok"], "local": ["v6", "v4"], "how": "aclose",
                        "then": "recv", "at": at, "g1": 0, "g2": 3})
    # plain connect, local address by name with a family the remote host does not have, second address is the good one
    for proto in ("tcp", "udp"):
        for local in (["v6", "v4"], ["v4bad", "v6", "v4"]):
            out.append({"api": "client", "proto": proto, "addrs": ["refused", "ok"], "local": local, "how": "none",
                        "then": "none", "at": 0, "g1": 0, "g2": 1})
    out.append({"api": "client", "proto": "tcp", "addrs": ["ok", "ok6", "ok"], "local": None, "hed": 0, "how": "none",
                "then": "send", "at": 0, "g1": -1, "g2": -1})
    return out
