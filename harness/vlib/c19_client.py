"""
C19, client layer: AsyncTCPNetworkClient (clients/async_tcp.py) connects lazily through backend.create_tcp_connection()
(= the resolver's race).  "The connect is cancelled at any point" also happens through the client: another task calls
client.aclose() (or cancels wait_connected()) while the connect is suspended in name resolution / in the race.
Case (api "client"):
   addrs      list of "ok" | "refused"      loopback addresses handed out by the (gated) resolver, in order
   how        "aclose" | "cancel"           how the connect is interrupted
   at         k                             loop turns after wait_connected() started
   release    j                             loop turns after the interruption at which the resolver gate opens (-1: before it)
   then       "send" | "none"               the pending connect was started by wait_connected() or by send_packet()
Lines: `wc <outcome>`, `closing <0|1>`, `connected <0|1>`, `srv-open <n>` (server side connections still open),
       `fds +n` (descriptors of this process opened since the start and still open at quiescence).
Everything runs on the real event loop and real loopback sockets; the schedule is fixed by loop turns and an explicit gate.
"""
from __future__ import annotations

import asyncio
import contextlib
import socket
from typing import Any

from vlib import c19_env as env


def run_client_case(case: dict) -> list[str]:
    from easynetwork.clients.async_tcp import AsyncTCPNetworkClient
    from easynetwork.exceptions import ClientClosedError
    from easynetwork.lowlevel.api_async.backend._asyncio.backend import AsyncIOBackend
    from easynetwork.protocol import StreamProtocol
    from easynetwork.serializers import StringLineSerializer

    lines: list[str] = []

    async def main() -> None:
        loop = asyncio.get_running_loop()
        before = env.open_fds()
        srv = socket.socket()
        srv.bind(("127.0.0.1", 0))
        srv.listen(8)
        srv.setblocking(False)
        port = srv.getsockname()[1]
        dead = socket.socket()
        dead.bind(("127.0.0.1", 0))          # bound, not listening: connections are refused
        dead_port = dead.getsockname()[1]
        accepted: list[socket.socket] = []

        async def acceptor() -> None:
            while True:
                c, _ = await loop.sock_accept(srv)
                accepted.append(c)

        acc = loop.create_task(acceptor())
        gate = asyncio.Event()

        class GatedBackend(AsyncIOBackend):
            async def getaddrinfo(self, host, port_, *a, **kw):     # type: ignore[override]
                await gate.wait()
                res = []
                for out in case["addrs"]:
                    p = port if out == "ok" else dead_port
                    res.append((socket.AF_INET, socket.SOCK_STREAM, 6, "", ("127.0.0.1", p)))
                return res

        backend = GatedBackend()
        client = AsyncTCPNetworkClient(("verif.invalid", port), StreamProtocol(StringLineSerializer()), backend=backend)

        async def connect() -> str:
            try:
                if case.get("then") == "send":
                    await client.send_packet("x")
                else:
                    await client.wait_connected()
                return "ok"
            except ClientClosedError:
                return "closed"
            except asyncio.CancelledError:
                return "cancelled"
            except ConnectionError as e:
                return "connerr"
            except OSError as e:
                return "oserr"
            except BaseException as e:  # noqa: BLE001
                return "exc:" + type(e).__name__

        t = loop.create_task(connect())
        if case.get("release", 0) < 0:
            gate.set()
        for _ in range(int(case.get("at", 1))):
            await asyncio.sleep(0)
        closer = None
        if case["how"] == "aclose":
            closer = loop.create_task(client.aclose())
        else:
            t.cancel()
        for _ in range(max(0, int(case.get("release", 0)))):
            await asyncio.sleep(0)
        gate.set()
        try:
            out = await asyncio.wait_for(asyncio.shield(t), 10.0)
        except asyncio.TimeoutError:
            out = "hang"
        except asyncio.CancelledError:
            out = "cancelled"
        lines.append("wc " + out)
        if closer is not None:
            try:
                await asyncio.wait_for(closer, 10.0)
                lines.append("close ok")
            except asyncio.TimeoutError:
                lines.append("close hang")
            except BaseException as e:  # noqa: BLE001
                lines.append("close exc:" + type(e).__name__)
        else:
            # a cancelled connect: the client object is still usable; close it now
            with contextlib.suppress(BaseException):
                await asyncio.wait_for(client.aclose(), 10.0)
        for _ in range(50):
            await asyncio.sleep(0)
        lines.append(f"closing {int(client.is_closing())}")
        lines.append(f"connected {int(client.is_connected())}")
        # server side: every accepted connection must see EOF (the client closed its socket)
        still = 0
        for c in accepted:
            c.setblocking(False)
            try:
                while c.recv(65536):        # drain what the client sent; b"" = EOF = the client closed its socket
                    pass
            except BlockingIOError:
                still += 1
            except OSError:
                pass
        lines.append(f"srv-open {still}")
        acc.cancel()
        with contextlib.suppress(BaseException):
            await acc
        for c in accepted:
            c.close()
        srv.close()
        dead.close()
        await asyncio.sleep(0)
        after = env.open_fds()
        lines.append(f"fds +{len(after - before)}")

    asyncio.run(main())
    return lines


def oracle(case: dict, real: list[str]) -> str | None:
    d = dict(ln.split(" ", 1) for ln in real if " " in ln)
    if d.get("wc") == "hang" or "close hang" in real:
        return "the connect / the close did not finish"
    if any(ln.startswith("close exc:") for ln in real):
        return f"aclose() failed: {[ln for ln in real if ln.startswith('close exc:')][0]}"
    if case["how"] == "aclose":
        # the close was issued while the connect was in progress: the connect is cancelled, nothing stays open, the failure
        # is reported to whoever was connecting (ClientClosedError), never a connected client on a closed object
        if d.get("closing") != "1":
            return "client.is_closing() is false after aclose() returned"
        if d.get("connected") == "1":
            return "the client is connected although aclose() returned while the connect was in progress"
        if d.get("wc") == "ok":
            return "the pending connect completed successfully although the client had been closed meanwhile"
    if d.get("srv-open") not in (None, "0"):
        return f"{d.get('srv-open')} connection(s) still open on the server side after the client was closed / the connect cancelled"
    if d.get("fds") != "+0":
        return f"descriptors leaked: fds {d.get('fds')}"
    return None


def gen_case(rng) -> dict[str, Any]:
    n = rng.randint(1, 3)
    addrs = [rng.choice(["ok", "refused"]) for _ in range(n)]
    if rng.random() < 0.7 and "ok" not in addrs:
        addrs[rng.randrange(n)] = "ok"
    return {"api": "client", "addrs": addrs, "how": rng.choice(["aclose", "aclose", "cancel"]), "at": rng.randint(0, 6),
            "release": rng.choice([-1, 0, 0, 1, 2, 3]), "then": rng.choice(["none", "none", "send"])}


def corpus() -> list[dict]:
    out = []
    for how in ("aclose", "cancel"):
        for at in (1, 2, 3):
            for rel in (0, 2):
                out.append({"api": "client", "addrs": ["refused", "ok"], "how": how, "at": at, "release": rel, "then": "none"})
    out.append({"api": "client", "addrs": ["ok"], "how": "aclose", "at": 2, "release": 1, "then": "send"})
    return out
