"""
C14 environment (on top of vlib/c15_env.py):

  CountingTask / Injector   pure-Python asyncio.Task whose steps are counted; `task.cancel()` is requested right after
                            step k of the *target* task (= cancellation delivered at its k-th suspension point); records,
                            for every suspension, the chain of coroutine names the task is parked in
  PipeEnd                   in-memory duplex AsyncStreamTransport (two connected ends) with close bookkeeping and
                            scripted failures of its own aclose / send_all / recv_into
  TLSPeer                   the remote side of a TLS connection: a real ssl.SSLObject over MemoryBIOs driven by a task,
                            behaviour after the handshake given by a script
  CERT / KEY                self-signed certificate generated offline with the openssl CLI (committed)
"""
from __future__ import annotations

import asyncio
import asyncio.tasks as _tasks
import ssl
from pathlib import Path
from typing import Any

from vlib import core  # noqa: F401
from vlib import c15_env as env

from easynetwork.lowlevel.api_async.transports import abc as tr_abc

CERT = str(Path(__file__).with_name("c14_certs") / "cert.pem")
KEY = str(Path(__file__).with_name("c14_certs") / "key.pem")


class Injector:
    """step counting and cancellation injection for one target task"""

    def __init__(self, step: int | None) -> None:
        self.step = step              # cancel after this many steps of the target (counted from arming)
        self.target: asyncio.Task | None = None
        self.n = 0
        self.chains: list[tuple[str, ...]] = []
        self.times: list[float] = []      # virtual time at the end of each step
        self.err_steps: list[int] = []    # suspensions that ended with a scripted transport error
        self.injected_at: tuple[str, ...] | None = None
        self.scope = None             # when set: the cancellation is requested through this cancel scope, not task.cancel()

    def arm(self, task: asyncio.Task) -> None:
        self.target = task
        self.n = 0

    def after_step(self, task: asyncio.Task) -> None:
        if task is not self.target:
            return
        self.n += 1
        self.times.append(task.get_loop().time())
        if task.done():
            return
        chain = coro_chain(task.get_coro())
        self.chains.append(chain)
        if self.step is not None and self.n == self.step:
            self.injected_at = chain
            if self.scope is not None:
                self.scope.cancel()
            else:
                task.cancel()


def coro_chain(coro) -> tuple[str, ...]:
    out = []
    seen = 0
    while coro is not None and seen < 60:
        seen += 1
        code = getattr(coro, "cr_code", None) or getattr(coro, "gi_code", None) or getattr(coro, "ag_code", None)
        if code is not None:
            out.append(code.co_qualname)
        nxt = getattr(coro, "cr_await", None)
        if nxt is None:
            nxt = getattr(coro, "gi_yieldfrom", None)
        if nxt is None:
            nxt = getattr(coro, "ag_await", None)
        coro = nxt
    return tuple(out)


class CountingTask(_tasks._PyTask):  # type: ignore[name-defined,misc]
    _injector: Injector | None = None

    def _Task__step(self, exc=None):  # noqa: N802  (name-mangled private method of asyncio.tasks.Task)
        super()._Task__step(exc)
        inj = CountingTask._injector
        if inj is not None:
            inj.after_step(self)


def run_with_injector(coro_fn, inj: Injector, *, max_turns: int = 50000):
    """like c15_env.run, with every task a CountingTask reporting to `inj`"""
    CountingTask._injector = inj

    def wrapped():
        loop = asyncio.get_running_loop()
        loop.set_task_factory(lambda lp, coro, **kw: CountingTask(coro, loop=lp, **kw))
        return coro_fn()

    async def main():
        loop = asyncio.get_running_loop()
        loop.set_task_factory(lambda lp, coro, **kw: CountingTask(coro, loop=lp, **kw))
        return await coro_fn()

    try:
        return env.run(main, max_turns=max_turns)
    finally:
        CountingTask._injector = None


# ------------------------------------------------------------------------------------------------------------
# duplex in-memory pipe
# ------------------------------------------------------------------------------------------------------------

class PipeEnd(tr_abc.AsyncStreamTransport):
    """one end of an in-memory duplex byte pipe.
    close_steps: suspensions of a graceful aclose() (after marking closing); close_error: raised by the first aclose();
    send_error_at / recv_error_at: the n-th (1-based) send_all / recv_into raises OSError (0 = never)."""

    def __init__(self, name: str, *, close_steps: int = 0, close_error: BaseException | None = None,
                 send_error_at: int = 0, recv_error_at: int = 0, be=None) -> None:
        super().__init__()
        self.name = name
        self._be = be or env.backend()
        self.peer: PipeEnd | None = None
        self.inbox = bytearray()
        self.eof = False                 # peer closed / sent EOF
        self._waiter: asyncio.Future | None = None
        self.closing = False
        self.closed = False
        self.aclose_calls = 0
        self.close_steps = close_steps
        self.close_error = close_error
        self.send_error_at = send_error_at
        self.recv_error_at = recv_error_at
        self.nsend = 0
        self.nrecv = 0
        self.sent_total = 0
        self.sync_send = False           # True: send_all() completes WITHOUT suspending (a socket whose buffer has room)
        self._extra: dict = {}           # typed attributes (filled by c15_tcp.MemBackend when it adopts this end)

    def backend(self):
        return self._be

    def is_closing(self) -> bool:
        return self.closing

    @property
    def extra_attributes(self):
        return self._extra

    def _wake(self) -> None:
        w = self._waiter
        if w is not None and not w.done():
            w.set_result(None)

    def _release(self) -> None:
        if not self.closed:
            self.closed = True
            if self.peer is not None:
                self.peer.eof = True
                self.peer._wake()
            self._wake()

    async def _scripted_error(self, exc: BaseException) -> None:
        # one suspension, then the error: the failing call is visible as a task step of its own
        await asyncio.sleep(0)
        inj = CountingTask._injector
        if inj is not None and asyncio.current_task() is inj.target:
            inj.err_steps.append(inj.n)
        raise exc

    async def aclose(self) -> None:
        self.aclose_calls += 1
        first = not self.closing
        self.closing = True          # contract: marked before the first suspension
        try:
            if first:
                for _ in range(self.close_steps):
                    await asyncio.sleep(0)
        finally:
            self._release()
        if first and self.close_error is not None:
            raise self.close_error

    async def send_all(self, data) -> None:
        if self.closing:
            raise OSError(9, "pipe end closed")
        self.nsend += 1
        if self.send_error_at and self.nsend == self.send_error_at:
            await self._scripted_error(OSError(32, "scripted send error"))
        data = bytes(data)
        if self.peer is not None and not self.peer.closed:
            self.peer.inbox += data
            self.peer._wake()
        self.sent_total += len(data)
        if not self.sync_send:
            await asyncio.sleep(0)

    async def send_eof(self) -> None:
        if self.peer is not None:
            self.peer.eof = True
            self.peer._wake()
        await asyncio.sleep(0)

    async def recv_into(self, buffer) -> int:
        if self.closing:
            raise OSError(9, "pipe end closed")
        self.nrecv += 1
        if self.recv_error_at and self.nrecv == self.recv_error_at:
            await self._scripted_error(OSError(104, "scripted recv error"))
        while not self.inbox and not self.eof:
            if self.closing:
                raise OSError(9, "pipe end closed")
            self._waiter = asyncio.get_running_loop().create_future()
            try:
                await self._waiter
            finally:
                self._waiter = None
        if not self.inbox:
            await asyncio.sleep(0)
            return 0
        with memoryview(buffer) as mv:
            mv = mv.cast("B") if mv.itemsize != 1 else mv
            n = min(len(self.inbox), mv.nbytes)
            mv[:n] = self.inbox[:n]
            del self.inbox[:n]
        await asyncio.sleep(0)
        return n

    async def recv(self, bufsize: int) -> bytes:
        buf = bytearray(bufsize)
        n = await self.recv_into(buf)
        return bytes(buf[:n])


def pipe_pair(**kw_a) -> tuple[PipeEnd, PipeEnd]:
    a = PipeEnd("A", **kw_a)
    b = PipeEnd("B")
    a.peer, b.peer = b, a
    return a, b


# ------------------------------------------------------------------------------------------------------------
# TLS peer
# ------------------------------------------------------------------------------------------------------------

def server_context() -> ssl.SSLContext:
    ctx = ssl.SSLContext(ssl.PROTOCOL_TLS_SERVER)
    ctx.load_cert_chain(CERT, KEY)
    try:
        ctx.num_tickets = 0
    except Exception:  # pragma: no cover
        pass
    return ctx


def client_context() -> ssl.SSLContext:
    ctx = ssl.create_default_context(cafile=CERT)
    ctx.check_hostname = True
    try:
        ctx.options &= ~ssl.OP_IGNORE_UNEXPECTED_EOF
    except AttributeError:  # pragma: no cover
        pass
    return ctx


class TLSPeer:
    """server side of the TLS connection over PipeEnd `end`.
    handshake: "ok" | "garbage" (answers the ClientHello with junk) | "eof" (closes at once) | "silent" (never answers)
               | "slow" (a complete handshake that only starts after `hs_delay` units of virtual time)
    after:     "reply"   answer the peer's close_notify with ours, then close the pipe end
               "silent"  never read again (the other side's unwrap() waits until its shutdown timeout)
               "first"   send close_notify first, then behave like "reply"
               "firstgone"  send close_notify first and close the pipe end at once (does not wait for the answer)
               "drop"    close the pipe end without any close_notify as soon as something arrives
    """

    def __init__(self, end: PipeEnd, handshake: str = "ok", after: str = "reply", hs_delay: float = 0.0) -> None:
        self.end = end
        self.handshake = handshake
        self.after = after
        self.hs_delay = hs_delay
        self.inc = ssl.MemoryBIO()
        self.out = ssl.MemoryBIO()
        self.obj = server_context().wrap_bio(self.inc, self.out, server_side=True)
        self.log: list[str] = []
        self.go_after = asyncio.Event()

    async def _flush(self) -> None:
        if self.out.pending and not self.end.closing:
            await self.end.send_all(self.out.read())

    async def _pump(self, method, *args):
        buf = bytearray(65536)
        while True:
            try:
                r = method(*args)
            except ssl.SSLWantReadError:
                await self._flush()
                n = await self.end.recv_into(buf)
                if n == 0:
                    self.inc.write_eof()
                else:
                    self.inc.write(bytes(buf[:n]))
            except ssl.SSLWantWriteError:
                await self._flush()
            else:
                await self._flush()
                return r

    async def run(self) -> None:
        try:
            if self.handshake == "silent":
                await asyncio.get_running_loop().create_future()
            if self.handshake == "eof":
                await self.end.aclose()
                return
            if self.handshake == "garbage":
                buf = bytearray(65536)
                await self.end.recv_into(buf)
                await self.end.send_all(b"\x15\x03\x01\x00\x02\x02\x28" + b"junk" * 8)
                await asyncio.get_running_loop().create_future()
            if self.handshake == "slow":
                await asyncio.sleep(self.hs_delay)
            await self._pump(self.obj.do_handshake)
            self.log.append("handshake-done")
            await self.go_after.wait()
            if self.after == "silent":
                await asyncio.get_running_loop().create_future()
            if self.after == "drop":
                buf = bytearray(65536)
                await self.end.recv_into(buf)
                await self.end.aclose()
                return
            if self.after == "firstgone":
                try:
                    self.obj.unwrap()
                except (ssl.SSLWantReadError, ssl.SSLWantWriteError):
                    pass
                await self._flush()
                self.log.append("sent-close-notify")
                await self.end.aclose()
                return
            if self.after == "first":
                try:
                    await self._pump(self.obj.unwrap)
                except (ssl.SSLError, OSError):
                    pass
                await self.end.aclose()
                return
            # "reply": wait for the close_notify of the other side
            try:
                await self._pump(self.obj.read, 1024)
            except ssl.SSLZeroReturnError:
                self.log.append("got-close-notify")
                try:
                    await self._pump(self.obj.unwrap)
                except (ssl.SSLError, OSError):
                    pass
            except (ssl.SSLError, OSError) as e:
                self.log.append("peer-error " + type(e).__name__)
            await self.end.aclose()
        except asyncio.CancelledError:
            raise
        except OSError as e:
            self.log.append("peer-oserror " + type(e).__name__)
