#!/venv/bin/python
"""Entry point:  check.py <Cxx> [--tier quick|thorough] [--replay file]"""
import importlib
import os
import sys

HERE = os.path.dirname(os.path.abspath(__file__))
sys.path.insert(0, HERE)

def main() -> int:
    if len(sys.argv) < 2:
        print(__doc__)
        return 2
    prop = sys.argv[1].upper()
    from vlib import core
    mod = importlib.import_module(f"props.{prop.lower()}")
    return core.main_check(mod, sys.argv[2:])

if __name__ == "__main__":
    sys.exit(main())
