"""
Translator for C17: regenerates lean/EasyNet/EasyNet/Gen/IsoTables.lean from the repository's current source (core.REPO).

  (a) class order   the live `issubclass` relation among the exception classes of interest (the declared alphabet of
                    vlib/c17_run.py plus every class named in a filter clause)
  (b) filters       for each filter of the code, the `try` statements around its anchor (a `yield`, a call), innermost
                    first, each with its clauses read from the AST: classes caught, `except` vs `except*`, what the body
                    does (ends normally = swallow | bare `raise` = reraise | `if not isinstance(exc, C): raise` = swallowIf C)
                    and what it logs (logger call, level, message literal, exc_info).  `_ClientContext.__aexit__` is a
                    `match` statement: its group branch is read as an `except*` layer (the `.split(C)` call) followed by
                    a plain layer (the inner match); the naked branches are confirmed behaviourally (unit cases of C17).
  (c) nesting map   for every hook position, the chain of filters between it and the server's task group.  The chain of
                    *functions* is declared here (LINKS); everything else is read from the AST: the `try` statements
                    enclosing each anchor (only when the anchor is in the `try` body, not in `else`/`finally`), that each
                    link really leads to the next one (`async with initializer(...)`, `enter_context(self.__suppress…)`,
                    `push_async_callback(disconnect_client)` on an exit stack entered after the initializer, …) and the
                    two flags `ocCompleted` / `odRegistered` (statement order inside misc.py's handler).
                    Every entry is confirmed on each run by the fault-injection matrix (which filter logged).
  (d) receiver guard the positions `h_thrown` / `oc_thrown` rest on the receivers turning whatever goes wrong while waiting for
                    and parsing the client's next request (parse errors above all) into a `ThrowAction` thrown into the
                    handler generator at `action.asend`: every call that reads from the transport or parses buffered bytes
                    in `_RequestReceiver.next`, `_BufferedRequestReceiver.next` (stream.py) and `__parse_datagram`
                    (datagram.py) must sit in the body of a `try` whose `except BaseException as exc` returns / assigns
                    `ThrowAction(exc)`.  Confirmed behaviourally by the malformed-input cases of C17.
If the source no longer has the shape the translator knows, a table that cannot satisfy the theorems is emitted.
"""
from __future__ import annotations

import ast
import asyncio
import builtins
import importlib
import inspect
import ssl
import textwrap
from typing import Any

from vlib import core

GEN = core.LEAN / "EasyNet" / "Gen" / "IsoTables.lean"

TCP = "easynetwork.servers.async_tcp"
UDP = "easynetwork.servers.async_udp"
MISC = "easynetwork.servers.misc"
STREAM = "easynetwork.lowlevel.api_async.servers.stream"
DGRAM = "easynetwork.lowlevel.api_async.servers.datagram"
LISTENER = "easynetwork.lowlevel.api_async.backend._asyncio.stream.listener"
TLS = "easynetwork.lowlevel.api_async.transports.tls"

LOG_KEYS = {
    "Exception occurred during processing of request from %s": "request-error",
    "There have been attempts to do operation on closed client %s": "closed-client",
    "ConnectionError raised in request_handler.on_disconnection()": "disconnect-connerr",
    "Error in client task (during TLS handshake)": "tls-handshake",
    "Error in client task": "client-task",
}


class TranslateError(Exception):
    pass


# ----------------------------------------------------------------------------------------------------------------------
# AST helpers
# ----------------------------------------------------------------------------------------------------------------------
_src_cache: dict[str, tuple[ast.Module, Any]] = {}


def _module(modname: str) -> tuple[ast.Module, Any]:
    if modname not in _src_cache:
        mod = importlib.import_module(modname)
        path = inspect.getsourcefile(mod)
        assert path is not None
        if not str(path).startswith(str(core.REPO)):
            raise TranslateError(f"{modname} is not imported from {core.REPO}")
        tree = ast.parse(open(path).read())
        for node in ast.walk(tree):
            for child in ast.iter_child_nodes(node):
                child._parent = node  # type: ignore[attr-defined]
        _src_cache[modname] = (tree, mod)
    return _src_cache[modname]


def _func(modname: str, path: str) -> ast.AST:
    """`Class.method.nested` -> the FunctionDef node"""
    tree, _ = _module(modname)
    node: ast.AST = tree
    for part in path.split("."):
        found = None
        for sub in ast.walk(node):
            if sub is node:
                continue
            if isinstance(sub, (ast.ClassDef, ast.FunctionDef, ast.AsyncFunctionDef)) and sub.name == part:
                found = sub
                break
        if found is None:
            raise TranslateError(f"{modname}: {path}: no definition named {part}")
        node = found
    return node


def _own_nodes(fn: ast.AST):
    """nodes of `fn` that are not inside a nested function / class definition"""
    stack = list(ast.iter_child_nodes(fn))
    while stack:
        n = stack.pop()
        yield n
        if isinstance(n, (ast.FunctionDef, ast.AsyncFunctionDef, ast.ClassDef, ast.Lambda)):
            continue
        stack.extend(ast.iter_child_nodes(n))


def _anchor(fn: ast.AST, needle: str, where: str, *, kind: type | tuple = (ast.Expr, ast.Assign, ast.AnnAssign, ast.Await, ast.Call, ast.Yield)) -> ast.AST:
    """the smallest own node of `fn` whose source contains `needle`"""
    hits = [n for n in _own_nodes(fn) if isinstance(n, kind) and needle in ast.unparse(n)]
    if not hits:
        raise TranslateError(f"{where}: nothing like {needle!r}")
    hits.sort(key=lambda n: len(ast.unparse(n)))
    return hits[0]


def _ancestors(node: ast.AST, top: ast.AST) -> list[tuple[ast.AST, ast.AST]]:
    """(ancestor, child through which `node` is reached), innermost first, up to `top` (excluded)"""
    out = []
    cur = node
    while cur is not top:
        par = getattr(cur, "_parent", None)
        if par is None:
            raise TranslateError("anchor not under its function")
        out.append((par, cur))
        cur = par
    return out


def _enclosing_trys(node: ast.AST, top: ast.AST) -> list[ast.AST]:
    """try statements whose *body* contains the node (handlers of a try do not cover its else/finally/handlers)"""
    out = []
    for par, child in _ancestors(node, top):
        if isinstance(par, (ast.Try, ast.TryStar)) and any(child is b for b in par.body):
            out.append(par)
    return out


def _enclosing_withs(node: ast.AST, top: ast.AST) -> list[ast.AST]:
    out = []
    for par, child in _ancestors(node, top):
        if isinstance(par, (ast.With, ast.AsyncWith)) and any(child is b for b in par.body):
            out.append(par)
    return out


def _resolve(expr: ast.expr, mod: Any) -> list[type]:
    if isinstance(expr, ast.Tuple):
        out: list[type] = []
        for e in expr.elts:
            out.extend(_resolve(e, mod))
        return out
    text = ast.unparse(expr)
    if "get_cancelled_exc_class" in text:
        return [asyncio.CancelledError]          # the asyncio backend's cancellation class
    if isinstance(expr, ast.Name):
        if hasattr(mod, expr.id):
            v = getattr(mod, expr.id)
        elif hasattr(builtins, expr.id):
            v = getattr(builtins, expr.id)
        else:
            raise TranslateError(f"cannot resolve exception name {expr.id}")
    elif isinstance(expr, ast.Attribute) and isinstance(expr.value, ast.Name):
        base = getattr(mod, expr.value.id, None)
        if base is None and expr.value.id in ("ssl", "_ssl_module"):
            base = ssl
        if base is None:
            raise TranslateError(f"cannot resolve {text}")
        v = getattr(base, expr.attr)
    else:
        raise TranslateError(f"unsupported except expression {text}")
    vs = list(v) if isinstance(v, tuple) else [v]
    for c in vs:
        if not (isinstance(c, type) and issubclass(c, BaseException)):
            raise TranslateError(f"{text} is not an exception class")
    return vs


def _log_calls(body: list[ast.stmt], mod: Any) -> list[tuple[str, bool]]:
    """logger calls in a handler body: ("<origin> <LEVEL> <key>", exc_info given); dashes-only separators are skipped"""
    out = []
    for stmt in body:
        for n in ast.walk(stmt):
            if isinstance(n, ast.Call) and isinstance(n.func, ast.Attribute) and n.func.attr == "log_connection_error":
                # listener.py: `self.__accepted_socket_factory.log_connection_error(logger, exc)` -> the TCP factory's method
                out.extend(_log_calls(_func(mod.__name__, "AcceptedSocketFactory.log_connection_error").body, mod))  # type: ignore[attr-defined]
                continue
            if isinstance(n, ast.Call) and isinstance(n.func, ast.Attribute) and n.func.attr in ("warning", "error", "critical", "exception"):
                target = ast.unparse(n.func.value)
                if "logger" not in target:
                    continue
                if not n.args:
                    continue
                a0 = n.args[0]
                if not (isinstance(a0, ast.Constant) and isinstance(a0.value, str)):
                    continue       # e.g. "-" * 40
                origin = "server" if target in ("self.logger", "self.__logger", "logger") and mod.__name__ in (TCP, UDP, MISC) \
                    else mod.__name__.rsplit(".", 1)[-1]
                key = LOG_KEYS.get(a0.value, "other:" + "".join(ch if ch.isalnum() else "_" for ch in a0.value[:40]))
                level = {"warning": "WARNING", "error": "ERROR", "critical": "CRITICAL", "exception": "ERROR"}[n.func.attr]
                has_exc = any(k.arg == "exc_info" for k in n.keywords) or n.func.attr == "exception"
                out.append((f"{origin} {level} {key}", has_exc))
    return out


def _action(h: ast.ExceptHandler, mod: Any) -> tuple[str, type | None]:
    """what the handler body does with the caught object"""
    raises = []
    for stmt in h.body:
        for n in ast.walk(stmt):
            if isinstance(n, (ast.FunctionDef, ast.AsyncFunctionDef, ast.Lambda)):
                continue
            if isinstance(n, ast.Raise):
                raises.append(n)
    if not raises:
        return "swallow", None
    for r in raises:
        if r.exc is not None and not (isinstance(r.exc, ast.Name) and r.exc.id == h.name):
            raise TranslateError(f"handler raises something else: {ast.unparse(r)}")
    if len(raises) != 1:
        raise TranslateError("handler with several raise statements")
    r = raises[0]
    # unconditional: the raise is reached on every path = it is a direct statement of the handler body
    if any(r is s for s in h.body):
        return "reraise", None
    par = r._parent  # type: ignore[attr-defined]
    if isinstance(par, ast.If) and any(par is s for s in h.body) and any(r is s for s in par.body) and not par.orelse:
        t = par.test
        if (isinstance(t, ast.UnaryOp) and isinstance(t.op, ast.Not) and isinstance(t.operand, ast.Call)
                and ast.unparse(t.operand.func) == "isinstance" and ast.unparse(t.operand.args[0]) == h.name):
            cs = _resolve(t.operand.args[1], mod)
            if len(cs) == 1:
                return "swallowIf", cs[0]
    raise TranslateError(f"conditional raise of unknown shape in handler: {ast.unparse(par)[:80]}")


def _layer_of_try(tr: ast.AST, mod: Any, log_override: dict[int, dict] | None = None) -> dict | None:
    handlers = tr.handlers  # type: ignore[attr-defined]
    if not handlers:
        return None
    clauses = []
    for i, h in enumerate(handlers):
        classes = [BaseException] if h.type is None else _resolve(h.type, mod)
        kind, arg = _action(h, mod)
        logs = _log_calls(h.body, mod)
        if len(logs) > 1:
            raise TranslateError("handler with several distinct log messages")
        log: dict = {"kind": "silent"}
        if logs:
            log = {"kind": "always", "what": logs[0][0], "exc": logs[0][1]}
        if log_override and i in log_override:
            log = log_override[i]
        clauses.append({"classes": classes, "act": kind, "arg": arg, "log": log})
    return {"star": isinstance(tr, ast.TryStar), "clauses": clauses}


def _layers_around(modname: str, path: str, needle: str, log_override: dict[int, dict] | None = None, **kw: Any) -> list[dict]:
    fn = _func(modname, path)
    _, mod = _module(modname)
    node = _anchor(fn, needle, f"{modname}.{path}", **kw)
    out = []
    for tr in _enclosing_trys(node, fn):
        layer = _layer_of_try(tr, mod, log_override)
        if layer is not None:
            out.append(layer)
    return out


# ----------------------------------------------------------------------------------------------------------------------
# special extractions
# ----------------------------------------------------------------------------------------------------------------------
def _pattern_classes(p: ast.pattern, mod: Any) -> list[type] | None:
    """classes of a `case C():` / `case C() | D():` pattern; None for the wildcard / `case None`"""
    if isinstance(p, ast.MatchClass):
        return _resolve(p.cls, mod)
    if isinstance(p, ast.MatchOr):
        out: list[type] = []
        for q in p.patterns:
            c = _pattern_classes(q, mod)
            if c is None:
                raise TranslateError("wildcard inside an or-pattern")
            out.extend(c)
        return out
    if isinstance(p, ast.MatchAs) and p.pattern is None:
        return None
    if isinstance(p, ast.MatchSingleton) and p.value is None:
        return None
    raise TranslateError(f"unsupported match pattern {ast.unparse(p)}")


def _returns(body: list[ast.stmt]) -> str:
    """'swallow' (return True) | 'propagate' (return False / raise <the value>)"""
    last = body[-1]
    if isinstance(last, ast.Return) and isinstance(last.value, ast.Constant):
        if last.value.value is True:
            return "swallow"
        if last.value.value is False:
            return "propagate"
    if isinstance(last, ast.Raise):
        return "propagate"
    raise TranslateError(f"__aexit__ branch ends with {ast.unparse(last)[:60]}")


def _log_method(cls_node: ast.ClassDef, body: list[ast.stmt], mod: Any) -> dict:
    """the branch calls self.__log_xxx(...): read the logger call from that method"""
    for stmt in body:
        for n in ast.walk(stmt):
            if isinstance(n, ast.Call) and isinstance(n.func, ast.Attribute) and n.func.attr.startswith("__log"):
                for sub in cls_node.body:
                    if isinstance(sub, ast.FunctionDef) and sub.name == n.func.attr:
                        logs = _log_calls(sub.body, mod)
                        if len(logs) != 1:
                            raise TranslateError(f"{sub.name}: expected one log message")
                        what = logs[0][0]
                        if what.split()[0] != "server":
                            what = "server " + what.split(" ", 1)[1]
                        return {"kind": "always", "what": what, "exc": logs[0][1]}
    return {"kind": "silent"}


def _udp_aexit_layers() -> list[dict]:
    tree, mod = _module(UDP)
    cls_node = next(n for n in tree.body if isinstance(n, ast.ClassDef) and n.name == "_ClientContext")
    fn = next(n for n in cls_node.body if isinstance(n, ast.AsyncFunctionDef) and n.name == "__aexit__")
    matches = [n for n in _own_nodes(fn) if isinstance(n, ast.Match)]
    outer = [m for m in matches if not any(isinstance(p, ast.Match) for p, _ in _ancestors(m, fn))]
    if len(outer) != 1:
        raise TranslateError("_ClientContext.__aexit__: expected one top-level match statement")
    m = outer[0]
    group_case = None
    naked: list[dict] = []
    for case in m.cases:
        classes = _pattern_classes(case.pattern, mod)
        if classes is not None and any(issubclass(c, BaseExceptionGroup) for c in classes):
            if group_case is not None or naked:
                raise TranslateError("__aexit__: the group case must come first and be unique")
            if classes != [BaseExceptionGroup]:
                raise TranslateError("__aexit__: group case is not `case BaseExceptionGroup()`")
            group_case = case
            continue
        act = _returns(case.body)
        naked.append({"classes": classes if classes is not None else [BaseException],
                      "act": "swallow" if act == "swallow" else "reraise", "arg": None,
                      "log": _log_method(cls_node, case.body, mod)})
    if group_case is None:
        raise TranslateError("__aexit__: no `case BaseExceptionGroup()`")
    # group branch: `<a>, <b> = exc_val.split(C)`; `if <a> is not None: log`; inner match on <b>
    split_cls = None
    star_log: dict = {"kind": "silent"}
    inner = None
    for stmt in group_case.body:
        if isinstance(stmt, ast.Assign) and isinstance(stmt.value, ast.Call) and isinstance(stmt.value.func, ast.Attribute) \
                and stmt.value.func.attr == "split":
            split_cls = _resolve(stmt.value.args[0], mod)
        elif isinstance(stmt, ast.If):
            star_log = _log_method(cls_node, stmt.body, mod)
            if any(isinstance(n, (ast.Raise, ast.Return)) for s in stmt.body for n in ast.walk(s)):
                raise TranslateError("__aexit__: the split branch raises/returns")
        elif isinstance(stmt, ast.Match):
            inner = stmt
        else:
            raise TranslateError(f"__aexit__: unexpected statement in the group branch: {ast.unparse(stmt)[:60]}")
    if split_cls is None or inner is None:
        raise TranslateError("__aexit__: group branch without split()/inner match")
    plain = []
    for case in inner.cases:
        classes = _pattern_classes(case.pattern, mod)
        if classes is None and isinstance(case.pattern, ast.MatchSingleton):
            if _returns(case.body) != "swallow":
                raise TranslateError("__aexit__: `case None` must return True")
            continue
        act = _returns(case.body)
        plain.append({"classes": classes if classes is not None else [BaseException],
                      "act": "swallow" if act == "swallow" else "reraise", "arg": None,
                      "log": _log_method(cls_node, case.body, mod)})
    layers = [{"star": True, "clauses": [{"classes": split_cls, "act": "swallow", "arg": None, "log": star_log}]},
              {"star": False, "clauses": plain}]
    # the naked branches must say the same as the two layers say about a naked exception (checked on the class table by
    # `naked_consistent` below, and behaviourally by the unit cases)
    return layers, naked  # type: ignore[return-value]


def _tls_quiet_classes() -> list[type]:
    """classes for which `__client_tls_handshake_error_handler` logs nothing (the guarded OSError case is read as the
    classes its guard tests with isinstance / is_ssl_eof_error; errno-only conditions cannot be told from the class)"""
    tree, mod = _module(TCP)
    fn = _func(TCP, "AsyncTCPNetworkServer.__client_tls_handshake_error_handler")
    ms = [n for n in _own_nodes(fn) if isinstance(n, ast.Match)]
    if len(ms) != 1:
        raise TranslateError("tls handshake error handler: expected one match statement")
    quiet: list[type] = []
    default_logs = False
    for case in ms[0].cases:
        classes = _pattern_classes(case.pattern, mod)
        silent = all(isinstance(s, ast.Pass) for s in case.body)
        if classes is None:
            default_logs = bool(_log_calls(case.body, mod))
            continue
        if not silent:
            if any(isinstance(n, ast.Raise) for s in case.body for n in ast.walk(s)):
                # a raising handler ends in the default handler of tls.py (logged, still swallowed): not quiet
                continue
            continue
        if case.guard is None:
            quiet.extend(classes)
        else:
            for n in ast.walk(case.guard):
                if isinstance(n, ast.Call) and ast.unparse(n.func) == "isinstance":
                    quiet.extend(c for c in _resolve(n.args[1], mod) if any(issubclass(c, k) for k in classes))
                elif isinstance(n, ast.Call) and ast.unparse(n.func).endswith("is_ssl_eof_error"):
                    quiet.append(ssl.SSLEOFError)
    if not default_logs:
        raise TranslateError("tls handshake error handler: the default case does not log")
    return quiet


# ----------------------------------------------------------------------------------------------------------------------
# filters and nesting
# ----------------------------------------------------------------------------------------------------------------------
def _check(cond: bool, what: str) -> None:
    if not cond:
        raise TranslateError("nesting link not found: " + what)


def _converts_to_throwaction(tr: ast.AST) -> bool:
    for h in tr.handlers:  # type: ignore[attr-defined]
        if isinstance(tr, ast.TryStar) or h.name is None:
            continue
        if h.type is not None and ast.unparse(h.type) != "BaseException":
            continue
        for stmt in h.body:
            v = stmt.value if isinstance(stmt, (ast.Return, ast.Assign)) else None
            if v is not None and ast.unparse(v) == f"ThrowAction({h.name})":
                return True
    return False


def _receiver_guard(modname: str, path: str, callees: tuple[str, ...]) -> None:
    fn = _func(modname, path)
    seen = 0
    for n in _own_nodes(fn):
        if isinstance(n, ast.Call) and ast.unparse(n.func).endswith(callees):
            seen += 1
            _check(any(_converts_to_throwaction(tr) for tr in _enclosing_trys(n, fn)),
                   f"{modname.rsplit('.', 1)[-1]}.{path}: `{ast.unparse(n)[:60]}` is not inside the body of "
                   "`try: … except BaseException as exc: … ThrowAction(exc)` (an error raised there escapes the client task)")
    _check(seen > 0, f"{modname.rsplit('.', 1)[-1]}.{path}: no call to any of {callees}")


def extract() -> dict:
    _src_cache.clear()
    filters: list[dict] = []

    def add(name: str, site: str, layers: list[dict], outer: bool = False) -> None:
        filters.append({"name": name, "site": site, "layers": layers, "outer": outer})

    GEN_KINDS = (ast.Expr, ast.Assign, ast.AnnAssign, ast.Await, ast.Call, ast.Yield)
    # ---- TCP
    H = "build_lowlevel_stream_server_handler.handler"
    add("tcp.suppress_and_log", TCP + ":AsyncTCPNetworkServer.__suppress_and_log_remaining_exception",
        _layers_around(TCP, "AsyncTCPNetworkServer.__suppress_and_log_remaining_exception", "yield", kind=(ast.Expr,)), outer=True)
    add("tcp.initializer", TCP + ":AsyncTCPNetworkServer.__client_initializer",
        _layers_around(TCP, "AsyncTCPNetworkServer.__client_initializer", "yield client", kind=(ast.Expr,)))
    add("tcp.disconnect_client", MISC + ":" + H + ".disconnect_client",
        _layers_around(MISC, H + ".disconnect_client", "request_handler.on_disconnection(", kind=GEN_KINDS))
    add("misc.stream.oc_await", MISC + ":" + H, _layers_around(MISC, H, "await _on_connection_hook", kind=(ast.Expr,)))
    add("misc.stream.oc_anext", MISC + ":" + H, _layers_around(MISC, H, "anext_without_asyncgen_hook(_on_connection_hook)"))
    add("misc.stream.oc_asend", MISC + ":" + H, _layers_around(MISC, H, "action.asend(_on_connection_hook)"))
    add("misc.stream.h_anext", MISC + ":" + H, _layers_around(MISC, H, "anext_without_asyncgen_hook(request_handler_generator)"))
    add("misc.stream.h_asend", MISC + ":" + H, _layers_around(MISC, H, "action.asend(request_handler_generator)"))
    CC = "AsyncStreamServer.__client_coroutine"
    add("stream.cc_anext", STREAM + ":" + CC, _layers_around(STREAM, CC, "anext_without_asyncgen_hook(request_handler_generator)"))
    add("stream.cc_asend", STREAM + ":" + CC, _layers_around(STREAM, CC, "action.asend(request_handler_generator)"))
    add("stream.cc_aclose", STREAM + ":" + CC, _layers_around(STREAM, CC, "request_handler_generator.aclose()"))
    # ---- set-up
    add("listener.client_connection_task", LISTENER + ":ListenerSocketAdapter.serve.client_connection_task",
        _layers_around(LISTENER, "ListenerSocketAdapter.serve.client_connection_task", "connect(self", kind=GEN_KINDS),
        outer=True)
    quiet = _tls_quiet_classes()
    tls_layers = _layers_around(TLS, "AsyncTLSListener.serve.tls_handler_wrapper", "AsyncTLSStreamTransport.wrap(")
    # the `except Exception` body hands the exception to the server's handshake error handler: its logging decision
    n_exc = 0
    for layer in tls_layers:
        for cl in layer["clauses"]:
            if cl["classes"] == [Exception]:
                cl["log"] = {"kind": "unless", "quiet": quiet, "what": "server WARNING tls-handshake", "exc": True}
                n_exc += 1
    _check(n_exc == 1, "tls_handler_wrapper: one `except Exception` around AsyncTLSStreamTransport.wrap")
    add("tls.handler_wrapper", TLS + ":AsyncTLSListener.serve.tls_handler_wrapper", tls_layers, outer=True)
    add("tls.handler_call", TLS + ":AsyncTLSListener.serve.tls_handler_wrapper",
        _layers_around(TLS, "AsyncTLSListener.serve.tls_handler_wrapper", "await handler(stream)", kind=(ast.Expr,)))
    # ---- UDP
    udp_layers, naked = _udp_aexit_layers()
    add("udp.client_context_aexit", UDP + ":_ClientContext.__aexit__", udp_layers, outer=True)
    D = "build_lowlevel_datagram_server_handler.handler"
    add("misc.dgram.h_anext", MISC + ":" + D, _layers_around(MISC, D, "anext_without_asyncgen_hook(request_handler_generator)"))
    add("misc.dgram.h_asend", MISC + ":" + D, _layers_around(MISC, D, "action.asend(request_handler_generator)"))
    IL = "AsyncDatagramServer.__client_coroutine_inner_loop"
    add("dgram.il_anext", DGRAM + ":" + IL, _layers_around(DGRAM, IL, "anext_without_asyncgen_hook(request_handler_generator)"))
    add("dgram.il_asend", DGRAM + ":" + IL, _layers_around(DGRAM, IL, "timeout = await action.asend(request_handler_generator)", kind=(ast.Assign,)))

    # ---- links (each claim of "this is enclosed by that" is looked up in the AST)
    hfn = _func(MISC, H)
    _, misc_mod = _module(MISC)
    withs = [n for n in _own_nodes(hfn) if isinstance(n, ast.AsyncWith)]
    _check(len(withs) >= 1, "misc stream handler: async with")
    w = withs[-1] if len(withs) == 1 else min(withs, key=lambda n: n.lineno)
    items = [ast.unparse(i.context_expr) for i in w.items]
    _check(len(items) == 2 and items[0].startswith("initializer(") and items[1].startswith("AsyncExitStack("),
           "misc stream handler: `async with initializer(...) as client, AsyncExitStack() as request_handler_exit_stack`")
    stack_name = ast.unparse(w.items[1].optional_vars) if w.items[1].optional_vars is not None else ""
    for needle in ("await _on_connection_hook", "anext_without_asyncgen_hook(_on_connection_hook)", "action.asend(_on_connection_hook)",
                   "anext_without_asyncgen_hook(request_handler_generator)", "action.asend(request_handler_generator)"):
        node = _anchor(hfn, needle, MISC + ":" + H)
        _check(w in _enclosing_withs(node, hfn), f"{needle} inside the initializer's async with")
    push = [s for s in w.body if isinstance(s, ast.Expr) and ast.unparse(s).startswith(f"{stack_name}.push_async_callback(disconnect_client)")]
    _check(len(push) == 1, "request_handler_exit_stack.push_async_callback(disconnect_client) as a direct statement of the with body")
    oc_end = [s for s in w.body if isinstance(s, ast.Delete) and ast.unparse(s) == "del _on_connection_hook"]
    _check(len(oc_end) == 1, "`del _on_connection_hook` marks the end of on_connection")
    push_line, oc_end_line = push[0].lineno, oc_end[0].lineno
    # __lowlevel_serve hands __client_initializer to build_lowlevel_stream_server_handler
    ls = _func(TCP, "AsyncTCPNetworkServer.__lowlevel_serve")
    _check(any(isinstance(n, ast.Call) and ast.unparse(n.func) == "build_lowlevel_stream_server_handler"
               and n.args and ast.unparse(n.args[0]) == "self.__client_initializer" for n in ast.walk(ls)),
           "build_lowlevel_stream_server_handler(self.__client_initializer, …)")
    # __client_initializer: enter_context(self.__suppress_and_log_remaining_exception(...)) before `yield client`, same exit stack
    ci = _func(TCP, "AsyncTCPNetworkServer.__client_initializer")
    y = _anchor(ci, "yield client", "__client_initializer", kind=(ast.Expr,))
    ci_withs = _enclosing_withs(y, ci)
    _check(len(ci_withs) == 1 and "AsyncExitStack()" in ast.unparse(ci_withs[0].items[0].context_expr), "__client_initializer: async with AsyncExitStack()")
    cw = ci_withs[0]
    ces = ast.unparse(cw.items[0].optional_vars)
    sup = [s for s in cw.body if isinstance(s, ast.Expr) and
           ast.unparse(s).startswith(f"{ces}.enter_context(self.__suppress_and_log_remaining_exception(")]
    _check(len(sup) == 1 and sup[0].lineno < y.lineno, "client_exit_stack.enter_context(self.__suppress_and_log_remaining_exception(...)) before `yield client`")
    # listener: start_soon(handler, stream) in the else branch of client_connection_task's try (not covered by its handlers)
    cct = _func(LISTENER, "ListenerSocketAdapter.serve.client_connection_task")
    ss = _anchor(cct, "task_group.start_soon(handler, stream)", "client_connection_task")
    _check(not _enclosing_trys(ss, cct), "client_connection_task: start_soon(handler, stream) outside the try body")
    # UDP: the handler's `async with initializer(...)`; __client_initializer returns a _ClientContext
    dfn = _func(MISC, D)
    dw = [n for n in _own_nodes(dfn) if isinstance(n, ast.AsyncWith)]
    _check(len(dw) == 1 and ast.unparse(dw[0].items[0].context_expr).startswith("initializer("), "misc datagram handler: async with initializer(...)")
    for needle in ("anext_without_asyncgen_hook(request_handler_generator)", "action.asend(request_handler_generator)"):
        _check(dw[0] in _enclosing_withs(_anchor(dfn, needle, MISC + ":" + D), dfn), f"udp {needle} inside the initializer's async with")
    uci = _func(UDP, "AsyncUDPNetworkServer.__client_initializer")
    _check(any(isinstance(n, ast.Return) and n.value is not None and ast.unparse(n.value).startswith("_ClientContext(") for n in ast.walk(uci)),
           "AsyncUDPNetworkServer.__client_initializer returns _ClientContext(...)")
    uls = _func(UDP, "AsyncUDPNetworkServer.__lowlevel_serve")
    _check(any(isinstance(n, ast.Call) and ast.unparse(n.func) == "build_lowlevel_datagram_server_handler"
               and n.args and ast.unparse(n.args[0]) == "self.__client_initializer" for n in ast.walk(uls)),
           "build_lowlevel_datagram_server_handler(self.__client_initializer, …)")

    # (d) the receivers: nothing that reads or parses the client's bytes may raise outside the ThrowAction guard
    _receiver_guard(STREAM, "_RequestReceiver.next", ("consumer.next", "transport.recv"))
    _receiver_guard(STREAM, "_BufferedRequestReceiver.next", ("consumer.next", "transport.recv_into", "consumer.get_write_buffer"))
    _receiver_guard(DGRAM, "AsyncDatagramServer.__parse_datagram", ("build_packet_from_datagram",))

    def line_of(needle: str) -> int:
        return _anchor(hfn, needle, MISC + ":" + H).lineno

    OUT_TCP = ["tcp.initializer", "tcp.suppress_and_log"]
    tcp_positions = [
        ("oc_coro", ["misc.stream.oc_await"] + OUT_TCP + ["stream.cc_anext"], line_of("await _on_connection_hook")),
        ("oc_pre", ["misc.stream.oc_anext"] + OUT_TCP + ["stream.cc_anext"], line_of("anext_without_asyncgen_hook(_on_connection_hook)")),
        ("oc_post", ["misc.stream.oc_asend"] + OUT_TCP + ["stream.cc_asend"], line_of("action.asend(_on_connection_hook)")),
        ("oc_thrown", ["misc.stream.oc_asend"] + OUT_TCP + ["stream.cc_asend"], line_of("action.asend(_on_connection_hook)")),
        ("h_pre", ["misc.stream.h_anext"] + OUT_TCP + ["stream.cc_asend"], line_of("anext_without_asyncgen_hook(request_handler_generator)")),
        ("h_post", ["misc.stream.h_asend"] + OUT_TCP + ["stream.cc_asend"], line_of("action.asend(request_handler_generator)")),
        ("h_thrown", ["misc.stream.h_asend"] + OUT_TCP + ["stream.cc_asend"], line_of("action.asend(request_handler_generator)")),
        ("h_gexit", ["misc.stream.h_asend"] + OUT_TCP + ["stream.cc_aclose"], line_of("action.asend(request_handler_generator)")),
        ("od", ["tcp.disconnect_client"] + OUT_TCP + ["stream.cc_aclose"], None),
    ]
    positions: list[dict] = []
    for kind in ("tcp", "tcp-tls"):
        extra = ["tls.handler_call"] if kind == "tcp-tls" else []
        for pos, chain, line in tcp_positions:
            if line is None:
                occ, odr = push_line > oc_end_line, True
            else:
                occ, odr = line > oc_end_line, line > push_line
            positions.append({"kind": kind, "pos": pos, "filters": chain + extra, "oc": occ, "od": odr})
        positions.append({"kind": kind, "pos": "setup", "filters": ["listener.client_connection_task"], "oc": False, "od": False})
    positions.append({"kind": "tcp-tls", "pos": "tls_hs", "filters": ["tls.handler_wrapper"], "oc": False, "od": False})
    for pos, chain in (("h_pre", ["misc.dgram.h_anext", "udp.client_context_aexit", "dgram.il_anext"]),
                       ("h_post", ["misc.dgram.h_asend", "udp.client_context_aexit", "dgram.il_asend"]),
                       ("h_thrown", ["misc.dgram.h_asend", "udp.client_context_aexit", "dgram.il_asend"])):
        positions.append({"kind": "udp", "pos": pos, "filters": chain, "oc": False, "od": False})
    return {"filters": filters, "positions": positions, "udp_naked": naked}


# ----------------------------------------------------------------------------------------------------------------------
# rendering
# ----------------------------------------------------------------------------------------------------------------------
def alphabet() -> dict[str, type]:
    from vlib import c17_run
    d = dict(c17_run.ALPHABET)
    d.update(c17_run.GROUPS)
    return d


def _lean_name(n: str) -> str:
    return "c" + "".join(ch if ch.isalnum() else "_" for ch in n)


def class_table(ex: dict) -> dict[str, type]:
    names = alphabet()
    by_cls = {c: n for n, c in names.items()}

    def note(c: type) -> None:
        if c not in by_cls:
            n = c.__name__
            if n in names:
                n = c.__module__.replace(".", "_") + "_" + n
            names[n] = c
            by_cls[c] = n

    for f in ex["filters"]:
        for layer in f["layers"]:
            for cl in layer["clauses"]:
                for c in cl["classes"]:
                    note(c)
                if cl["arg"] is not None:
                    note(cl["arg"])
                for c in cl["log"].get("quiet", []):
                    note(c)
    return names


def naked_consistent(ex: dict) -> str | None:
    """`_ClientContext.__aexit__`: the naked `case` branches against the two layers read from the group branch, for every class"""
    names = class_table(ex)
    f = next(f for f in ex["filters"] if f["name"] == "udp.client_context_aexit")
    star, plain = f["layers"]

    def first(clauses: list[dict], c: type) -> dict | None:
        for cl in clauses:
            if any(issubclass(c, k) for k in cl["classes"]):
                return cl
        return None

    for n, c in names.items():
        if issubclass(c, BaseExceptionGroup):
            continue
        nk = first(ex["udp_naked"], c)
        got = ("propagate", None) if nk is None or nk["act"] != "swallow" else ("swallow", nk["log"].get("what"))
        s = first(star["clauses"], c)
        if s is not None:
            want = ("swallow", s["log"].get("what"))
        else:
            p = first(plain["clauses"], c)
            want = ("propagate", None) if p is None or p["act"] != "swallow" else ("swallow", p["log"].get("what"))
        if got != want:
            return f"__aexit__: naked {n}: cases say {got}, group branch says {want}"
    return None


def render() -> str:
    ex = extract()
    bad = naked_consistent(ex)
    if bad:
        raise TranslateError(bad)
    names = class_table(ex)
    by_cls = {c: n for n, c in names.items()}
    order = sorted(names)
    L: list[str] = []
    L.append("/-")
    L.append("  GENERATED by harness/translate/iso_tables.py from the repository's current source on every check run — do not edit.")
    L.append("  Exception classes of interest with their live subclass relation; every per-client filter (try/except/except* layers")
    L.append("  read from the AST, innermost first); the nesting map (hook position -> enclosing filters).")
    L.append("-/")
    L.append("import EasyNet.Model.Iso")
    L.append("namespace EasyNet.Gen.Iso")
    L.append("open EasyNet.Iso")
    L.append("")
    L.append("inductive Cls where")
    for n in order:
        L.append(f"  | {_lean_name(n)}")
    L.append("  deriving DecidableEq, Repr")
    L.append("")
    L.append("def Cls.name : Cls → String")
    for n in order:
        L.append(f"  | .{_lean_name(n)} => \"{n}\"")
    L.append("")
    L.append("def allCls : List Cls := [" + ", ".join("." + _lean_name(n) for n in order) + "]")
    L.append("")
    L.append("/-- live `issubclass(a, b)`: the superclasses of a (within the table) -/")
    L.append("def supers : Cls → List Cls")
    for n in order:
        sup = [m for m in order if issubclass(names[n], names[m])]
        L.append(f"  | .{_lean_name(n)} => [" + ", ".join("." + _lean_name(m) for m in sup) + "]")
    L.append("")
    L.append("def sub (a b : Cls) : Bool := (supers a).contains b")
    L.append("")
    L.append(f"def K : Classes Cls := ⟨sub, .{_lean_name('Exception')}, .{_lean_name('ExceptionGroup')}, .{_lean_name('BaseExceptionGroup')}⟩")
    L.append("")

    def cls_list(cs: list[type]) -> str:
        return "[" + ", ".join("." + _lean_name(by_cls[c]) for c in cs) + "]"

    def log(l: dict) -> str:
        if l["kind"] == "silent":
            return ".silent"
        e = "true" if l["exc"] else "false"
        if l["kind"] == "always":
            return f".always \"{l['what']}\" {e}"
        return f".unless {cls_list(l['quiet'])} \"{l['what']}\" {e}"

    def act(cl: dict) -> str:
        if cl["act"] == "swallowIf":
            return f".swallowIf .{_lean_name(by_cls[cl['arg']])}"
        return "." + cl["act"]

    L.append("def filters : List (Filter Cls) := [")
    fl = []
    for f in ex["filters"]:
        layers = []
        for layer in f["layers"]:
            cs = ", ".join(f"⟨{cls_list(cl['classes'])}, {log(cl['log'])}, {act(cl)}⟩" for cl in layer["clauses"])
            layers.append(f"⟨{'true' if layer['star'] else 'false'}, [{cs}]⟩")
        fl.append(f"  ⟨\"{f['name']}\", \"{f['site']}\",\n    [" + ",\n     ".join(layers) + f"], {'true' if f['outer'] else 'false'}⟩")
    L.append(",\n".join(fl))
    L.append("]")
    L.append("")
    L.append("def nesting : List Position := [")
    pl = []
    for p in ex["positions"]:
        fs = "[" + ", ".join(f"\"{n}\"" for n in p["filters"]) + "]"
        pl.append(f"  ⟨\"{p['kind']}\", \"{p['pos']}\", {fs}, {'true' if p['oc'] else 'false'}, {'true' if p['od'] else 'false'}⟩")
    L.append(",\n".join(pl))
    L.append("]")
    L.append("")
    L.append("end EasyNet.Gen.Iso")
    return "\n".join(L) + "\n"


FALLBACK = """/- GENERATED: translation FAILED: {why} -/
import EasyNet.Model.Iso
namespace EasyNet.Gen.Iso
open EasyNet.Iso
inductive Cls where | cException | cExceptionGroup | cBaseExceptionGroup | cBaseException | untranslatable
  deriving DecidableEq, Repr
def Cls.name : Cls → String
  | .cException => "Exception" | .cExceptionGroup => "ExceptionGroup" | .cBaseExceptionGroup => "BaseExceptionGroup"
  | .cBaseException => "BaseException" | .untranslatable => "untranslatable"
def allCls : List Cls := [.cException, .cExceptionGroup, .cBaseExceptionGroup, .cBaseException, .untranslatable]
def supers : Cls → List Cls
  | .cException => [.cException, .cBaseException]
  | .cExceptionGroup => [.cExceptionGroup, .cBaseExceptionGroup, .cException, .cBaseException]
  | .cBaseExceptionGroup => [.cBaseExceptionGroup, .cBaseException]
  | .cBaseException => [.cBaseException]
  | .untranslatable => [.untranslatable, .cException, .cBaseException]
def sub (a b : Cls) : Bool := (supers a).contains b
def K : Classes Cls := ⟨sub, .cException, .cExceptionGroup, .cBaseExceptionGroup⟩
def filters : List (Filter Cls) := [⟨"untranslatable", "-", [], true⟩]
def nesting : List Position := [⟨"tcp", "untranslatable", ["untranslatable"], false, false⟩]
end EasyNet.Gen.Iso
"""

last_error: str | None = None


def regenerate() -> bool:
    global last_error
    last_error = None
    try:
        text = render()
    except TranslateError as e:
        last_error = str(e)
        text = FALLBACK.format(why=str(e).replace("-/", "- /"))
    return core.write_if_changed(GEN, text)


def _unused() -> None:
    textwrap.dedent("")
