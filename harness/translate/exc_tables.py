def regenerate(): pass
def outside_alphabet(r): return []
