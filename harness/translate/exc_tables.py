"""
Translator for C06: regenerates lean/EasyNet/EasyNet/Gen/ExcTables.lean from /repo's current source.

For every (serializer kind, entry point, codec call site) a *pipeline* is extracted: the list of `try` statements an exception
raised at the codec call crosses on its way out (serializer method -> base-class wrapper -> protocol object -> stream consumer),
each with its `except` clauses read from the AST: the classes caught (resolved against the live module / a live instance for
`self.__attr` expressions) and what the handler does (raise a class, `pass`, bare `raise`).
The subclass relation among all classes involved is taken from the live interpreter.
The *alphabet* of a pipeline (what the wrapped library may raise there on bytes input) is declared here; the fuzzing run of C06
checks that nothing outside it was ever raised (`outside_alphabet`).
"""
from __future__ import annotations

import ast
import importlib
import inspect
import textwrap
from typing import Any

from vlib import core, sers

GEN = core.LEAN / "EasyNet" / "Gen" / "ExcTables.lean"

# ---------------------------------------------------------------------------------------------------------------------
# where the try statements are: (module, qualified function name, substring that the try *body* must contain)
# ---------------------------------------------------------------------------------------------------------------------
M = "easynetwork.serializers."
P = "easynetwork.protocol"
S = "easynetwork.lowlevel._stream"

TOP = {
    "oneshot": [(P, "DatagramProtocol.build_packet_from_datagram", "deserialize(")],
    "copy": [(P, "StreamProtocol.build_packet_from_chunks", "incremental_deserialize("),
             (S, "StreamDataConsumer.next", "consumer.send(")],
    "buffered": [(P, "BufferedStreamProtocol.build_packet_from_buffer", "buffered_incremental_deserialize("),
                 (S, "BufferedStreamDataConsumer.next", "consumer.send(")],
}
AUTOSEP = {"copy": (M + "base_stream", "AutoSeparatedPacketSerializer.incremental_deserialize", "self.deserialize("),
           "buffered": (M + "base_stream", "AutoSeparatedPacketSerializer.buffered_incremental_deserialize", "self.deserialize(")}
FIXED = {"copy": (M + "base_stream", "FixedSizePacketSerializer.incremental_deserialize", "self.deserialize("),
         "buffered": (M + "base_stream", "FixedSizePacketSerializer.buffered_incremental_deserialize", "self.deserialize(")}

UNI = ["builtins.UnicodeDecodeError"]
PICKLE_ALPHABET = ["_pickle.UnpicklingError", "builtins.EOFError", "builtins.AttributeError", "builtins.ImportError",
                   "builtins.ModuleNotFoundError", "builtins.IndexError", "builtins.KeyError", "builtins.TypeError",
                   "builtins.ValueError", "builtins.OverflowError", "builtins.MemoryError", "builtins.UnicodeDecodeError",
                   "builtins.RecursionError", "builtins.NameError", "builtins.SystemError", "builtins.NotImplementedError",
                   "builtins.AssertionError", "builtins.LookupError", "builtins.ArithmeticError"]
DESER = ["easynetwork.exceptions.DeserializeError"]

# pipelines: name -> (instance spec for resolving self.__attrs, inner sites per entry point, alphabet)
def _pipelines() -> list[dict]:
    js = {"k": "json", "use_lines": True, "limit": 65536}
    line = {"k": "line", "newline": "LF", "limit": 65536, "encoding": "utf-8"}
    out: list[dict] = []

    def add(name: str, spec: dict | None, sites: dict[str, list[tuple[str, str, str]]], alphabet: list[str]):
        for ep, inner in sites.items():
            out.append({"name": f"{name}/{ep}", "spec": spec, "sites": inner + TOP[ep], "alphabet": alphabet, "entry": ep})

    J = M + "json"
    add("json.unicode", js, {"oneshot": [(J, "JSONSerializer.deserialize", "str(")],
                             "copy": [(J, "JSONSerializer.incremental_deserialize", "str(")]}, UNI)
    add("json.decode", js, {"oneshot": [(J, "JSONSerializer.deserialize", "self.__decoder.decode(")],
                            "copy": [(J, "JSONSerializer.incremental_deserialize", "self.__decoder.decode(")]},
        ["json.decoder.JSONDecodeError", "builtins.RecursionError", "builtins.ValueError"])
    L = M + "line"
    add("line.unicode", line, {"oneshot": [(L, "StringLineSerializer.deserialize", "str(")],
                               "copy": [(L, "StringLineSerializer.incremental_deserialize", "str(")],
                               "buffered": [(L, "StringLineSerializer.buffered_incremental_deserialize", "str(")]}, UNI)
    ST = M + "struct"
    st = {"k": "struct", "format": "!IH"}
    add("struct.unpack", st, {"oneshot": [(ST, "AbstractStructSerializer.deserialize", "unpack(")],
                              "copy": [(ST, "AbstractStructSerializer.deserialize", "unpack("), FIXED["copy"]],
                              "buffered": [(ST, "AbstractStructSerializer.deserialize", "unpack("), FIXED["buffered"]]},
        ["struct.error"])
    add("ntstruct.unicode", {"k": "ntstruct"},
        {"oneshot": [(ST, "NamedTupleStructSerializer.from_tuple", "str(")],
         "copy": [(ST, "NamedTupleStructSerializer.from_tuple", "str("), FIXED["copy"]],
         "buffered": [(ST, "NamedTupleStructSerializer.from_tuple", "str("), FIXED["buffered"]]}, UNI)
    B = M + "wrapper.base64"
    b64 = {"k": "b64", "inner": js, "limit": 65536}
    add("base64.decode", b64, {"oneshot": [(B, "Base64EncoderSerializer.deserialize", "self.__decode(")],
                               "copy": [(B, "Base64EncoderSerializer.deserialize", "self.__decode("), AUTOSEP["copy"]],
                               "buffered": [(B, "Base64EncoderSerializer.deserialize", "self.__decode("), AUTOSEP["buffered"]]},
        ["binascii.Error"])
    add("autosep.inner", b64, {"oneshot": [], "copy": [AUTOSEP["copy"]], "buffered": [AUTOSEP["buffered"]]}, DESER)
    add("fixed.inner", st, {"oneshot": [], "copy": [FIXED["copy"]], "buffered": [FIXED["buffered"]]}, DESER)
    C = M + "wrapper.compressor"
    GEN_INC = (C, "AbstractCompressorSerializer.__generic_incremental_deserialize", "decompressor.decompress(")
    GEN_INNER = (C, "AbstractCompressorSerializer.__generic_incremental_deserialize", "self.__serializer.deserialize(")
    for kind, alpha in (("zlib", ["zlib.error"]), ("bz2", ["builtins.OSError"])):
        # (bz2's EOFError needs a decompress() call after eof: excluded by the `while not decompressor.eof` guard)
        spec = {"k": kind, "inner": js}
        add(f"{kind}.decompress", spec,
            {"oneshot": [(C, "AbstractCompressorSerializer.deserialize", "decompressor.decompress(")],
             "copy": [GEN_INC], "buffered": [GEN_INC]}, alpha)
        add(f"{kind}.inner", spec, {"oneshot": [], "copy": [GEN_INNER], "buffered": [GEN_INNER]}, DESER)
    PK = M + "pickle"
    add("pickle.load", {"k": "pickle"}, {"oneshot": [(PK, "PickleSerializer.deserialize", ".load()")]}, PICKLE_ALPHABET)
    FB = M + "base_stream"
    toy = {"k": "filetoy", "limit": 64}
    GEN_FB = (FB, "FileBasedPacketSerializer.__generic_incremental_deserialize", "self.load_from_file(")
    add("filebased.load", toy, {"oneshot": [(FB, "FileBasedPacketSerializer.deserialize", "self.load_from_file(")],
                                "copy": [GEN_FB], "buffered": [GEN_FB]},
        ["vlib.sers.ToyFileError", "builtins.EOFError"])
    add("limit", None, {"copy": [], "buffered": []}, ["easynetwork.exceptions.LimitOverrunError"])
    add("converter", None,
        {"oneshot": [(P, "DatagramProtocol.build_packet_from_datagram", "create_from_dto_packet(")],
         "copy": [(P, "StreamProtocol.build_packet_from_chunks", "create_from_dto_packet("),
                  (S, "StreamDataConsumer.next", "consumer.send(")],
         "buffered": [(P, "BufferedStreamProtocol.build_packet_from_buffer", "create_from_dto_packet("),
                      (S, "BufferedStreamDataConsumer.next", "consumer.send(")]},
        ["easynetwork.exceptions.PacketConversionError"])
    # converter pipelines carry their own top layers: drop the generic TOP that `add` appended
    for p in out:
        if p["name"].startswith("converter/"):
            n = len(TOP[p["entry"]])
            p["sites"] = p["sites"][:-n]
    return out


# EOFError in the incremental file-based path means "need more data" (handler body is `pass`): not an error outcome.
SWALLOW_OK = {("filebased.load/copy", "builtins.EOFError"), ("filebased.load/buffered", "builtins.EOFError")}
PARSE_ERRORS = ["easynetwork.exceptions.StreamProtocolParseError", "easynetwork.exceptions.DatagramProtocolParseError"]


class TranslateError(Exception):
    pass


def _qual(cls: type) -> str:
    return cls.__module__ + "." + cls.__qualname__


def _find_func(modname: str, qualname: str) -> tuple[ast.FunctionDef, Any, str]:
    mod = importlib.import_module(modname)
    src = inspect.getsource(mod)
    tree = ast.parse(src)
    cls_name, _, fn_name = qualname.partition(".")
    for node in tree.body:
        if isinstance(node, ast.ClassDef) and node.name == cls_name:
            for sub in node.body:
                if isinstance(sub, (ast.FunctionDef, ast.AsyncFunctionDef)) and sub.name == fn_name:
                    return sub, mod, cls_name
    raise TranslateError(f"function {modname}.{qualname} not found")


def _find_try(fn: ast.AST, needle: str, where: str) -> ast.Try:
    hits = []
    for node in ast.walk(fn):
        if isinstance(node, ast.Try):
            body_src = "\n".join(ast.unparse(b) for b in node.body)
            if needle in body_src:
                hits.append(node)
    if not hits:
        raise TranslateError(f"no try statement around {needle!r} in {where}")
    # innermost (smallest) try whose body contains the call
    hits.sort(key=lambda n: len(ast.unparse(n)))
    return hits[0]


def _resolve(expr: ast.expr, mod: Any, cls_name: str, instance: Any, fn: ast.AST) -> list[type]:
    if isinstance(expr, ast.Tuple):
        out: list[type] = []
        for e in expr.elts:
            out.extend(_resolve(e, mod, cls_name, instance, fn))
        return out
    if isinstance(expr, ast.Name):
        import builtins
        if hasattr(mod, expr.id):
            v = getattr(mod, expr.id)
        elif hasattr(builtins, expr.id):
            v = getattr(builtins, expr.id)
        else:
            raise TranslateError(f"cannot resolve exception name {expr.id}")
        return list(v) if isinstance(v, tuple) else [v]
    if isinstance(expr, ast.Attribute) and isinstance(expr.value, ast.Name) and expr.value.id == "self":
        attr = expr.attr
        if attr.startswith("__") and not attr.endswith("__"):
            attr = f"_{cls_name}{attr}"
        if instance is None:
            raise TranslateError(f"need an instance to resolve self.{expr.attr}")
        v = getattr(instance, attr)
        return list(v) if isinstance(v, tuple) else [v]
    if isinstance(expr, ast.Attribute):
        # module.attr, e.g. _JSONParser._PlainValueError
        base = _resolve(expr.value, mod, cls_name, instance, fn) if not isinstance(expr.value, ast.Name) else [getattr(mod, expr.value.id)]
        return [getattr(base[0], expr.attr)]
    raise TranslateError(f"unsupported except expression {ast.unparse(expr)}")


def _action(h: ast.ExceptHandler, mod: Any, cls_name: str, instance: Any, fn: ast.AST) -> tuple[str, type | None]:
    raises = [n for n in ast.walk(h) if isinstance(n, ast.Raise)]
    if not raises:
        # `pass`, or a handler that returns normally (e.g. StopIteration carrying the result): nothing propagates
        return "swallow", None
    classes: set[type] = set()
    for r in raises:
        if r.exc is None:
            return "reraise", None
        call = r.exc
        target = call.func if isinstance(call, ast.Call) else call
        classes.update(_resolve(target, mod, cls_name, instance, fn))
    if len(classes) != 1:
        raise TranslateError(f"handler raises several classes: {classes}")
    return "convert", classes.pop()


def extract() -> tuple[list[dict], list[type]]:
    """pipelines with resolved layers, and the list of all classes involved"""
    pipelines = _pipelines()
    classes: dict[str, type] = {}
    inst_cache: dict[str, Any] = {}

    def note(c: type) -> str:
        classes[_qual(c)] = c
        return _qual(c)

    def cls_by_name(q: str) -> type:
        modname, _, name = q.rpartition(".")
        return getattr(importlib.import_module(modname), name)

    for p in pipelines:
        key = repr(p["spec"])
        if p["spec"] is not None and key not in inst_cache:
            inst_cache[key] = sers.build(p["spec"])
        instance = inst_cache.get(key)
        layers = []
        for modname, qual, needle in p["sites"]:
            fn, mod, cls_name = _find_func(modname, qual)
            tr = _find_try(fn, needle, f"{modname}.{qual}")
            handlers = []
            for h in tr.handlers:
                if h.type is None:
                    caught = [BaseException]
                else:
                    caught = _resolve(h.type, mod, cls_name, instance, fn)
                kind, target = _action(h, mod, cls_name, instance, fn)
                handlers.append({"classes": [note(c) for c in caught], "action": kind,
                                 "target": note(target) if target is not None else None})
            layers.append({"site": f"{modname}.{qual}[{needle}]", "handlers": handlers})
        p["layers"] = layers
        for a in p["alphabet"]:
            note(cls_by_name(a))
    for q in PARSE_ERRORS + ["builtins.RuntimeError", "builtins.Exception", "builtins.BaseException"]:
        note(cls_by_name(q))
    return pipelines, list(classes.values())


def _lean_name(q: str) -> str:
    return q.replace(".", "_").replace("__", "_")


def render() -> str:
    pipelines, classes = extract()
    names = sorted({_qual(c) for c in classes})
    cls = {q: c for q, c in ((_qual(c), c) for c in classes)}
    L: list[str] = []
    L.append("/-")
    L.append("  GENERATED by harness/translate/exc_tables.py from /repo's current source on every check run — do not edit.")
    L.append("  Exception classes involved in deserialization, their live subclass relation, and for every codec call site the")
    L.append("  except-clause layers an exception crosses on its way out (read from the AST).")
    L.append("-/")
    L.append("import EasyNet.Model.ExcFlow")
    L.append("namespace EasyNet.Gen")
    L.append("")
    L.append("inductive Exc where")
    for q in names:
        L.append(f"  | {_lean_name(q)}")
    L.append("  deriving DecidableEq, Repr")
    L.append("")
    L.append("def Exc.name : Exc → String")
    for q in names:
        L.append(f"  | .{_lean_name(q)} => \"{q}\"")
    L.append("")
    L.append("def allExc : List Exc := [" + ", ".join("." + _lean_name(q) for q in names) + "]")
    L.append("")
    L.append("/-- live `issubclass(a, b)` -/")
    L.append("def supers : Exc → List Exc")
    for q in names:
        sup = [r for r in names if issubclass(cls[q], cls[r])]
        L.append(f"  | .{_lean_name(q)} => [" + ", ".join("." + _lean_name(r) for r in sup) + "]")
    L.append("")
    L.append("def sub (a b : Exc) : Bool := (supers a).contains b")
    L.append("")
    L.append("def parseErrors : List Exc := [" + ", ".join("." + _lean_name(q) for q in PARSE_ERRORS) + "]")
    L.append("")
    L.append("open EasyNet in")
    L.append("def pipelines : List (Pipeline Exc) := [")
    items = []
    for p in pipelines:
        layers = []
        for layer in p["layers"]:
            hs = []
            for h in layer["handlers"]:
                cl = "[" + ", ".join("." + _lean_name(c) for c in h["classes"]) + "]"
                if h["action"] == "convert":
                    act = f".convert .{_lean_name(h['target'])}"
                elif h["action"] == "swallow":
                    act = ".swallow"
                else:
                    act = ".reraise"
                hs.append(f"⟨{cl}, {act}⟩")
            layers.append("[" + ", ".join(hs) + "]")
        alpha = [a for a in p["alphabet"] if (p["name"], a) not in SWALLOW_OK]
        items.append(f"  ⟨\"{p['name']}\", [" + ", ".join("." + _lean_name(a) for a in alpha) + "],\n    ["
                     + ",\n     ".join(layers) + "]⟩")
    L.append(",\n".join(items))
    L.append("]")
    L.append("")
    L.append("end EasyNet.Gen")
    return "\n".join(L) + "\n"


def regenerate() -> bool:
    try:
        text = render()
    except TranslateError as e:
        # the source no longer has the shape the translator knows: emit a file that cannot satisfy the theorems
        text = ("/- GENERATED: translation FAILED: " + str(e).replace("-/", "- /") + " -/\nimport EasyNet.Model.ExcFlow\n"
                "namespace EasyNet.Gen\ninductive Exc where | untranslatable deriving DecidableEq, Repr\n"
                "def Exc.name : Exc → String | .untranslatable => \"untranslatable\"\n"
                "def allExc : List Exc := [.untranslatable]\ndef supers : Exc → List Exc | .untranslatable => []\n"
                "def sub (a b : Exc) : Bool := (supers a).contains b\ndef parseErrors : List Exc := []\n"
                "open EasyNet in\ndef pipelines : List (Pipeline Exc) := [⟨\"untranslatable\", [.untranslatable], []⟩]\n"
                "end EasyNet.Gen\n")
    return core.write_if_changed(GEN, text)


def declared_alphabet() -> set[str]:
    s: set[str] = set()
    for p in _pipelines():
        s.update(p["alphabet"])
    return s


def outside_alphabet(raised: dict[str, int]) -> list[str]:
    """classes raised by the libraries during the run (innermost causes) that no pipeline declares.
    EasyNetwork's own exception classes and the harness's are not library classes."""
    import importlib
    declared = declared_alphabet()
    decl_classes = []
    for q in declared:
        m, _, n = q.rpartition(".")
        decl_classes.append(getattr(importlib.import_module(m), n))
    out = []
    for q in raised:
        if q.startswith(("easynetwork.", "props.", "builtins.StopIteration", "builtins.RuntimeError")):
            continue
        m, _, n = q.rpartition(".")
        try:
            c = getattr(importlib.import_module(m), n)
        except Exception:
            out.append(q)
            continue
        if not any(issubclass(c, d) for d in decl_classes):
            out.append(q)
    return sorted(out)


def textwrap_unused() -> None:  # keep linters quiet about the import used for debugging dumps
    textwrap.dedent("")
