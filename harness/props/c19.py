"""
C19 — Connection racing returns one socket and leaks none.

real run : the real BaseAsyncDNSResolver.create_stream_connection -> _staggered_race_connection_impl ->
           _create_connection_impl (api "race"), or create_datagram_connection -> _create_connection_impl over the
           whole list (api "seq"), with the real AsyncIOBackend (task group, cancel scopes, events) on a virtual-time
           loop; connect_socket is the harness' (abstract method), sockets are real descriptors (vlib/c19_env.py).
model run: the observed schedule (which task stepped when, what connect_socket answered, when the caller was
           cancelled) is replayed on the Lean transition system EasyNet.Race (endriver): every step must be enabled in
           the model and produce the same observable lines (socket creation / bind / close / winner / outcome / open set).
oracle   : descriptor table of the process before/after + per-socket state: exactly the returned socket stays open,
           nothing stays open when an exception is raised; a socket is returned when an attempt succeeded and nobody
           cancelled; failure of all attempts is reported as the exception group with one OSError per failure at least;
           "all failed" is never reported (nobody cancelling, nothing crashing) when some address can be connected
           by its own configuration (socket() works, a local address of its family binds or none was asked for, connect
           answers ok); every attempt does what its OWN configuration dictates (socket / bind scan of the local list
           from the start / connect), whatever the other attempts did (attempt independence, mode tracked).
client   : api "client" (vlib/c19_client.py, oracle only): AsyncTCPNetworkClient and AsyncUDPNetworkClient on real loopback
           sockets, resolver gated for the remote and the local name; close / context exit / cancellation at every
           position of the connect, plain connects with several candidate addresses and a local address by name.
tls      : api "tls" (vlib/c19_tls.py, oracle only): AsyncTCPNetworkClient(ssl=...) = the race, then the TLS handshake on the
           winner, against a harness server which is silent / a real SSLObject peer answering at once or piece by piece /
           hostile; task.cancel, backend.timeout / move_on_after, aclose / __aexit__ from another task at every loop turn
           between "TCP connected" and "handshake finished" (also twice), handshake failures and time-outs, plain connects:
           the failure is reported and every socket is closed a bounded number of loop turns later (server side sees EOF,
           descriptor table back to the baseline, garbage collector disabled); a successful connect leaves one socket.
"""
from __future__ import annotations

import itertools
import os
from typing import Any

from vlib import core, c19_env as env

ID = "C19"
CLAIMED = True
TITLE = "Connection racing returns one socket and leaks none"
REQUIRED_THEOREMS = ["C19_one_returned", "C19_none_on_failure", "C19_at_most_one_open_after_end", "C19_open_inv", "C19_failure_nonempty", "C19_terminates",
                     "C19_progress", "C19_reorder_perm", "C19_seq_one_or_none"]
LEVEL_TEXT = (
    "Machine-checked proof (Lean 4) over the transition system of _staggered_race_connection_impl / "
    "_create_connection_impl: for every address list, every outcome of the individual attempts, every schedule of "
    "task steps, stagger expiries and caller cancellations, a returned socket is the only open one and a raised "
    "failure leaves none open; plus a trace-refinement correspondence check (every observed real schedule is replayed "
    "step by step on the model) and a direct descriptor-leak oracle on the real code."
)
LEVEL_NOTE = (
    "Trusted: Lean kernel; axioms propext, Quot.sound, Classical.choice only; the hand-written model is tied to the "
    "code by the correspondence check (sampled schedules); asyncio's TaskGroup / the CancelScope are abstracted as "
    "'children may be cancelled once the winner is set, the caller is cancelled or a child crashed' and 'the race "
    "coroutine ends only when every started child has ended' (both validated on every trace, not proved about asyncio)."
)
TECHNIQUE = "Lean 4 inductive invariant over all schedules of a labelled transition system + trace refinement check against the real code + fd-leak oracle"
TRUSTED_BASE = [
    "Lean 4.33.0 kernel; axioms allowed: propext, Classical.choice, Quot.sound",
    "hand-written model EasyNet/Model/Race.lean tied to backend/_common/dns_resolver.py by trace replay (sampled)",
    "asyncio.TaskGroup, easynetwork CancelScope / move_on_after: abstracted (cancellation of children only after winner / "
    "caller cancel / crash; join before return) — checked on every observed trace",
    "harness: virtual-time loop, scripted connect_socket, tracking socket class, /proc/self/fd reader, endriver parser",
    "client layer: real asyncio loop and loopback sockets (127.0.0.1, ::1 when usable), AsyncIOBackend subclass gating "
    "getaddrinfo; kernel loopback semantics (refused connect on a bound non-listening port, EOF visible to the peer after "
    "close, UDP connect() to 255.255.255.255 failing at once: probed)",
    "tls layer: the same plus the ssl module (OpenSSL) on both sides, the committed self-signed certificate (vlib/c14_certs), "
    "a harness server task per accepted connection on the same loop (one loop turn = one scheduling step for both sides)",
]
ASSUMPTIONS = [
    "connect_socket either returns, raises OSError, raises another exception, or is cancelled; it does not close or "
    "duplicate the socket itself",
    "socket.close() does not fail",
]
RULE = (
    "case = address list (families 4/6/other, socket() ok/fail, connect outcome ok/err/crash/hang) x local addresses "
    "(bind ok/fail per family) x stagger delay (inf/0/k ticks) x per-turn script (complete attempt i, cancel caller, "
    "advance clock); non-trivial = overlapping attempts, double success, cancellation, crash, bind/socket failure "
    "(class = first that applies); distinct by case digest; plus directed cases 'local list with a family the remote "
    "host lacks + a bindable address of the remote family, a non-first address is the good one' (race / seq, tracked / "
    "real); plus client-layer cases: protocol tcp/udp x candidate addresses (ok / refused, IPv4 / IPv6) x local address "
    "by name (bindable / not, both families) x starter (wait_connected / send_packet / recv_packet / async with) x "
    "interruption (aclose / __aexit__ / task cancel / none) x loop turn of the interruption x turns at which the resolver "
    "answers for the remote and the local name; plus TLS cases: candidate addresses x server handshake behaviour (silent / "
    "normal / piece by piece / garbage / alert / close / reset / close mid-flight / close at accept) x client context (no "
    "verification / verified / host name mismatch / untrusted) x TLS 1.2 / 1.3 x interruption (task cancel / timeout / "
    "move_on_after / aclose / __aexit__ / none, optionally a second one) x anchor (start / accepted / ClientHello received) "
    "+ loop turn x handshake timeout"
)

# ----------------------------------------------------------------------------------------------


def run_real(case: dict) -> list[str]:
    if case.get("api") == "client":
        from vlib import c19_client
        return c19_client.run_client_case(case)
    if case.get("api") == "tls":
        from vlib import c19_tls
        return c19_tls.run_tls_case(case)
    return env.run_case(case)


def _cfg_tokens(case: dict) -> tuple[str, str]:
    loc = case.get("local")
    locs = "none" if loc is None else ",".join(f"{int(l['fam'])}:{1 if l['bind'] else 0}" for l in loc)
    addrs = ",".join(f"{int(a['fam'])}:{1 if a['sock'] else 0}:{a['out']}" for a in case["addrs"])
    return locs, addrs


def real_for_diff(case: dict, real: list[str]) -> list[str]:
    return [ln for ln in real if ln != "stuck" and not ln.startswith("pendingscope ")]


def model_input(case: dict, real: list[str]):
    if case.get("api") in ("client", "tls"):
        return None       # client layers (AsyncTCPNetworkClient closing / cancelling a connect in progress, TLS twin): oracle only
    if case.get("mode", "tracked") != "tracked":
        return None       # genuine socket module: socket()/bind()/close() are not observable line by line
    locs, addrs = _cfg_tokens(case)
    seq = case.get("api", "race") == "seq"
    ops: list[str] = []
    started = False
    for ln in real:
        w = ln.split()
        if seq and not started and w[0] in ("sock", "fin"):
            started = True
            ops.append("start" if w[0] == "sock" else "abort")
        if w[0] == "spawn":
            ops.append("spawn")
        elif w[0] == "sock" and not seq:
            ops.append(f"begin {w[1]}")
        elif w[0] == "res":
            ops.append(f"res {w[2]}" if seq else f"res {w[1]} {w[2]}")
        elif w[0] == "cancel":
            ops.append("cancel")
        elif w[0] == "fin" and not seq:
            ops.append("fin ret" if w[1] == "ret" else "fin " + w[2])
        elif w[0] in ("stalled", "harness-exc"):
            ops.append("fin stalled")
    if seq:
        return f"raceseq {locs} {addrs}", ops
    return f"race {0 if case.get('delay') is None else 1} {locs} {addrs}", ops


def _parse(real: list[str]) -> dict[str, Any]:
    d: dict[str, Any] = {"fin": None, "open": None, "fds": None, "ok": [], "cancel": False, "crash": False,
                         "conn": [], "closed": [], "created": []}
    for ln in real:
        w = ln.split()
        if w[0] == "fin":
            d["fin"] = w[1:]
        elif w[0] == "open":
            d["open"] = [] if w[1] == "-" else [int(x) for x in w[1].split(",")]
        elif w[0] == "fds":
            d["fds"] = w[1:]
        elif w[0] == "res" and w[2] == "ok":
            d["ok"].append(int(w[1]))
        elif w[0] == "res" and w[2] == "crash":
            d["crash"] = True
        elif w[0] == "cancel":
            d["cancel"] = True
        elif w[0] == "conn":
            d["conn"].append(int(w[1]))
        elif w[0] == "close":
            d["closed"].append(int(w[1]))
        elif w[0] == "sock" and w[2] == "ok":
            d["created"].append(int(w[1]))
    return d


def _bindable(case: dict, fam: int) -> bool:
    """does the configuration give attempts of family `fam` a local address they can bind to (no local list = no bind)"""
    loc = case.get("local")
    if loc is None:
        return True
    return any(int(l["fam"]) == fam and bool(l["bind"]) for l in loc)


def _could_succeed(case: dict, i: int) -> bool:
    """address i ALONE (its own socket() / local addresses of its family / connect answer) yields a connected socket"""
    a = case["addrs"][i]
    fam = int(a["fam"])
    if not a["sock"] or a["out"] != "ok":
        return False
    if case.get("mode", "tracked") != "tracked":
        # genuine socket module: only the loopback families exist, IPv6 loopback must be usable on this machine
        if fam not in (4, 6) or (fam == 6 and not env.ipv6_loopback_ok()):
            return False
    return _bindable(case, fam)


def _expected_attempt_lines(case: dict, i: int) -> list[str]:
    """mode tracked: the lines attempt i produces up to (and including) the start of its connect, as determined by the
    configuration of attempt i alone (socket() outcome, the local addresses of ITS family in order, first bind that
    works ends the scan).  Nothing another attempt did may change them: attempts are independent."""
    a = case["addrs"][i]
    if not a["sock"]:
        return [f"sock {i} fail"]
    out = [f"sock {i} ok"]
    loc = case.get("local")
    if loc is not None:
        bound = False
        for j, l in enumerate(loc):
            if int(l["fam"]) != int(a["fam"]):
                continue
            out.append(f"bind {i} {j} {'ok' if l['bind'] else 'fail'}")
            if l["bind"]:
                bound = True
                break
        if not bound:
            return out
    out.append(f"conn {i}")
    return out


def _independence(case: dict, real: list[str]) -> str | None:
    """every attempt that ran did what its own configuration dictates (quantifier: bind failures x every order of
    attempts): in particular an attempt for whose family a bindable local address exists reaches its connect."""
    n = len(case["addrs"])
    seen: dict[int, list[str]] = {}
    for ln in real:
        w = ln.split()
        if w[0] in ("sock", "bind", "conn") and len(w) > 1 and w[1].isdigit():
            seen.setdefault(int(w[1]), []).append(ln)
    for i in sorted(seen):
        if not (0 <= i < n):
            return f"attempt-unknown: lines for an attempt {i} that is not in the address list"
        exp = _expected_attempt_lines(case, i)
        got = seen[i]
        if got == exp:
            continue
        a = case["addrs"][i]
        if a["sock"] and _bindable(case, int(a["fam"])) and f"conn {i}" not in got:
            return (f"attempt-not-independent: attempt {i} (family {a['fam']}) never tried to connect although a local "
                    f"address of its family can be bound: it did {got}, its own configuration dictates {exp} "
                    "(what an earlier attempt did with the local address list must not matter)")
        return f"attempt-deviates: attempt {i} did {got}, its own configuration dictates {exp}"
    return None


_lost = {"n": 0}
# the statement says "cancelled at any point => every socket closed and the failure reported": judged by default;
# VERIF_C19_STRICT_CANCEL=0 restores the old counting-only behaviour (debugging aid)
STRICT_CANCEL = os.environ.get("VERIF_C19_STRICT_CANCEL", "1") != "0"


def oracle(case: dict, real: list[str]) -> str | None:
    if case.get("api") == "client":
        from vlib import c19_client
        if any(ln.startswith("harness-exc") for ln in real):
            return f"run did not complete: {real[-1]}"
        return c19_client.oracle(case, real)
    if case.get("api") == "tls":
        from vlib import c19_tls
        if any(ln.startswith("harness-exc") for ln in real):
            return f"run did not complete: {real[-1]}"
        return c19_tls.oracle(case, real)
    if any(ln.startswith(("harness-exc", "stalled")) for ln in real):
        return f"run did not complete: {real[-1]}"
    d = _parse(real)
    fin, opn, fds = d["fin"], d["open"], d["fds"]
    deferred: str | None = None
    if "stuck" in real:
        i = real.index("stuck")
        won = [ln for ln in real[:i] if ln.startswith("res ") and ln.endswith(" ok")]
        if won and case.get("api", "race") == "race":
            return (f"attempt {won[0].split()[1]} had connected, every other scripted completion was delivered, "
                    "yet the race was still not finished (had to be cancelled by the harness)")
    if fin is None or opn is None or fds is None:
        return "no outcome observed"
    if fin[0] == "ret":
        if fin[1] == "?":
            return "returned object is not one of the sockets created during the race"
        w = int(fin[1])
        if opn != [w]:
            return f"leak: socket {w} returned but open sockets are {opn}"
        if fds != ["+1"]:
            return f"leak: socket returned but descriptor table changed by {' '.join(fds)}"
        if w not in d["ok"]:
            return f"returned socket {w} was never connected"
        if d["cancel"]:
            # task.cancel() was accepted (the task was not done) but no CancelledError came out: a cancel scope of the
            # race (stagger move_on_after / connection_scope) swallowed it in the loop turn between cancelling the
            # task itself and the task waking up (tasks.py CancelScope.__uncancel_task; open C13 finding).  Resources
            # are consistent (exactly the returned socket is open), so by default this tie is counted, not judged.
            _lost["n"] += 1
            if STRICT_CANCEL:
                # known (open finding, root cause in CancelScope.__uncancel_task): EVERY cancellation of the caller arrived
                # while a cancel request issued by a scope of the race was still outstanding on the task.  A cancellation
                # that arrived with no scope request outstanding and was lost all the same is a different failure.
                idx = [k for k, ln in enumerate(real) if ln == "cancel"]
                raced = all(k + 1 < len(real) and real[k + 1].startswith("pendingscope ") for k in idx)
                tag = "lost-cancel" if raced else "lost-cancel-no-scope-request-pending"
                # (deferred: a different, unlisted failure of the same run must not hide behind the listed one)
                deferred = (f"{tag}: the caller was cancelled during the connect, yet socket {w} was returned "
                            "(statement: cancelled at any point => every socket closed and the failure reported)")
    else:
        if opn:
            return f"leak: {' '.join(fin)} but sockets {opn} are still open"
        if fds != ["+0"]:
            return f"leak: {' '.join(fin)} but descriptor table changed by {' '.join(fds)}"
        kind = fin[1]
        if kind == "other":
            return f"unexpected exception {' '.join(fin[2:])}"
        if d["ok"] and not d["cancel"] and not d["crash"]:
            return f"attempt {d['ok'][0]} connected, nobody cancelled, yet the connect failed with {' '.join(fin[1:])}"
        if kind == "allfailed":
            if int(fin[2]) < len(case["addrs"]):
                return f"all attempts failed but only {fin[2]} errors reported for {len(case['addrs'])} addresses"
            if not d["cancel"] and not d["crash"]:
                # "exactly one connected socket is returned if any attempt succeeds": nobody cancelled, nothing crashed,
                # so every address had its attempt; one whose own configuration yields a connected socket (socket() works,
                # a local address of its family can be bound or none was asked for, connect answers ok) must have won
                can = [i for i in range(len(case["addrs"])) if _could_succeed(case, i)]
                if can:
                    a = case["addrs"][can[0]]
                    return (f"possible-connection-failed: every attempt was reported as failed ({' '.join(fin[1:])}) although "
                            f"address {can[0]} (family {a['fam']}) can be connected: socket() works, "
                            + ("no local address was asked for" if case.get("local") is None else "a local address of its family can be bound")
                            + ", connect answers ok; nobody cancelled, nothing crashed")
        if kind == "cancelled" and not d["cancel"]:
            return "CancelledError raised although the caller was not cancelled"
        if kind == "crash" and not d["crash"]:
            return "crash reported although no attempt crashed"
    # every socket created was either closed exactly once or is the returned one
    if case.get("mode", "tracked") == "tracked":
        for i in d["created"]:
            n = d["closed"].count(i)
            ret = fin[0] == "ret" and int(fin[1]) == i
            if n + (1 if ret else 0) != 1:
                return f"socket {i}: closed {n} times, returned={ret}"
        why = _independence(case, real)
        if why:
            return why
    return deferred


def nontrivial(case: dict, real: list[str]) -> str | None:
    if case.get("api") == "client":
        return f"client/{case.get('proto', 'tcp')}/{case['how']}/{case.get('then', 'none')}"
    if case.get("api") == "tls":
        return f"tls/{case.get('srv', 'silent')}/{case['how']}/{case.get('anchor', 'start') if case['how'] != 'none' else '-'}"
    d = _parse(real)
    # overlapping attempts: a conn while another one is pending
    pending, overlap = set(), False
    for ln in real:
        w = ln.split()
        if w[0] == "conn":
            if pending:
                overlap = True
            pending.add(w[1])
        elif w[0] == "res":
            pending.discard(w[1])
    tags = []
    if len(d["ok"]) >= 2:
        tags.append("double-success")
    if d["cancel"] and d["ok"]:
        tags.append("cancel+connected")
    elif d["cancel"]:
        tags.append("cancel")
    if d["crash"]:
        tags.append("crash")
    if any(ln.startswith("bind") and ln.endswith("fail") for ln in real) or any(ln.endswith("fail") and ln.startswith("sock") for ln in real):
        tags.append("bind/socket-failure")
    if overlap:
        tags.append("overlap")
    if not tags:
        return None
    return case.get("api", "race") + "/" + case.get("mode", "tracked") + "/" + "+".join(tags[:2])


def known_key(case: dict, real: list[str], why: str) -> str:
    if why.startswith("lost-cancel:"):
        return "lost-cancel,scope-cancel-request-outstanding"
    if why.startswith("lost-cancel-no-scope-request-pending:"):
        return "lost-cancel,clean"
    head = why.split(":")[0].split(" ")[0]
    return f"api={case.get('api', 'race')},why={head}"


# ----------------------------------------------------------------------------------------------

def _drop_addr(case: dict, i: int) -> dict:
    addrs = case["addrs"][:i] + case["addrs"][i + 1:]
    script = []
    for turn in case.get("script", []):
        t = []
        for a in turn:
            if a[0] == "c":
                if a[1] == i:
                    continue
                t.append(["c", a[1] - 1 if a[1] > i else a[1]])
            else:
                t.append(a)
        script.append(t)
    return {**case, "addrs": addrs, "script": script}


def shrink(case: dict):
    if case.get("api") == "tls":
        from vlib import c19_tls
        yield from c19_tls.shrink(case)
        return
    if case.get("api") == "client":
        if len(case["addrs"]) > 1:
            for i in range(len(case["addrs"])):
                yield {**case, "addrs": case["addrs"][:i] + case["addrs"][i + 1:]}
        for i, a in enumerate(case["addrs"]):
            if a.endswith("6"):
                yield {**case, "addrs": case["addrs"][:i] + [a[:-1]] + case["addrs"][i + 1:]}
        loc = case.get("local")
        if loc is not None:
            yield {**case, "local": None, "g2": case.get("g1", -1)} if "g1" in case else {**case, "local": None}
            if len(loc) > 1:
                for j in range(len(loc)):
                    yield {**case, "local": loc[:j] + loc[j + 1:]}
        if case.get("hed") is not None:
            yield {**case, "hed": None}
        if case.get("then", "none") != "none":
            yield {**case, "then": "none"}
        if case.get("how") == "exit":
            yield {**case, "how": "aclose"}
        for k in ("at", "g1", "g2"):
            if k in case and case[k] > (0 if k == "at" else -1):
                yield {**case, k: case[k] - 1}
        if case.get("release", 0) > 0:
            yield {**case, "release": case["release"] - 1}
        return
    case = {k: v for k, v in case.items() if k != "g"}
    n = len(case["addrs"])
    if n > 1:
        for i in range(n):
            yield _drop_addr(case, i)
    sc = case.get("script", [])
    for i in range(len(sc)):
        yield {**case, "script": sc[:i] + sc[i + 1:]}
    for i, t in enumerate(sc):
        for j in range(len(t)):
            yield {**case, "script": sc[:i] + [t[:j] + t[j + 1:]] + sc[i + 1:]}
    if case.get("local") is not None:
        yield {**case, "local": None}
        loc = case["local"]
        if len(loc) > 1:
            for j in range(len(loc)):
                yield {**case, "local": loc[:j] + loc[j + 1:]}
    for i, a in enumerate(case["addrs"]):
        if not a["sock"]:
            yield {**case, "addrs": case["addrs"][:i] + [{**a, "sock": True}] + case["addrs"][i + 1:]}
        if a["fam"] not in (4,):
            yield {**case, "addrs": case["addrs"][:i] + [{**a, "fam": 4}] + case["addrs"][i + 1:]}
    if case.get("mode") == "real":
        yield {**case, "mode": "tracked"}


def A(fam: int, out: str, sock: bool = True) -> dict:
    return {"fam": fam, "sock": sock, "out": out}


def corpus() -> list[dict]:
    cs: list[dict] = []
    base = {"local": None, "mode": "tracked", "api": "race"}
    # double success in the same loop turn (both orders), stagger elapsed
    cs.append({**base, "addrs": [A(6, "ok"), A(4, "ok")], "delay": 1, "script": [[], [], [["t", 1]], [], [["c", 0], ["c", 1]]]})
    cs.append({**base, "addrs": [A(6, "ok"), A(4, "ok")], "delay": 1, "script": [[], [], [["t", 1]], [], [["c", 1], ["c", 0]]]})
    # caller cancelled in the very turn the winner connects / one turn later / one turn before
    for sc in ([[], [], [["c", 0], ["x"]]], [[], [], [["x"], ["c", 0]]], [[], [], [["c", 0]], [["x"]]], [[], [], [["c", 0]], [], [["x"]]],
               [[], [], [["x"]], [["c", 0]]]):
        cs.append({**base, "addrs": [A(4, "ok"), A(6, "hang")], "delay": 0, "script": sc})
    # stagger expiry in the same turn as the winner's success and as the caller's cancellation
    cs.append({**base, "addrs": [A(6, "ok"), A(4, "ok"), A(4, "ok")], "delay": 2, "script": [[], [], [["t", 2], ["c", 0]], [], [["c", 1]]]})
    cs.append({**base, "addrs": [A(6, "hang"), A(4, "ok"), A(4, "err")], "delay": 2, "script": [[], [], [["t", 2], ["x"]], [], [["c", 1]]]})
    # caller cancelled one turn after the stagger timer cancelled the task (before it woke up): the cancellation is
    # swallowed by the move_on_after scope (open finding lost-cancel; counted, judged only with VERIF_C19_STRICT_CANCEL=1)
    cs.append({**base, "addrs": [A(6, "ok"), A(4, "ok")], "delay": 2, "script": [[], [], [["t", 2]], [["x"]], [], [["c", 1]]]})
    # all fail: socket() failure, bind failures, no matching local family, connect errors
    cs.append({**base, "addrs": [A(4, "err"), A(6, "err", False), A(7, "err"), A(4, "err")],
               "local": [{"fam": 4, "bind": False}, {"fam": 6, "bind": True}, {"fam": 4, "bind": True}], "delay": None, "script": []})
    cs.append({**base, "addrs": [A(4, "ok"), A(4, "ok")], "local": [{"fam": 4, "bind": False}, {"fam": 4, "bind": False}], "delay": 1, "script": []})
    # crash of one attempt while another one has already won
    cs.append({**base, "addrs": [A(4, "crash"), A(6, "ok")], "delay": 0, "script": [[], [], [], [["c", 0], ["c", 1]]]})
    cs.append({**base, "addrs": [A(4, "crash"), A(6, "ok")], "delay": 0, "script": [[], [], [], [["c", 1]], [["c", 0]]]})
    # immediate connects (connect_socket does not suspend)
    cs.append({**base, "addrs": [A(6, "ok"), A(4, "ok")], "delay": 0, "script": [[["c", 0], ["c", 1]]]})
    # real socket module: IPv4 + IPv6 loopback, unsupported family, non-local bind address
    cs.append({"addrs": [A(4, "ok"), A(6, "ok"), A(4, "err", False)], "mode": "real", "api": "race",
               "local": [{"fam": 4, "bind": False}, {"fam": 6, "bind": True}, {"fam": 4, "bind": True}], "delay": 1,
               "script": [[], [], [["t", 1]], [], [["c", 0], ["c", 1]]]})
    # sequential path (datagram connection)
    cs.append({**base, "api": "seq", "addrs": [A(4, "err"), A(6, "err", False), A(6, "ok"), A(4, "ok")], "delay": None, "script": []})
    cs.append({**base, "api": "seq", "addrs": [A(4, "err"), A(6, "hang")], "delay": None, "script": [[], [["c", 0]], [], [["x"]]]})
    from vlib import c19_client
    cs.extend(c19_client.corpus())
    from vlib import c19_tls
    cs.extend(c19_tls.corpus())
    return cs


def _rand_case(rng, max_addrs: int) -> dict:
    n = rng.choice([1, 2, 2, 3, 3, 3, 4][: 4 + max_addrs]) if max_addrs >= 4 else rng.randint(1, max_addrs)
    mode = "real" if rng.random() < 0.12 else "tracked"
    fams = [4, 6] if mode == "real" else [4, 4, 6, 6, 7]
    addrs = []
    for _ in range(n):
        out = rng.choice(["ok", "ok", "ok", "err", "err", "hang", "crash"] if rng.random() < 0.5 else ["ok", "err", "err", "hang"])
        addrs.append(A(rng.choice(fams), out, rng.random() >= 0.1))
    local = None
    if rng.random() < 0.35:
        local = [{"fam": rng.choice([4, 6]), "bind": rng.random() < 0.6} for _ in range(rng.randint(1, 3))]
    delay = rng.choice([None, 0, 1, 1, 2, 3])
    api = "seq" if rng.random() < 0.1 else "race"
    turns = rng.randint(0, 10)
    script = []
    cancels = 0
    for _ in range(turns):
        t: list = []
        for _ in range(rng.choice([0, 0, 1, 1, 2, 3])):
            r = rng.random()
            if r < 0.55:
                t.append(["c", rng.randrange(n)])
            elif r < 0.7 and cancels < 2:
                t.append(["x"])
                cancels += 1
            else:
                t.append(["t", rng.choice([1, 1, 2, 3])])
        script.append(t)
    return {"addrs": addrs, "local": local, "delay": delay, "script": script, "mode": mode, "api": api, "g": 1}


def _dense_case(rng) -> dict:
    """several attempts in flight at once (small stagger delay), most of them succeeding, completions / the caller's
    cancellation / the stagger expiry packed into the same or adjacent loop turns"""
    n = rng.choice([2, 2, 3, 3, 4])
    addrs = [A(rng.choice([4, 6, 6, 7]), rng.choice(["ok", "ok", "ok", "err", "crash", "hang"])) for _ in range(n)]
    delay = rng.choice([0, 0, 1, 1, 2])
    local = None
    if rng.random() < 0.2:
        local = [{"fam": rng.choice([4, 6]), "bind": rng.random() < 0.7} for _ in range(rng.randint(1, 3))]
    script: list = [[] for _ in range(rng.choice([0, 1, 2, 2, 3]))]
    if delay:
        script.append([["t", delay]])
        script.extend([[] for _ in range(rng.choice([0, 1, 2]))])
    acts: list = [["c", i] for i in range(n)]
    if rng.random() < 0.5:
        acts.append(["x"])
    if delay and rng.random() < 0.5:
        acts.append(["t", delay])
    rng.shuffle(acts)
    while acts:
        k = rng.choice([1, 1, 2, 3])
        script.append(acts[:k])
        acts = acts[k:]
        if rng.random() < 0.3:
            script.append([])
    return {"addrs": addrs, "local": local, "delay": delay, "script": script, "mode": "tracked", "api": "race", "g": 1}


def _local_case(rng) -> dict:
    """local address list given by the caller, holding a family the remote host does not have AND a bindable address of
    the remote family; >= 2 remote addresses of which a NON-first one is the one that can succeed (the earlier ones are
    refused / cannot create their socket / are slower than the stagger delay / hang); race and sequential path; tracked
    and genuine socket module.  Every attempt must scan the local list on its own."""
    api = "seq" if rng.random() < 0.4 else "race"
    mode = "real" if rng.random() < 0.15 else "tracked"
    fam = rng.choice([4, 6])
    other = 10 - fam
    n = rng.choice([2, 2, 3, 3, 4])
    good = rng.randrange(1, n)
    addrs = []
    for i in range(n):
        f = fam if (mode == "real" or rng.random() < 0.85) else rng.choice([other, 7])
        if i == good:
            addrs.append(A(fam, "ok"))
        elif i < good:
            if api == "seq":
                addrs.append(A(f, "err", rng.random() >= 0.15))
            else:
                addrs.append(A(f, rng.choice(["err", "err", "err", "hang", "ok", "crash"] if rng.random() < 0.3 else ["err", "err", "hang"]),
                               rng.random() >= 0.1))
        else:
            addrs.append(A(f, rng.choice(["ok", "err", "hang"]), rng.random() >= 0.1))
    local = [{"fam": other, "bind": rng.random() < 0.7}, {"fam": fam, "bind": True}]
    for _ in range(rng.choice([0, 0, 1, 2])):
        local.append({"fam": rng.choice([fam, fam, other]), "bind": rng.random() < 0.5})
    rng.shuffle(local)
    delay = rng.choice([None, 0, 1, 1, 2])
    script: list = [[] for _ in range(rng.choice([0, 1, 2, 3]))]
    acts: list = [["c", i] for i in range(n)]
    if delay:
        acts.extend([["t", delay]] * rng.choice([1, 2, n]))
    if rng.random() < 0.12:
        acts.append(["x"])
    rng.shuffle(acts)
    while acts:
        k = rng.choice([1, 1, 2])
        script.append(acts[:k])
        acts = acts[k:]
        if rng.random() < 0.4:
            script.append([])
    if rng.random() < 0.3:
        script = []
    return {"addrs": addrs, "local": local, "delay": delay, "script": script, "mode": mode, "api": api, "g": 1}


def generate(rng, tier: str, boost: int):
    from vlib import c19_client, c19_tls
    for _ in range((500 if tier == "quick" else 4000) * boost):
        yield c19_client.gen_case(rng)
    for _ in range((400 if tier == "quick" else 4000) * boost):
        yield c19_tls.gen_case(rng)
    for _ in range((600 if tier == "quick" else 4000) * boost):
        yield _local_case(rng)
    n = (5000 if tier == "quick" else 30000) * boost
    for _ in range(n):
        yield _dense_case(rng) if rng.random() < 0.35 else _rand_case(rng, 4)
    if tier != "quick" and boost == 1:
        # every order of completions / cancellation for 2 addresses x outcomes, delay 0 (all attempts overlap)
        outs = ["ok", "err", "crash"]
        for o0, o1 in itertools.product(outs, repeat=2):
            acts = [["c", 0], ["c", 1], ["x"]]
            for perm in itertools.permutations(acts):
                for split in range(4):
                    script = [[], [], []] + [list(perm[:split])] + [list(perm[split:])]
                    yield {"addrs": [A(6, o0), A(4, o1)], "local": None, "delay": 0, "script": script, "mode": "tracked", "api": "race"}
        # three addresses x outcomes {ok, err, hang} x every order of the three completions and the caller's cancellation
        # x every grouping of consecutive actions into loop turns x two start offsets (before / after all attempts started)
        for o in itertools.product(["ok", "err", "hang"], repeat=3):
            for perm in itertools.permutations([["c", 0], ["c", 1], ["c", 2], ["x"]]):
                for cuts in itertools.product([False, True], repeat=3):
                    turns: list = [[perm[0]]]
                    for act, new in zip(perm[1:], cuts):
                        if new:
                            turns.append([act])
                        else:
                            turns[-1].append(act)
                    for lead in (2, 4):
                        yield {"addrs": [A(6, o[0]), A(4, o[1]), A(4, o[2])], "local": None, "delay": 0,
                               "script": [[] for _ in range(lead)] + turns, "mode": "tracked", "api": "race"}


def extra_coverage(stats) -> dict:
    from vlib import c19_client, c19_tls
    return {"lost_cancel_cases": _lost["n"],
            "client_lost_cancel_in_known_window": c19_client.COUNT["lost_cancel_known_window"],
            "tls_layer": "api tls = AsyncTCPNetworkClient(ssl=...) on real loopback sockets against a harness TLS peer: oracle only",
            "tls_runs": dict(c19_tls.COUNT),
            "client_layer": "api client = AsyncTCPNetworkClient / AsyncUDPNetworkClient on real loopback sockets with a gated "
            "resolver (remote and local name): oracle only",
            "model_scope": "api race and seq in mode tracked are replayed on the Lean model; mode real (genuine socket "
            "module, AF_INET/AF_INET6 loopback) is judged by the descriptor oracle only"}
