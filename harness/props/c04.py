"""
C04 — send_packet writes exactly the packet's bytes and always terminates.

real run : the REAL transports (SocketStreamTransport with / without sendmsg, SSLStreamTransport) and the real
           StreamEndpoint.send_packet / send_all_from_iterable / send_all, over a scripted socket (partial writes,
           EAGAIN/EINTR, SSL want-read/-write, connection errors, zero-length sends), a scripted selector and a virtual
           clock (vlib/c04_env.py).  Additional oracle-only cases: real OpenSSL (SSLStreamTransport over a socketpair,
           AsyncTLSStreamTransport over an in-memory transport) and the asyncio socket adapter (vlib/c04_async.py);
           every send path of the asyncio adapter (send_all, send_all_from_iterable, AsyncStreamEndpoint.send_packet,
           AsyncTCPNetworkClient.send_packet) on a loopback TCP connection after the peer's RST / FIN / half-close or
           our own aclose(): a send that can transmit nothing must raise, never return (vlib/c04_aiofault.py).
           Every buffer is handed over as one of 12 KINDS (vlib/c04_bufs.py: bytes, bytearray, views of bytes / bytearray /
           array("H"|"I"|"Q") — items wider than a byte —, shaped casts — two dimensions —, slices with an offset, read-only):
           the chunks of send_packet / send_all_from_iterable, and the whole data given to send_all() (case["allkind"]); the
           bytes that must arrive are memoryview(x).tobytes().  The send loops of the transport ABCs themselves run under
           user-defined transports with a scripted send() (kind "bufs": partial write at every offset of every kind).
           Multi-call HISTORIES on one asyncio adapter / endpoint / client object (kind "aiohist", vlib/c04_hist.py): sends that
           park in the write flow control and are ended by cancellation / backend.timeout / move_on_after, the peer reading
           between the calls (all / part / nothing), then later sends small and big — protocol level (real adapter + protocol
           over the fake transport of vlib/c20_drive), real socketpair, loopback TCP (AsyncTCPNetworkClient).
model run: the same chunk list and scripts through the Lean model (Model/Retry.lean, Model/Send.lean) via endriver.
oracle   : bytes read by the peer are a prefix of the concatenation of the chunks (== it when the call returned),
           the call ended by itself (return / TimeoutError / connection error — never by using up the environment
           script), number of socket calls <= |data| + waits + 2, waits within the time budget; with a finite retry_interval
           every select() wait is <= retry_interval whatever the timeout (also None): a would-block condition the descriptor
           never signals (selector event `never`) is re-tried, the call never sleeps without a bound (`exhausted hang`).
           Histories: once the peer has read everything and the socket is writable every send has ended (a parked send = it never
           returns); the wire is, in order, all the bytes of every completed send and a prefix of every interrupted one.
"""
from __future__ import annotations

import array
import math
import socket
from collections import deque
from typing import Any

from vlib import core
from vlib import c04_env as env

ID = "C04"
CLAIMED = True
TITLE = "send_packet writes exactly the packet's bytes and always terminates"
REQUIRED_THEOREMS = ["C04_prefix", "C04_exact", "C04_progress", "C04_terminates", "C04_terminates_within_budget"]
LEVEL_TEXT = (
    "Machine-checked proof (Lean 4) on a statement-by-statement model of send_all, the sendmsg loop with "
    "adjust_leftover_buffer, the join fall-backs and _retry: for every chunk list (empty chunks anywhere), every script of "
    "partial writes / would-block / errors and every timeout, the bytes on the wire are a prefix of the concatenation "
    "(equal on success), the number of socket calls is bounded by |data| + waits + 2 and the waits fit the budget; "
    "plus differential correspondence of the model against the real transports under scripted sockets, plus a direct oracle."
)
LEVEL_NOTE = (
    "Trusted: Lean kernel (axioms propext, Quot.sound, Classical.choice only); the hand-written model is tied to the code by "
    "the sampled correspondence check; environment laws are hypotheses (a send of >=1 offered bytes that succeeds reports "
    ">=1 byte; a zero-length send returns 0). Kernel send buffers, OpenSSL's record writer and asyncio's transport write "
    "are exercised by oracle-only cases, not modelled."
)
TECHNIQUE = "Lean 4 theorems (induction over environment scripts with loop invariants) + model/code differential correspondence under scripted sockets + direct oracle"
TRUSTED_BASE = [
    "Lean 4.33.0 kernel; axioms allowed: propext, Classical.choice, Quot.sound",
    "hand-written models EasyNet/Model/{Retry,Send}.lean tied to lowlevel/api_sync/transports/{abc,socket,base_selector}.py and "
    "lowlevel/_utils.py (adjust_leftover_buffer, ElapsedTime) by this correspondence check (sampled, not proved)",
    "harness: scripted socket / selector / virtual clock (vlib/c04_env.py), canonicaliser, endriver line parser",
    "CPython memoryview/deque/islice semantics; socket, ssl, selectors modules; the kernel (exercised, not modelled)",
]
ASSUMPTIONS = [
    "environment law: a successful send/sendmsg of >= 1 offered bytes reports >= 1 byte (POSIX stream sockets); a zero-length send reports 0",
    "SC_IOV_MAX >= 1 when the sendmsg path is taken (the code checks it)",
    "termination is stated as: the call never uses up an environment script that still holds |data| + waits + 2 answers",
]
RULE = (
    "case = transport (sendmsg | no sendmsg | TLS) x SC_IOV_MAX x entry point (send_packet | send_all_from_iterable | send_all) x chunk list "
    "(empty chunks in any position) x kind of buffer (bytes, bytearray, views of bytes/bytearray/array H,I,Q, 2-D casts, offset slices, read-only; "
    "also for the single buffer given to send_all) x timeout x retry_interval x socket script x selector script "
    "(ready / expired / never-ready descriptor; no time budget x finite retry_interval over-sampled); "
    "non-trivial = a partial write, a would-block, an error or an empty chunk occurred; distinct by full case digest; "
    "plus oracle-only cases on real sockets / OpenSSL / asyncio, among them every send path of the asyncio adapter x fault "
    "(peer RST, FIN, half-close, own aclose, none) x noticed by the event loop before the send or not x sends in a row; "
    "user-defined transports (blocking ABC with scripted send(), zero-copy override, async ABC) x entry point x kind of buffer x a partial "
    "write at every offset; histories on one asyncio adapter / endpoint / client: 2-8 sends x ended by cancel / timeout / move_on_after "
    "while parked or not x peer reads all / part / nothing in between x later sends small / big x protocol level / socketpair / loopback TCP"
)

REAL_KINDS = ("realsock", "openssl", "atls", "aio", "aiofault", "bufs", "aiohist")   # oracle-only cases (no model run)
#            (vlib/c04_async.py; "aiofault" = asyncio adapter send paths after RST / FIN / aclose: vlib/c04_aiofault.py;
#             "bufs" = the send loops of the transport ABCs under every kind of buffer: vlib/c04_bufs.py;
#             "aiohist" = multi-call HISTORIES on one asyncio adapter / endpoint / client object: vlib/c04_hist.py)
_SUB = {"aiofault": "c04_aiofault", "bufs": "c04_bufs", "aiohist": "c04_hist", "clientlock": "c04_clientlock"}


def _sub(case: dict):
    """module that owns an oracle-only case kind with its own run_real / oracle / nontrivial / shrink / known_key"""
    name = _SUB.get(case.get("kind"))
    if name is None:
        return None
    import importlib

    return importlib.import_module("vlib." + name)

_FIX: bool | None = None


def code_is_fixed() -> bool:
    """does the tree under test drop exhausted empty views (docs/C04-fix-1.patch)?  decides which model variant mirrors it"""
    global _FIX
    if _FIX is None:
        from easynetwork.lowlevel._utils import adjust_leftover_buffer

        d = deque([memoryview(b"")])
        adjust_leftover_buffer(d, 0)
        _FIX = not d
    return _FIX


# ----------------------------------------------------------------------------------------------------------------
# real run
# ----------------------------------------------------------------------------------------------------------------

def _mk_chunk(h: str, kind: str):
    """the chunk as a buffer of the given kind (vlib/c04_bufs.mk_buffer: bytes, bytearray, views of bytes / bytearray / array("H"|"I"|"Q"),
    shaped casts, slices); a kind that does not fit the length falls back to bytes"""
    from vlib import c04_bufs

    return c04_bufs.mk_buffer(bytes.fromhex(h) if h != "-" else b"", kind)


def _serializer():
    from easynetwork.serializers.abc import AbstractIncrementalPacketSerializer

    class ChunkSerializer(AbstractIncrementalPacketSerializer):
        """packet = list of chunks; incremental_serialize yields them unchanged"""

        def serialize(self, packet):
            return b"".join(packet)

        def deserialize(self, data):
            return [data]

        def incremental_serialize(self, packet):
            yield from packet

        def incremental_deserialize(self):
            data = yield
            return [data], b""

    return ChunkSerializer()


class _Patched:
    def __init__(self, iov: int) -> None:
        self.iov = iov

    def __enter__(self):
        from easynetwork.lowlevel import constants

        self.c = constants
        self.old = constants.SC_IOV_MAX
        constants.SC_IOV_MAX = self.iov

    def __exit__(self, *a):
        self.c.SC_IOV_MAX = self.old


def make_transport(tr: str, ri: float, w: env.World, a: socket.socket):
    from easynetwork.lowlevel.api_sync.transports.socket import SocketStreamTransport, SSLStreamTransport

    if tr == "tls":
        ctx = env.FakeSSLContext(w)
        t = SSLStreamTransport(a, ctx, ri, selector_factory=w.selector_factory, server_side=False, server_hostname="x",
                               standard_compatible=False)
        return t, ctx.wrapped
    cls = env.ScriptedSocket if tr == "sendmsg" else env.ScriptedSocketNoSendmsg
    s = cls(w, a)
    return SocketStreamTransport(s, ri, selector_factory=w.selector_factory), s


def run_real(case: dict) -> list[str]:
    sub = _sub(case)
    if sub is not None:
        return sub.run_real(case)
    if case.get("kind") in REAL_KINDS:
        from vlib import c04_async

        return c04_async.run_real(case)
    from easynetwork.lowlevel.api_sync.endpoints.stream import StreamEndpoint
    from easynetwork.protocol import StreamProtocol

    w = env.World(case["sock"], case["sel"])
    a, b = socket.socketpair()
    ssock = None
    try:
        ri = math.inf if case["ri"] is None else float(case["ri"])
        tmo = case["timeout"]
        chunks = [_mk_chunk(h, k) for h, k in zip(case["chunks"], case["kinds"])]
        exc: BaseException | None = None
        with w.installed(), _Patched(case["iov"]):
            transport, ssock = make_transport(case["tr"], ri, w, a)
            t0 = w.clock.now
            try:
                if case["entry"] == "packet":
                    ep = StreamEndpoint(transport, StreamProtocol(_serializer()), 1024)
                    ep.send_packet(chunks, timeout=None if tmo is None else float(tmo))
                elif case["entry"] == "iterable":
                    transport.send_all_from_iterable(iter(chunks), math.inf if tmo is None else float(tmo))
                else:
                    # the whole data as ONE buffer of kind `allkind` (send_all is typed bytes | bytearray | memoryview)
                    whole = _mk_chunk(core.hexs(_data(case)), case.get("allkind", "b"))
                    transport.send_all(whole, math.inf if tmo is None else float(tmo))
            except KeyboardInterrupt:
                raise
            except BaseException as e:  # noqa: BLE001 — every way of ending is an observable
                exc = e
            elapsed = w.clock.now - t0
        wire = env.drain_peer(b)
        lines = list(w.log)
        if wire != bytes(w.wire):
            lines.append("harness-wire-mismatch")
        lines += [f"wire {core.hexs(wire)}", env.outcome_line(exc), f"time {env.ticks(elapsed)}"]
        return lines
    finally:
        for s in (ssock, a, b):
            try:
                if s is not None:
                    s.close()
            except OSError:
                pass


# ----------------------------------------------------------------------------------------------------------------
# model
# ----------------------------------------------------------------------------------------------------------------

def model_input(case: dict, real: list[str]):
    if case.get("kind") == "clientlock":
        from vlib import c04_clientlock

        return c04_clientlock.model_input(case, real)     # the C11 `tmo` model (clientSend / udpClientSend)
    if case.get("kind") in REAL_KINDS:
        return None
    t = "inf" if case["timeout"] is None else str(case["timeout"])
    ri = "inf" if case["ri"] is None else str(case["ri"])
    head = f"send {case['tr']} {case['entry']} {1 if code_is_fixed() else 0} {case['iov']} {t} {ri}"
    ops = [f"chunk {h}" for h in case["chunks"]]
    ops += [f"sock {k} {n} {p}" for k, n, p in case["sock"]]
    # `never d` (the descriptor never signals; only bounded waits come back) is `expired d` for the model: the code under test
    # must never meet it with an unbounded wait (generated only with a finite retry_interval or a finite timeout)
    ops += [f"sel {'expired' if k == 'never' else k} {d}" for k, d in case["sel"]]
    return head, ops


# ----------------------------------------------------------------------------------------------------------------
# oracle — the property itself, on the real outputs
# ----------------------------------------------------------------------------------------------------------------

def _data(case: dict) -> bytes:
    return b"".join(bytes.fromhex(h) if h != "-" else b"" for h in case["chunks"])


def _get(real: list[str], prefix: str) -> str | None:
    for ln in real:
        if ln.startswith(prefix + " ") or ln == prefix:
            return ln[len(prefix):].strip()
    return None


def oracle(case: dict, real: list[str]) -> str | None:
    sub = _sub(case)
    if sub is not None:
        return sub.oracle(case, real)
    if case.get("kind") in REAL_KINDS:
        from vlib import c04_async

        return c04_async.oracle(case, real)
    for ln in real:
        if ln.startswith("harness-"):
            return f"harness problem: {ln}"
    data = _data(case)
    wire_s, out, tm = _get(real, "wire"), _get(real, "out"), _get(real, "time")
    if wire_s is None or out is None or tm is None:
        return f"incomplete observation {real[-3:]}"
    wire = bytes.fromhex(wire_s) if wire_s != "-" else b""
    if not data.startswith(wire):
        return f"bytes on the wire {wire.hex()} are not a prefix of the packet's bytes {data.hex()} (duplicated, dropped or reordered)"
    if out == "ok" and wire != data:
        return f"send returned but the peer got {wire.hex() or '-'} instead of {data.hex() or '-'}"
    calls = [ln for ln in real if ln.startswith("call ")]
    selects = [ln for ln in real if ln.startswith("select ")]
    if out == "exhausted sock":
        return (f"the call does not terminate: it consumed all {len(case['sock'])} socket answers for {len(data)} bytes "
                f"and {len(selects)} waits (spin)")
    # retry_interval ("the maximum wait time to wait for a blocking operation before retrying"): with a finite retry interval
    # every select() is bounded by it WHATEVER the timeout (also None) — this is what guarantees that a would-block condition
    # the descriptor never signals (TLS want-read during a write, ...) is still re-tried instead of blocking for ever
    if case["ri"] is not None:
        for ln in selects:
            w = ln.split()[2]
            if w == "inf" or float(w) > case["ri"]:
                return (f"select() {'without any timeout' if w == 'inf' else 'for ' + w + ' ticks'} although retry_interval={case['ri']} "
                        f"(timeout={case['timeout']}): the operation is not re-tried every retry_interval; a condition the "
                        "descriptor never signals blocks the call for ever")
    if out == "exhausted hang":
        if case["ri"] is None and case["timeout"] is None:
            return None     # no budget, no retry interval, a descriptor that never signals: waiting for ever is what was asked for
        return ("the call blocks for ever: select() without timeout on a descriptor that never signals the awaited condition "
                f"(timeout={case['timeout']}, retry_interval={case['ri']})")
    if out == "exhausted sel":
        return f"more waits ({len(selects)}) than the environment blocked the call"
    if out == "rterr":
        # documented reaction (RuntimeError) to an environment that returns no event from a select() without timeout
        last = case["sel"][len(selects) - 1] if selects else None
        if selects and selects[-1].split()[2] == "inf" and last and last[0] == "expired":
            return None
        return "RuntimeError('timeout error with infinite timeout') without an empty unbounded select()"
    if out not in ("ok", "timeout", "err reset", "err pipe"):
        return f"unexpected way of ending: {out}"
    if len(calls) > len(data) + len(selects) + 2:
        return f"{len(calls)} socket calls for {len(data)} bytes and {len(selects)} waits"
    consumed = case["sock"][:len(calls)]
    if out.startswith("err"):
        reported = {"zeroret": "reset"}.get(consumed[-1][0], consumed[-1][0]) if consumed else None
        if reported != out.split()[1]:
            return f"{out} although the socket did not report it"
    # time budget (C11 gives the general statement; here: this call)
    T = case["timeout"]
    waits = []
    for ln, ev in zip(selects, case["sel"]):
        w = ln.split()[2]
        if w == "inf":
            if T is not None:
                return "unbounded select() although the call has a finite timeout"
            continue
        wv = int(w)
        el = ev[1] if ev[0] == "ready" else wv + ev[1]
        waits.append((wv, el))
    if T is not None:
        if T == 0 and selects:
            return "zero timeout but the call waited in select()"
        if sum(min(wv, el) for wv, el in waits) > T:
            return f"waited {sum(min(wv, el) for wv, el in waits)} ticks in select() with a timeout of {T}"
        over = sum(max(0, el - wv) for wv, el in waits)
        proc = sum(e[2] for e in consumed)
        if int(tm) > T + proc + over:
            return f"call took {tm} ticks: more than timeout {T} + processing {proc} + select over-sleep {over}"
    if out == "timeout":
        if T is None:
            return "TimeoutError without a timeout"
        if not consumed or consumed[-1][0] not in env.BLOCK_KINDS:
            return "TimeoutError although the last socket call did not block"
        if int(tm) < T:
            return f"TimeoutError after {tm} ticks with a budget of {T}"
    return None


def nontrivial(case: dict, real: list[str]) -> str | None:
    sub = _sub(case)
    if sub is not None:
        return sub.nontrivial(case, real)
    if case.get("kind") in REAL_KINDS:
        from vlib import c04_async

        return c04_async.nontrivial(case, real)
    calls = [ln for ln in real if ln.startswith("call ")]
    consumed = case["sock"][:len(calls)]
    data = _data(case)
    tags = []
    if any(h == "-" for h in case["chunks"]):
        tags.append("empty-chunk")
    if any(e[0] == "sent" and e[1] < int(c.split()[1]) for e, c in zip(consumed, calls)):
        tags.append("partial")
    if any(e[0] in env.BLOCK_KINDS for e in consumed):
        tags.append("block")
    if any(e[0] in ("reset", "pipe", "zeroret") for e in consumed):
        tags.append("error")
    if not tags or not (data or case["chunks"]):
        return None
    return f"{case['tr']}/{case['entry']}/" + "+".join(tags)


def shrink(case: dict):
    sub = _sub(case)
    if sub is not None:
        yield from sub.shrink(case)
        return
    if case.get("kind") in REAL_KINDS:
        n = len(case["chunks"])
        for i in range(n if n > 1 else 0):   # never down to "no chunk at all": that is a different failure
            yield {**case, "chunks": case["chunks"][:i] + case["chunks"][i + 1:], "kinds": case["kinds"][:i] + case["kinds"][i + 1:]}
        if any(k != "b" for k in case["kinds"]):
            for i, k in enumerate(case["kinds"]):
                if k != "b":
                    yield {**case, "kinds": case["kinds"][:i] + ["b"] + case["kinds"][i + 1:]}
        if case.get("allkind", "b") != "b" and case.get("entry") == "all":
            yield {**case, "allkind": "b"}
        return
    n = len(case["chunks"])
    for i in range(n):
        yield {**case, "chunks": case["chunks"][:i] + case["chunks"][i + 1:], "kinds": case["kinds"][:i] + case["kinds"][i + 1:]}
    for i, h in enumerate(case["chunks"]):
        if h != "-" and len(h) > 2:
            yield {**case, "chunks": case["chunks"][:i] + [h[:2]] + case["chunks"][i + 1:],
                   "kinds": case["kinds"][:i] + ["b"] + case["kinds"][i + 1:]}
    if any(k != "b" for k in case["kinds"]):
        yield {**case, "kinds": ["b"] * n}
    if case.get("allkind", "b") != "b":
        yield {**case, "allkind": "b"}
    sock = case["sock"]
    for i in range(len(sock)):
        if sock[i][0] != "sent" or sock[i][1] < 1000:
            yield {**case, "sock": sock[:i] + sock[i + 1:]}
    for i, e in enumerate(sock):
        if e[2]:
            yield {**case, "sock": sock[:i] + [[e[0], e[1], 0]] + sock[i + 1:]}
    sel = case["sel"]
    for i in range(len(sel)):
        yield {**case, "sel": sel[:i] + sel[i + 1:]}
    if case["entry"] != "iterable":
        yield {**case, "entry": "iterable"}
    never = any(e[0] == "never" for e in sel)     # never-ready descriptor: keep one of the two bounds (see oracle)
    if case["timeout"] is not None and not (never and case["ri"] is None):
        yield {**case, "timeout": None}
    if case["ri"] is not None and not (never and case["timeout"] is None):
        yield {**case, "ri": None}
    if case["iov"] != 1024 and case["iov"] > 0:
        yield {**case, "iov": 1024}


def known_key(case: dict, real: list[str], why: str) -> str:
    sub = _sub(case)
    if sub is not None:
        return sub.known_key(case, real, why)
    if case.get("kind") in REAL_KINDS:
        if case["kind"] == "aio" and "close hang" in real and "-" in case["chunks"]:
            return "path=asyncio-adapter,empty-buffer-left-in-transport,spin"
        if case["kind"] == "aio" and "out exc AssertionError" in real and all(c == "-" for c in case["chunks"]) \
                and case["entry"] != "all":
            return "path=asyncio-adapter,nothing-to-write,AssertionError"
        return f"kind={case['kind']}"
    out = _get(real, "out") or "?"
    chunks = case["chunks"]
    trailing_empty = bool(chunks) and chunks[-1] == "-"
    lead = 0
    for h in chunks:
        if h != "-":
            break
        lead += 1
    spin = why.startswith("the call does not terminate") or " socket calls for " in why
    if case["tr"] == "sendmsg" and case["iov"] > 0 and case["entry"] != "all" and spin and "-" in chunks:
        return "path=sendmsg,empty-view-left-in-deque,spin"
    return f"tr={case['tr']},entry={case['entry']},out={out.replace(' ', '-')}"


# ----------------------------------------------------------------------------------------------------------------
# cases
# ----------------------------------------------------------------------------------------------------------------

def _pad(data_len: int) -> list:
    return [["sent", 100000, 0] for _ in range(data_len + 4)]


def _case(tr, entry, chunks, sock, sel, timeout=None, ri=None, iov=1024, kinds=None, allkind="b") -> dict:
    n = sum(len(c) for c in chunks)
    return {"tr": tr, "iov": iov, "entry": entry, "chunks": [core.hexs(c) for c in chunks],
            "kinds": kinds or ["b"] * len(chunks), "allkind": allkind, "timeout": timeout, "ri": ri,
            "sock": [list(e) for e in sock] + _pad(n), "sel": [list(e) for e in sel]}


def _bufkind_corpus() -> list[dict]:
    """every kind of buffer x every transport x every entry point, the FIRST write partial at every offset (then 1-byte and
    complete writes, a would-block in between): `send_all(data)` gets the whole data as one buffer of that kind, the iterable /
    the serializer yields a header, the buffer and empty buffers of that kind"""
    from vlib import c04_bufs

    cs = []
    data = bytes(range(0x41, 0x51))     # 16 bytes: fits array("H" | "I" | "Q") and the shaped casts
    for tr in ("sendmsg", "join", "tls"):
        blk = "eagain" if tr != "tls" else "wantw"
        for kind in c04_bufs.BUF_KINDS:
            if kind == "b":
                continue
            for k in range(1, 16):
                cs.append(_case(tr, "all", [data], [("sent", k, 0), ("sent", 1, 0), (blk, 0, 0), ("sent", 3, 0)], [("ready", 0)],
                                timeout=None, ri=None, allkind=kind))
                if k % 2 or kind in c04_bufs.WIDE_KINDS:
                    cs.append(_case(tr, "iterable" if k % 4 else "packet", [b"hd", data, b"", b"t"],
                                    [("sent", 2 + k, 0), ("sent", 1, 0), (blk, 0, 0), ("sent", 5, 0)], [("ready", 0)],
                                    timeout=9, ri=2, kinds=["b", kind, kind, "mv"], iov=1024 if k % 3 else 2))
    return cs


def corpus() -> list[dict]:
    from vlib import c04_clientlock

    cs = list(c04_clientlock.corpus())
    # the same critical chunk lists on the real kernel / OpenSSL / asyncio (oracle only)
    for kind in ("realsock", "openssl", "atls", "aio"):
        for chunks in (["616263", "-"], ["-"], ["-", "6162", "-", "63", "-"], []):
            cs.append({"kind": kind, "chunks": chunks, "kinds": ["b"] * len(chunks), "seed": 7, "entry": "iterable",
                       "timeout": None, "sendmsg": True})
    # every send path of the asyncio adapter after the peer's RST / FIN / half-close / our own aclose(), the fault noticed
    # by the event loop before the send or not (oracle only)
    from vlib import c04_aiofault

    cs.extend(c04_aiofault.corpus())
    for tr in ("sendmsg", "join", "tls"):
        # F2: trailing empty chunk, lone empty chunk, only empty chunks, no chunk at all — with and without a timeout
        cs.append(_case(tr, "iterable", [b"abc", b""], [], []))
        cs.append(_case(tr, "packet", [b"abc", b""], [], [], timeout=1))
        cs.append(_case(tr, "iterable", [b""], [], [], timeout=1))
        cs.append(_case(tr, "packet", [b"", b"", b""], [], []))
        cs.append(_case(tr, "iterable", [], [], []))
        cs.append(_case(tr, "iterable", [b"", b"ab", b"", b"c", b""], [("sent", 1, 0), ("sent", 1, 0)], []))
        # partial writes ending exactly at a chunk boundary followed by empty chunks
        cs.append(_case(tr, "iterable", [b"ab", b"", b"", b"cd"], [("sent", 2, 0), ("eagain" if tr != "tls" else "wantw", 0, 0), ("sent", 1, 0)],
                        [("ready", 1)], timeout=4, ri=2))
        # would-block with zero timeout; expiry of the whole budget; retry-interval wake-ups
        blk = "eagain" if tr != "tls" else "wantr"
        cs.append(_case(tr, "packet", [b"abcd"], [("sent", 2, 0), (blk, 0, 0)], [], timeout=0))
        cs.append(_case(tr, "packet", [b"abcd"], [("sent", 2, 1), (blk, 0, 0), (blk, 0, 0), (blk, 0, 0)],
                        [("expired", 0), ("expired", 0), ("expired", 0)], timeout=5, ri=2))
        cs.append(_case(tr, "packet", [b"abcd"], [(blk, 0, 0), ("sent", 1, 0), (blk, 0, 0), ("sent", 9, 0)],
                        [("ready", 3), ("ready", 0)], timeout=None, ri=None))
        cs.append(_case(tr, "iterable", [b"ab", b"cd"], [("sent", 1, 0), ("reset", 0, 0)], []))
        # NO time budget, finite retry_interval, a would-block condition the descriptor NEVER signals (selector: only expiries):
        # the retry-interval wake-ups alone get the operation going again: k blocks = k waits of retry_interval, then it completes
        for entry in ("packet", "iterable", "all"):
            for ri_ in (1, 3):
                for bk in (("eagain", "eintr") if tr != "tls" else ("wantr", "wantw", "sysc")):
                    cs.append(_case(tr, entry, [b"ab", b"", b"cd"], [(bk, 0, 0), (bk, 0, 1), ("sent", 3, 0), (bk, 0, 0)],
                                    [("never", 0), ("never", 1), ("never", 0)], timeout=None, ri=ri_))
        # the same with a finite budget: the waits are min(retry_interval, what is left), then TimeoutError
        cs.append(_case(tr, "packet", [b"abcd"], [(blk, 0, 0)] * 6, [("never", 0)] * 6, timeout=5, ri=2))
    # SC_IOV_MAX windows: more buffers than the window, a window made of empty views only
    cs.append(_case("sendmsg", "iterable", [b"a", b"b", b"c", b"d", b"e"], [], [], iov=2))
    cs.append(_case("sendmsg", "iterable", [b"", b"", b"x"], [], [], iov=2))
    cs.append(_case("sendmsg", "iterable", [b"", b"", b"", b"xy", b""], [("sent", 1, 0)], [], iov=3, timeout=2))
    cs.append(_case("sendmsg", "iterable", [b"ab", b"cd"], [], [], iov=0))
    cs.append(_case("sendmsg", "iterable", [b"ab", b"cdef"], [("sent", 3, 0)], [], kinds=["mv", "mvH"]))
    # kinds of buffer (itemsize != 1, two dimensions, offsets): a partial write at every offset
    cs.extend(_bufkind_corpus())
    from vlib import c04_bufs, c04_async, c04_hist

    cs.extend(c04_bufs.corpus())
    cs.extend(c04_async.corpus())
    cs.extend(c04_hist.corpus())
    return cs


def gen_scripts(rng, tr: str, n: int, timeout, ri):
    blocks = ["eagain", "eintr"] if tr != "tls" else ["wantr", "wantw", "sysc"]
    errs = ["reset", "pipe"] if tr != "tls" else ["reset", "zeroret"]
    sock, sel = [], []
    style = rng.random()
    p_block = 0.0 if style < 0.2 else rng.choice([0.15, 0.3, 0.5])
    p_err = 0.04 if rng.random() < 0.3 else 0.0
    for _ in range(rng.randint(0, n + 4)):
        r = rng.random()
        p = rng.choice([0, 0, 0, 0, 1, 2])
        if r < p_block:
            sock.append([rng.choice(blocks), 0, p])
        elif r < p_block + p_err:
            sock.append([rng.choice(errs), 0, p])
        else:
            sock.append(["sent", rng.choice([1, 1, 1, 2, 3, 5, 100000]), p])
    nblocks = sum(1 for e in sock if e[0] in env.BLOCK_KINDS)
    unbounded = timeout is None and ri is None
    if not unbounded and rng.random() < 0.15:
        # the descriptor never signals the awaited condition: only bounded waits (retry_interval / rest of the budget) end
        return sock, [["never", rng.choice([0, 0, 0, 1])] for _ in range(nblocks + 1)]
    for _ in range(nblocks + 1):
        r = rng.random()
        if r < (0.97 if unbounded else 0.6):
            sel.append(["ready", rng.choice([0, 0, 1, 1, 2, 3])])
        else:
            sel.append(["expired", rng.choice([0, 0, 0, 1])])
    return sock, sel


def gen_chunks(rng):
    style = rng.random()
    if style < 0.08:
        lens = [0] * rng.randint(0, 3)
    else:
        lens = [rng.choice([0, 0, 1, 1, 2, 3, 4, 6, 8]) for _ in range(rng.randint(1, 6))]
        if rng.random() < 0.3:
            lens.append(0)
        if rng.random() < 0.15:
            lens = [0] * rng.randint(1, 3) + lens
    chunks, nxt = [], 1
    for ln in lens:
        chunks.append(bytes((nxt + i) % 251 + 1 for i in range(ln)))
        nxt += ln
    from vlib import c04_bufs

    kinds = []
    for c in chunks:
        k = rng.choice(("b", "b", "b", "b") + c04_bufs.BUF_KINDS)
        kinds.append(k if c04_bufs.fits(k, len(c)) else rng.choice(["b", "ba", "mv", "mvsl"]))
    return chunks, kinds


def generate(rng, tier: str, boost: int):
    n = (7000 if tier == "quick" else 80000) * boost
    if boost > 1:
        n = min(n, 100000)  # escalated failing-input search: keep it well under a minute
    from vlib import c04_bufs

    for _ in range(n):
        tr = rng.choice(["sendmsg", "sendmsg", "join", "tls"])
        chunks, kinds = gen_chunks(rng)
        total = sum(len(c) for c in chunks)
        timeout = rng.choice([None, None, 0, 1, 2, 3, 5, 8])
        ri = rng.choice([None, None, 1, 2, 3, 5])
        if rng.random() < 0.08:
            timeout, ri = None, rng.choice([1, 2, 3, 5])     # no time budget x finite retry interval (the clients' default)
        iov = rng.choice([1024, 1024, 1, 2, 3, -1, 0]) if tr == "sendmsg" else 1024
        entry = rng.choice(["packet", "iterable", "iterable", "all"])
        sock, sel = gen_scripts(rng, tr, total, timeout, ri)
        allkind = "b"
        if entry == "all":
            allkind = rng.choice([k for k in c04_bufs.BUF_KINDS if c04_bufs.fits(k, total)])
        yield _case(tr, entry, chunks, sock, sel, timeout, ri, iov, kinds, allkind)
    from vlib import c04_async, c04_aiofault, c04_hist

    yield from c04_bufs.generate(rng, tier, boost)
    yield from c04_async.generate(rng, tier, boost)
    yield from c04_aiofault.generate(rng, tier, boost)
    yield from c04_hist.generate(rng, tier, boost)
    from vlib import c04_clientlock

    yield from c04_clientlock.generate(rng, tier, boost)


def extra_coverage(stats) -> dict:
    return {"code_variant": "adjust_leftover_buffer drops exhausted empty views (C04-fix-1 applied)" if code_is_fixed()
            else "unpatched adjust_leftover_buffer (model run with fix=0; the theorems are about fix=1)",
            "oracle_only": "real OpenSSL (sync and async TLS), asyncio adapter, user-defined transport (bufs) and history (aiohist) "
                           "cases are judged by the oracle only",
            "buffer_kinds": list(_bufkinds()),
            "buffer_kinds_not_drawn (refused by the interpreter itself before a byte moves)": _rejected()}


def _bufkinds():
    from vlib import c04_bufs

    return c04_bufs.BUF_KINDS


def _rejected():
    from vlib import c04_bufs

    return c04_bufs.rejected_kinds()
