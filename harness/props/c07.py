"""
C07 — Receive buffering is bounded by the configured limit.

case    : framer (separator: line / AutoSeparated subclass / JSON lines; raw JSON; file-based toy) x payload length n swept
          from 0 to limit+|sep|+read x terminated or not x cuts x path x hint
real run: real consumers; a `read <n>` line before the items of each read; `room <n>` = size of the write buffer offered
model   : Lean consumer+framer models (separator framers; fixed-size) on the same reads
oracle  : (a) unterminated data: by the time more than limit + |sep| + one read has been received without a complete frame,
              a limit error has been raised; the buffered path never offers more than `limit` bytes of buffer;
          (b) a frame safely under the limit (table of DESIGN.md C07) is delivered, never rejected for its size;
          (c) a frame too large to be held (payload > limit + |sep| + largest read) is never delivered whole.
session 3: file toys with every expected_load_error set (narrow, Exception, tuples holding Exception / DeserializeError: the wide
          ones cover the library's own LimitOverrunError), peeking and read-ahead loaders, debug=True; `follow` = number of small
          frames pipelined behind the frame under test (several documents in one read); the drive loop has an item budget
          (`loop` = an error that consumes nothing is reported for ever); delivered packets are retained and re-rendered.
session 4: limits ABOVE the default read size (20000, 40000, 65536) with buffer hints below and above them and frames at 16 KiB +- 1
          and at the edge of the accepted zone, for every buffered serializer family incl. base64 (new framer kind here) and file
          toys with a 2..4-byte length header (`_big_limits`; model runs of big frames are sub-sampled); options that leave the
          framing alone (ASCII-transparent encodings x error handlers, JSON knobs, separator check off).
round 5  : case kind `flood` (vlib/c07_flood.py, docs/C07.md): floods of IGNORABLE input far beyond the limit — JSON whitespace (every
          alphabet) between and inside raw JSON documents, whitespace-only JSON lines, repeated separators (empty frames), separator
          heads, zero-length file frames — in front of, between and behind complete frames; bound after every read, then resumption.
"""
from __future__ import annotations

from typing import Any

from vlib import core, sers, streamdrive as sd
from vlib import jraw  # ---- raw JSON framer ----
from vlib import c07_flood  # ---- round 5: floods of ignorable input ----

from easynetwork.exceptions import StreamProtocolParseError
from easynetwork.lowlevel._stream import BufferedStreamDataConsumer, StreamDataConsumer

ID = "C07"
CLAIMED = True
TITLE = "Receive buffering is bounded by the configured limit"
REQUIRED_THEOREMS = ["C07_sep_copy_bound", "C07_sep_copy_overrun_raises", "C07_sep_copy_no_false_reject",
                     "C07_sep_buffered_bound", "C07_sep_buffered_overrun_raises", "C07_sep_buffered_no_false_reject",
                     "C07_jraw_bound", "C07_jraw_no_false_reject"]  # ---- raw JSON framer ----
LEVEL_TEXT = (
    "Machine-checked proof (Lean 4) that after every read the modelled copying consumer retains at most limit+|sep|-1 bytes, "
    "that unterminated data of limit+|sep| bytes yields a size error, and that a frame with payload <= limit is never rejected "
    "(exact threshold); differential correspondence of the models against the real consumers over payload lengths swept across "
    "the limit band, all cut patterns, both receive paths; direct oracle for the bound and for the accepted zone of every framer."
)
LEVEL_NOTE = (
    "Trusted: Lean kernel + standard axioms; models tied to code by sampled correspondence. Python object overhead is not "
    "'held' in the property's sense. Raw JSON: model JRaw + theorems C07_jraw_*; file-based framers are judged by the oracle only."
)
TECHNIQUE = "Lean 4 theorems (invariant of the suspended framer via refinement) + differential correspondence + bound oracle"
TRUSTED_BASE = [
    "Lean 4.33.0 kernel; axioms allowed: propext, Classical.choice, Quot.sound",
    "hand-written models of read_until / _buffered_readuntil / consumers tied by this correspondence check",
]
ASSUMPTIONS = ["'held' on the copying path = bytes fed since the last delivered item (the generator's buffer is not publicly visible)",
               "separator length <= limit"]
RULE = ("case = framer x payload length (0..limit+|sep|+read) x terminated? x cuts x path; kind flood: framer x unit of ignorable input "
        "(whitespace / empty frames / separator heads) x flood length (limit+1 .. 300 x limit) x position (boundary, inside a document) "
        "x what follows x cuts x path; non-trivial = length inside the band "
        "[limit-|sep|-1, limit+|sep|+1] or unterminated beyond the limit; distinct by case digest")

_aux: dict[str, Any] = {}
BIG_SKIPPED = [0]
SKIP: set[str] = set()


def _payload(spec: dict, n: int) -> bytes:
    k = sers.recv_spec(spec)["k"]
    if k == "json":
        if spec.get("shape"):  # ---- raw JSON framer ----
            return jraw.shaped(spec["shape"], n)
        if n < 2:
            return b"7" * max(n, 1)
        return b'"' + b"a" * (n - 2) + b'"'
    if k in sers.FILE_TOYS:
        return n.to_bytes(_hdr(spec), "big") + b"q" * n
    if k == "b64":
        # a decodable token of exactly n bytes for n = 0 mod 4 (the generators round n): base64 of a text of the inner line serializer
        import base64
        raw = b"q" * (3 * (n // 4))
        enc = base64.standard_b64encode if sers.recv_spec(spec).get("alphabet") == "standard" else base64.urlsafe_b64encode
        return enc(raw)
    sep = sers.separator(spec)
    fill = next(bytes([c]) for c in b"bcxyz" if c not in sep)
    return fill * n


def _hdr(spec: dict) -> int:
    return sers.recv_spec(spec).get("hdr", 1)


def _unterminated(case: dict) -> bytes:
    """n bytes without a complete separator; `pattern` > 0 sprinkles lone separator prefixes (never the whole separator)"""
    spec, n = case["spec"], case["n"]
    sep = sers.separator(spec)
    pat = case.get("pattern", 0)
    if sep is None or pat == 0 or len(sep) < 2:
        return _payload(spec, n)
    fill = next(c for c in b"bcxyz" if c not in sep)
    out = bytearray()
    i = 0
    while len(out) < n:
        if i % pat == pat - 1:
            out += sep[:1 + (i // pat) % (len(sep) - 1)]
            out.append(fill)
        else:
            out.append(fill)
        i += 1
    out = bytes(out[:n])
    while sep in out:
        out = out.replace(sep, bytes([fill]) * len(sep))
    if out.endswith(sep[:1]) and len(sep) > 1:
        pass
    return out


def _stream(case: dict) -> bytes:
    if case.get("kind") == "flood":        # ---- round 5: floods of ignorable input (vlib/c07_flood.py) ----
        return c07_flood.stream(case, _payload)
    spec = case["spec"]
    n = case["n"]
    k = sers.recv_spec(spec)["k"]
    sep = sers.separator(spec)
    p = _payload(spec, n)
    if not case["terminated"] and case.get("pattern") and sep is not None:
        return _unterminated(case)
    if not case["terminated"]:
        if k == "json" and sep is None and spec.get("shape"):  # ---- raw JSON framer ----
            return jraw.unterminated(spec["shape"], n)
        if k == "json" and sep is None:
            return b'"' + b"a" * max(n - 1, 0)        # a string that never closes
        if k in sers.FILE_TOYS and _hdr(spec) > 1:
            top = min(1 << 20, 256 ** _hdr(spec) - 1)
            return top.to_bytes(_hdr(spec), "big") + b"q" * min(n, top - 1)   # header promises 1 MiB (64 KiB - 1 with 2 bytes)
        if k in sers.FILE_TOYS:
            return bytes([200]) + b"q" * min(n, 199)  # header promises 200 bytes
        return p
    follower = _payload(spec, 1 if k != "json" else 3)
    # `follow` (default 1): number of small frames pipelined behind the frame under test — with several of them in one read,
    # what is buffered behind a complete frame exceeds the limit although every frame is far below it
    nf = case.get("follow", 1)
    if sep is not None:
        return p + sep + (follower + sep) * nf
    if k == "json":
        # the producer terminates plain values (numbers, literals) with a newline
        return p + (b"" if p[:1] in (b"{", b"[", b'"') else b"\n") + follower * nf
    return p + follower * nf


def run_real(case: dict) -> list[str]:
    spec = case["spec"]
    stream = _stream(case)
    proto = sd.make_protocol(spec, case["path"])
    lines: list[str] = []
    chunks_used: list[bytes] = []

    keep = sd.Retain()
    budget = [len(stream) + 4]

    class _Loop(Exception):
        pass

    def deliver(fn, arg):
        while True:
            try:
                p = fn(arg)
            except StopIteration:
                return
            except StreamProtocolParseError as e:
                keep.add_err(e, lines)
            else:
                keep.add(p, lines)
            arg = None
            budget[0] -= 1
            if budget[0] < 0:
                # more items than bytes: an error that consumes nothing is reported again and again
                lines.append("loop")
                raise _Loop

    try:
        _drive(case, stream, proto, lines, chunks_used, deliver)
    except _Loop:
        pass
    keep.finish(lines)
    _aux[core.case_digest(case)] = {"chunks": chunks_used}
    return lines


def _drive(case: dict, stream: bytes, proto, lines: list[str], chunks_used: list[bytes], deliver) -> None:
    if case["path"] == "copy":
        consumer = StreamDataConsumer(proto)
        for ch in sd.cut(stream, case["cuts"]):
            lines.append(f"read {len(ch)}")
            chunks_used.append(ch)
            deliver(consumer.next, ch)
    else:
        consumer = BufferedStreamDataConsumer(proto, case["hint"])
        i, k = 0, 0
        fills = case["cuts"] or [1 << 30]
        while i < len(stream):
            try:
                view = memoryview(consumer.get_write_buffer())
            except RuntimeError:
                lines.append("crashed")
                break
            room = view.nbytes
            lines.append(f"room {room}")
            n = max(1, min(fills[k % len(fills)], room, len(stream) - i))
            k += 1
            view[:n] = stream[i:i + n]
            view.release()
            chunks_used.append(stream[i:i + n])
            lines.append(f"read {n}")
            i += n
            deliver(consumer.next, n)


def real_for_diff(case: dict, real: list[str]) -> list[str]:
    return [ln for ln in real if not ln.startswith("read ")]


def model_input(case: dict, real: list[str]):
    if "loop" in real or any(ln.startswith("mutated ") for ln in real):
        return None
    if case.get("kind") == "flood" and not c07_flood.model_ok(case):
        return None         # (floods far beyond the limit: oracle only)
    if case["n"] > 8192:
        # the Lean separator framer models are quadratic in the frame length (and the buffered one in the limit): of the frames
        # above 8 KiB, one in forty of those up to 21000 bytes under a limit of at most 20000 goes through them, and one in three
        # of the file-toy frames through the generic (linear) model; the oracle judges all of them
        toy = sers.recv_spec(case["spec"])["k"] in sers.FILE_TOYS
        d = int(core.case_digest(case)[:4], 16)
        if (d % 3) if toy else (case["n"] > 21000 or sers.limit_of(case["spec"]) > 20000 or d % 40):
            BIG_SKIPPED[0] += 1
            SKIP.add(core.case_digest(case))
            return None
    head = sers.model_head(case["spec"], case["path"], case.get("hint", 0))
    aux = _aux.get(core.case_digest(case))
    if head is None or aux is None:
        return None
    op = "feed" if case["path"] == "copy" else "fill"
    return head, [f"{op} {core.hexs(c)}" for c in aux["chunks"]]


def model_post(case: dict, lines: list[str]) -> list[str]:
    lines = [ln for ln in lines if not ln.startswith(("held ", "buf "))]
    return sd.codec_items(case["spec"], lines)


def _safe(case: dict, maxread: int) -> bool:
    """accepted-for-sure zone, per framer and path (table in DESIGN.md C07) — written from the property, not the model"""
    spec = case["spec"]
    k = sers.recv_spec(spec)["k"]
    lim = sers.limit_of(spec)
    sep = sers.separator(spec)
    n = case["n"]
    if sep is not None:
        if case["path"] == "copy":
            return n <= lim
        return n + len(sep) < lim
    if k == "json":
        # ---- raw JSON framer ---- exact threshold (DESIGN.md C07 table): |document| <= limit
        return len(_payload(spec, n)) <= lim
    if k in sers.FILE_TOYS:
        return (n + _hdr(spec)) + maxread <= lim
    return True


def oracle(case: dict, real: list[str]) -> str | None:
    spec = case["spec"]
    lim = sers.limit_of(spec)
    sep = sers.separator(spec) or b""
    k = sers.recv_spec(spec)["k"]
    if any(ln.startswith("harness-exc") for ln in real):
        return "unexpected exception: " + next(ln for ln in real if ln.startswith("harness-exc"))
    if "crashed" in real:
        return "RuntimeError escaped from the consumer (write buffer exhausted before a limit error was raised)"
    why = sd.mutated(real)
    if why:
        return why
    if "loop" in real:
        errs = sorted({ln for ln in real if ln.startswith("err ")})
        return (f"more items than bytes received: an error that consumes nothing is reported for ever ({errs}); "
                f"the data over the limit is never dropped")
    reads = [int(ln.split()[1]) for ln in real if ln.startswith("read ")]
    maxread = max(reads) if reads else 0
    # capacity offered on the buffered path never exceeds the limit
    if lim is not None:
        for ln in real:
            if ln.startswith("room ") and int(ln.split()[1]) > lim and k != "fixed":
                return f"buffered path offered a write buffer of {ln.split()[1]} bytes > limit {lim}"
    if not case["terminated"]:
        fed, raised = 0, False
        last_read = 0
        for ln in real:
            if ln.startswith("read "):
                # judged after the previous read was fully processed
                if not raised and fed > lim + len(sep) + last_read:
                    return (f"{fed} unterminated bytes held (limit {lim} + read {last_read} + separator {len(sep)}) "
                            f"and no limit error raised")
                last_read = int(ln.split()[1])
                fed += last_read
            elif ln == "err limit":
                raised = True
            elif ln.startswith("pkt "):
                return f"a packet was delivered from an unterminated stream: {ln}"
        if not raised and fed > lim + len(sep) + last_read:
            return f"{fed} unterminated bytes held at the end and no limit error raised (limit {lim})"
        return None
    items = [ln for ln in real if ln.startswith(("pkt ", "err "))]
    ser = sers.build(sers.recv_spec(spec))
    if _safe(case, maxread):
        if not items or items[0].startswith("err"):
            return f"frame of payload {case['n']} safely under limit {lim} was rejected: {items[:3]}"
    first_payload = _payload(spec, case["n"])
    whole = [ln for ln in items if ln.startswith("pkt ")]
    # ---- raw JSON framer ---- exact: a document longer than the limit is never delivered (items[0] is what was made of it)
    if k == "json" and sep == b"" and len(first_payload) > lim and items and items[0].startswith("pkt "):
        return f"document of {len(first_payload)} bytes > limit {lim} was delivered: {items[0]}"
    # ---- end raw JSON framer ----
    if case["n"] > lim + len(sep) + maxread and k not in sers.FILE_TOYS:
        # the oversized frame must not come out whole
        try:
            exp = sd.pkt_line(sd.frame_decode(spec, ser, first_payload + (sep if sers.keep_end(spec) else b"")))
        except Exception:
            exp = None
        if exp is not None and exp in whole:
            return f"frame of payload {case['n']} > limit {lim} + separator + read {maxread} was delivered whole"
    return None


def nontrivial(case: dict, real: list[str]) -> str | None:
    lim = sers.limit_of(case["spec"])
    sep = sers.separator(case["spec"]) or b""
    n = case["n"]
    k = sers.recv_spec(case["spec"])["k"]
    if not case["terminated"]:
        return f"{k}/{case['path']}/unterminated" if n > lim else None
    if lim - len(sep) - 1 <= n <= lim + len(sep) + 1:
        return f"{k}/{case['path']}/band"
    return None


def shrink(case: dict):
    cuts = case["cuts"]
    if len(cuts) > 1:
        for i in range(len(cuts)):
            yield {**case, "cuts": cuts[:i] + cuts[i + 1:]}
    if case["n"] > 0:
        yield {**case, "n": case["n"] - 1}


def known_key(case: dict, real: list[str], why: str) -> str:
    return f"k={sers.recv_spec(case['spec'])['k']},path={case['path']},terminated={case['terminated']}"


def _gen_spec(rng):
    spec = _gen_spec0(rng)
    if rng.random() < 0.3:
        spec["debug"] = True
    # session 4: constructor options that do not change the framing (ASCII-transparent encodings x error handlers, JSON encoder /
    # decoder knobs, base64 alphabet, separator check off): the accepted zone must not move
    if sers.recv_spec(spec)["k"] in ("line", "json", "autosep") and not spec.get("shape") and rng.random() < 0.4:
        sers.vary(rng, spec, ascii_only=True)
    return spec


def _gen_spec0(rng):
    k = rng.choice(["line", "autosep", "autosep", "jsonl", "jsonraw", "filetoy", "filetoy", "b64"])
    lim = rng.choice([4, 6, 8, 10, 12, 16, 24])
    if k == "b64":
        return {"k": "b64", "inner": {"k": "line", "newline": "LF", "limit": 65536, "encoding": "utf-8"},
                "alphabet": rng.choice(["standard", "urlsafe"]), "checksum": False, "separator": rng.choice(sers.B64_SEPS), "limit": max(lim, 8)}
    if k == "line":
        return {"k": "line", "newline": rng.choice(["LF", "CR", "CRLF"]), "keep_end": rng.random() < 0.3,
                "encoding": "ascii", "limit": lim}
    if k == "autosep":
        return {"k": "autosep", "sep": rng.choice(["0a", "0d0a", "7c7c", "616162", "2d2d3e", "3c7c3e", "0d0a2e", "61626364"]), "limit": lim, "check": True}
    if k == "jsonl":
        return {"k": "json", "use_lines": True, "limit": lim}
    if k == "jsonraw":
        # ---- raw JSON framer ---- (shape of the document / of the unterminated data)
        return {"k": "json", "use_lines": False, "limit": lim, "shape": rng.choice(jraw.SHAPES + ["", ""])}
    # file toys: plain / peeking / read-ahead loader x expected_load_error (narrow, Exception, tuples with Exception or
    # DeserializeError: those cover the library's own LimitOverrunError) x debug
    spec = {"k": rng.choice(sers.FILE_TOYS), "limit": max(lim, 8)}
    e = rng.choice(sers.EXPECTED_KEYS)
    if e != "toy":
        spec["expected"] = e
    if rng.random() < 0.25:
        spec["hdr"] = rng.choice([2, 3, 4])
    return spec


def corpus() -> list[dict]:
    out = []
    spec = {"k": "autosep", "sep": "0d0a", "limit": 8, "check": True}
    for path in ("copy", "buffered"):
        for n in range(0, 14):
            out.append({"spec": spec, "path": path, "n": n, "terminated": True, "cuts": [1], "hint": 4})
            out.append({"spec": spec, "path": path, "n": n, "terminated": True, "cuts": [n + 1, 100], "hint": 4})
        out.append({"spec": spec, "path": path, "n": 40, "terminated": False, "cuts": [3], "hint": 4})
        out.append({"spec": spec, "path": path, "n": 40, "terminated": False, "cuts": [1], "hint": 4})
    # file toys, every expected_load_error configuration: a header promising 200 bytes dripped far beyond the limit, and
    # frames around the limit
    for k in sers.FILE_TOYS:
        for e in sers.EXPECTED_LOAD_ERRORS:
            fs = {"k": k, "limit": 16, "expected": e, "debug": e == "tuple"}
            for path in ("copy", "buffered"):
                for cuts in ([1], [7], [16], [40]):
                    out.append({"spec": fs, "path": path, "n": 120, "terminated": False, "cuts": cuts, "hint": 8, "pattern": 0})
                for n in (0, 7, 14, 15, 16, 17, 30):
                    out.append({"spec": fs, "path": path, "n": n, "terminated": True, "cuts": [1], "hint": 8, "pattern": 0})
                    out.append({"spec": fs, "path": path, "n": n, "terminated": True, "cuts": [5, 3], "hint": 8, "pattern": 0, "follow": 3})
    # raw JSON: small documents pipelined in one read (everything buffered behind the first one exceeds the limit)
    for lim in (8, 64):
        for shape in jraw.SHAPES:
            for n in (1, 4, 7, 8):
                for follow, cuts in ((2, [1000]), (8, [1000]), (20, [lim + 1]), (20, [3 * lim]), (5, [n + 2, 1000])):
                    out.append({"spec": {"k": "json", "use_lines": False, "limit": lim, "shape": shape}, "path": "copy", "n": n,
                                "terminated": True, "cuts": cuts, "hint": 1, "pattern": 0, "follow": follow})
    return out


def generate(rng, tier: str, boost: int):
    n = (4000 if tier == "quick" else 60000) * boost
    for _ in range(n):
        spec = _gen_spec(rng)
        lim = sers.limit_of(spec)
        sep = sers.separator(spec) or b""
        path = "buffered" if (sers.is_buffered(spec) and rng.random() < 0.5) else "copy"
        maxn = lim + len(sep) + 8
        if sers.recv_spec(spec)["k"] in sers.FILE_TOYS and _hdr(spec) == 1:
            maxn = min(maxn, 199)
        nn = rng.randint(0, maxn)
        terminated = rng.random() < 0.7
        if not terminated:
            nn = rng.randint(lim, lim * 3 + 10)
        if spec["k"] == "b64":
            nn -= nn % 4            # (a decodable base64 token has a length that is a multiple of 4)
        mode = rng.random()
        if mode < 0.3:
            cuts = [1]
        elif mode < 0.45:
            cuts = [rng.randint(1, 5)]
        else:
            cuts = [rng.choice([1, 2, 3, lim - 1, lim, lim + 1, 7, 20]) for _ in range(rng.randint(1, 8))]
            cuts = [c for c in cuts if c > 0] or [1]
        case = {"spec": spec, "path": path, "n": nn, "terminated": terminated, "cuts": cuts,
                "hint": rng.choice([1, 2, 3, 8, 64, 16384]),
                "pattern": 0 if terminated else rng.choice([0, 0, 2, 3, 5, 7])}
        if terminated and rng.random() < 0.3:
            case["follow"] = rng.choice([2, 3, 8, 20])
            if rng.random() < 0.5:
                case["cuts"] = [rng.choice([lim + 5, 2 * lim, 64, 1000])]
        yield case
    # ---- raw JSON framer ---- document lengths swept across the limit band x one cut at every position / drip feed
    for _ in range((1200 if tier == "quick" else 30000) * boost):
        lim = rng.choice([4, 6, 8, 10, 12, 16, 24])
        spec = {"k": "json", "use_lines": False, "limit": lim, "shape": rng.choice(jraw.SHAPES)}
        terminated = rng.random() < 0.7
        nn = rng.choice([lim - 2, lim - 1, lim, lim, lim + 1, lim + 2, rng.randint(1, lim + 8)]) if terminated else rng.randint(lim, lim * 3 + 10)
        nn = max(nn, 1)
        r = rng.random()
        cuts = [1] if r < 0.3 else [rng.randint(1, nn + 3), 100] if r < 0.7 else [rng.choice([1, 2, 3, lim - 1, lim, lim + 1]) for _ in range(rng.randint(1, 6))]
        case = {"spec": spec, "path": "copy", "n": nn, "terminated": terminated, "cuts": cuts, "hint": 1, "pattern": 0}
        if terminated and rng.random() < 0.3:
            # a burst of small documents behind the one under test, most of it in one read
            case["follow"] = rng.choice([2, 5, 20])
            case["cuts"] = [rng.choice([nn + 1, nn + 4, lim + 1, 2 * lim, 1000])]
        yield case
    # ---- end raw JSON framer ----
    yield from _big_limits(rng, tier)
    if tier == "thorough":
        for lim in range(4, 17):
            for sephex in ("0a", "0d0a", "616162"):
                spec = {"k": "autosep", "sep": sephex, "limit": lim, "check": True}
                for nn in range(0, lim + 6):
                    for c1 in range(1, nn + 4):
                        for path in ("copy", "buffered"):
                            yield {"spec": spec, "path": path, "n": nn, "terminated": True, "cuts": [c1, 1], "hint": 4}


def _big_limits(rng, tier: str):
    """limits ABOVE the default read size (16 KiB): 20000, 40000 and the default 65536, with buffer hints (`max_recv_size`) below and
    above them, for every buffered serializer family (line, AutoSeparated subclass, base64, JSON lines on the copy path, file toys
    with a wide length header) — frames at 16 KiB - 1 / 16 KiB / 16 KiB + 1 (where a buffer sized after the read size instead of
    the limit would stop), the last frame of the accepted zone of each path, the first frame beyond it, and unterminated data far
    beyond the limit.  Reads of 1 KiB .. 16 KiB (a drip feed of 64 KiB costs seconds and adds nothing here)."""
    KB16 = 16384
    for lim in (20000, 40000, 65536):
        specs = [
            {"k": "line", "newline": "LF", "keep_end": False, "encoding": "ascii", "limit": lim},
            {"k": "line", "newline": "CRLF", "keep_end": True, "encoding": "utf-8", "errors": "surrogateescape", "limit": lim, "debug": True},
            {"k": "autosep", "sep": "3c7c3e", "limit": lim, "check": True},
            {"k": "b64", "inner": {"k": "line", "newline": "LF", "limit": 65536, "encoding": "utf-8"}, "alphabet": "urlsafe", "checksum": False,
             "separator": "0d0a", "limit": lim},
            {"k": "json", "use_lines": True, "limit": lim},
            {"k": "filetoy", "limit": lim, "hdr": 4},
            {"k": "filepeek", "limit": lim, "hdr": 3, "expected": "exception"},
            {"k": "stapledbuf", "sent": {"k": "line", "newline": "CR", "limit": 1, "encoding": "ascii"},
             "received": {"k": "line", "newline": "CR", "limit": lim, "encoding": "ascii"}},
        ]
        for spec in specs:
            sep = sers.separator(spec) or b""
            toy = sers.recv_spec(spec)["k"] in sers.FILE_TOYS
            for path in (("copy", "buffered") if sers.is_buffered(spec) else ("copy",)):
                for hint in ((1024, KB16, 65536) if path == "buffered" else (KB16,)):
                    read = rng.choice([1024, 4096, 8192, KB16])
                    if toy:
                        # accepted for sure: frame + one read <= limit (C07 table)
                        edge = lim - read - _hdr(spec)
                        ns = [KB16 - 1 - _hdr(spec), KB16 - _hdr(spec), edge, edge + 1]
                        ns = [n for n in ns if 0 <= n <= edge + 1]
                    else:
                        edge = lim - len(sep) - 1 if path == "buffered" else lim
                        ns = [KB16 - 1, KB16, KB16 + 1, rng.randint(KB16 + 2, edge - 1), edge, edge + 1, lim + len(sep) + read + 7]
                    for n in ns:
                        if spec["k"] == "b64":
                            n -= n % 4
                        yield {"spec": spec, "path": path, "n": n, "terminated": True, "cuts": [read], "hint": hint, "pattern": 0,
                               "follow": rng.choice([1, 3])}
                    yield {"spec": spec, "path": path, "n": lim + rng.choice([1, 5000, 30000]), "terminated": False, "cuts": [read],
                           "hint": hint, "pattern": rng.choice([0, 0, 7])}


def after_batch() -> None:
    _aux.clear()
    SKIP.clear()


# ---- raw JSON framer ----
def extra_coverage(stats) -> dict:
    return {"model_runs_by_framer": dict(sorted(sers.MODEL_RUNS.items())), "retained_packets": dict(sd.RETAINED),
            "model_runs_skipped_big_frames": BIG_SKIPPED[0]}
# ---- end raw JSON framer ----


# ---- generic framers ----
# file-based / compressor framers (Lean model GenericFr): adds the case kind "generic" and gives the existing cases whose
# serializer is a file toy or a zlib/bz2 wrapper a model run (see vlib/genericfr.py, docs/GENERICFR.md)
from vlib import genericfr as _genericfr  # noqa: E402

_genericfr.install(globals(), "C07")
# ---- end generic framers ----

# ---- round 5: floods of ignorable input ----
# adds the case kind "flood" (vlib/c07_flood.py): whitespace between / inside raw JSON documents, whitespace-only JSON lines, repeated
# separators (empty frames), separator heads, zero-length file frames — far beyond the limit, any chunking, then resumption
c07_flood.install(globals())
# ---- end round 5 ----
