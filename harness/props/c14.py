"""
C14 — Closing releases the underlying resource at every cancellation point.

real run : one close operation on real EasyNetwork objects (stapled transport, stream endpoint, TLS transport aclose and
           wrap over a pipe to a real OpenSSL peer, AsyncTCPNetworkClient, server-side client of AsyncTCPNetworkServer)
           over in-memory transports on the virtual-time loop, with `task.cancel()` requested right after task step k of
           the operation (k enumerated exhaustively per configuration by the generator, after a baseline run that counts
           the steps) and scripted failures of the wrapped transport's own aclose / send_all / recv_into. vlib/c14_run.py
model run: the same configuration and the same per-suspension decisions (ok / cancel / error / timeout / loop exit, read off
           the real trace) through the control-flow model EasyNet/Model/ClosePaths.lean (endriver `c14`)
oracle   : from the real lines only — wrapped transport(s) closed once the operation is over, is_closing() of the outer
           object true, a second close ends normally without virtual time passing.
path teardown: the server-side TEARDOWN of an accepted connection (vlib/c14_teardown.py): a real AsyncStreamServer over an
           in-memory listener / transport on a plain asyncio loop; the client task ends for every reason (peer EOF / reset /
           receive error, handler raises / returns / closes the transport itself, serve task cancelled) x the handler
           generator's clean-up returns / suspends / raises / is parked and cancelled / swallows the cancellation: the accepted
           transport is closed when the client task is over.  Oracle only.
path aio : the same close matrix on every transport / listener the REAL asyncio backend creates, on real loopback sockets
           (vlib/c14_aio.py): OS socket released, port no longer held, is_closing(), second / third / concurrent closes
           return normally, serve() ended.  Oracle only.
"""
from __future__ import annotations

import inspect
import itertools
from typing import Any

from vlib import core
from vlib import c14_run as cr
from vlib import c14_aio as ca
from vlib import c14_listener as cl
from vlib import c14_teardown as ct

ID = "C14"
CLAIMED = True
TITLE = "Closing releases the underlying resource at every cancellation point"
REQUIRED_THEOREMS = ["C14_analysis_sound", "C14_stapled_both", "C14_endpoint_closes", "C14_endpoint_second_close_prompt", "C14_tls_closes",
                     "C14_wrap_failure_closes", "C14_second_close_prompt", "C14_tcpclient_closes_partial",
                     "C14_listener_close_releases"]
LEVEL_TEXT = (
    "Machine-checked proof (Lean 4) that in the structured control-flow models of the close paths (try / except "
    "BaseException / finally / move_on_after / aclose_forcefully, every await an injection point) the wrapped "
    "transport is closed for every injection schedule of any length — cancellation, OSError from the wrapped "
    "transport, shutdown/handshake timeout, any number of SSL retry iterations — via a sound static analysis of the "
    "path programs; plus crash-point enumeration on the real code (cancel after every task step of every close path, "
    "real OpenSSL peer) compared with the model, plus a direct oracle."
)
LEVEL_NOTE = (
    "Trusted: Lean kernel; axioms propext, Quot.sound, Classical.choice only; the path programs are hand-written and tied "
    "to the code by the sampled correspondence check; the wrapped transport is a parameter with the contract 'aclose() "
    "marks closing before its first suspension'; the number of awaits inside the OpenSSL-driven shutdown/handshake is "
    "observed, not modelled; asyncio socket adapter and server-side client paths: real-code enumeration + oracle only."
)
TECHNIQUE = ("Lean 4 theorems (sound static analysis over an exception/cancellation semantics of the close-path programs, "
             "for all injection schedules) + crash-point enumeration on the real code with model correspondence + oracle")
TRUSTED_BASE = [
    "Lean 4.33.0 kernel; axioms allowed: propext, Classical.choice, Quot.sound",
    "hand-written path programs EasyNet/Model/ClosePaths.lean tied to transports/tls.py, composite.py, utils.py, "
    "endpoints/stream.py, clients/async_tcp.py by this correspondence check (sampled, not proved)",
    "harness: virtual-time loop, step-counting pure-Python asyncio.Task, in-memory transports/pipe (contract: aclose marks "
    "closing before its first suspension and releases the resource however the wait ends), real OpenSSL peer via ssl.MemoryBIO",
    "CPython 3.12 asyncio task cancellation semantics and EasyNetwork cancel scopes (C13) are represented by the exception "
    "semantics of the model",
    "path aio: the kernel's loopback sockets, asyncio's selector loop and socket transports, /proc/self/fd (own listening "
    "sockets), a real OpenSSL peer over a socket",
]
ASSUMPTIONS = [
    "the close operation has started (at least one task step) before the cancellation is requested",
    "wrapped transport contract: aclose() marks closing before its first suspension; a second aclose() of it returns promptly",
    "AsyncTCPNetworkClient.aclose(): proved only when no send holds the lock (see finding F7 / docs/C14-fix-1.patch)",
]
RULE = (
    "case = close path x configuration (standard_compatible, peer behaviour, inner close steps / error, scripted send/recv "
    "error, busy sender; TLS: shutdown_timeout 0 / tiny / 5 x peer's close_notify already read x wrapped send that does "
    "not suspend; client: close while the connection attempt of another task is in progress, close run as a task / in a "
    "cancel scope / under move_on_after) x cancellation after task step k, k = 1 … N-1 exhaustively (N from a baseline run); non-trivial = "
    "an injection or a scripted failure or a timeout actually occurred; distinct by full case digest | path aio (real "
    "sockets of the asyncio backend): subject (datagram / stream transport, TCP / UDP listener, bare or under endpoint, client, "
    "TLS transport, TLS listener, low-level server; idle / receive parked / serving / connection in progress) x close matrix "
    "(task cancelled after task step k = 0..N or after k = 0..6 loop turns, cancel scope, aclose_forcefully, move_on_after(0), "
    "timeout(0), 2-3 concurrent closers with one disturbed) followed by a second and a third close | path teardown "
    "(AsyncStreamServer client task over an in-memory listener/transport): end reason (peer EOF / reset / receive error / "
    "handler raises / returns / closes the transport then yields / serve task cancelled) x handler clean-up (returns / suspends "
    "k turns / raises / parked and cancelled after k turns / swallows the cancellation) exhaustively for k = 0, 1, plus random "
    "k 0..3 x requests served 0..2 x task.cancel() / cancel scope x buffered protocol x close steps / close error of the transport"
)

_aux: dict[str, Any] = {}


def run_real(case: dict) -> list[str]:
    if case["path"] == "lsn":
        return cl.run_case(case)[0]
    if case["path"] == "teardown":
        return ct.run_case(case)[0]
    lines, aux = (ca.run_case if case["path"] == "aio" else cr.run_case)(case)
    _aux[core.case_digest(case)] = aux
    return lines


def _field(real: list[str], key: str) -> str:
    return next((ln[len(key) + 1:] for ln in real if ln.startswith(key + " ")), "")


def oracle(case: dict, real: list[str]) -> str | None:
    if case["path"] == "teardown":
        return ct.oracle(case, real)
    if case["path"] == "lsn":
        return cl.oracle(case, real)
    if case["path"] == "aio":
        return ca.oracle(case, real)
    for ln in real:
        if ln.startswith(("harness-exc", "main-exc", "client-task hang")):
            return f"unexpected failure: {ln}"
    outcome = _field(real, "outcome")
    steps = int(_field(real, "steps") or 0)
    if outcome == "not-reached":
        return None
    started = steps >= 1
    if not started:
        return None
    must = True
    if case["path"] == "tlswrap":
        must = outcome != "ok"
    alive = _field(real, "inner-while-alive")
    if alive and alive != "t=1":
        return (f"{case['path']}: only the close call was cancelled (scope around client.aclose(), at {_field(real, 'at') or '-'}, "
                f"outcome {outcome}); the connection task lives on and the wrapped transport is still open")
    if case["path"] == "tcpconnect":
        return _oracle_connect(case, real, outcome)
    if must:
        flags = dict(x.split("=") for x in _field(real, "inner-later").split())
        open_ = [n for n, v in flags.items() if v != "1"]
        if open_:
            return (f"{case['path']}: wrapped transport(s) {open_} not closed although the close started "
                    f"(outcome {outcome}, cancelled at {_field(real, 'at') or '-'})")
        if outcome == "ok":
            flags0 = dict(x.split("=") for x in _field(real, "inner").split())
            open0 = [n for n, v in flags0.items() if v != "1"]
            if open0:
                return f"{case['path']}: close returned normally but {open0} still open"
        if _field(real, "closing") != "1":
            return f"{case['path']}: is_closing() is false after the close ended ({outcome})"
    second = _field(real, "second")
    if second and not second.startswith("ok dt=0") and not second.startswith("none"):
        return f"{case['path']}: second close: {second}"
    return None


def _oracle_connect(case: dict, real: list[str], outcome: str) -> str | None:
    """close while the connection attempt is in progress: once the close operation has ended - returned, failed, timed
    out or was cancelled - the attempt is abandoned: no transport of the client is open once the connecting calls are
    over (the raw transport of a half-made connection is released by the connecting task, one loop turn after the close at
    the earliest: only the state after that is judged), none of them is still running, the client is not connected with an
    open transport, is_closing() is true, a second close returns at once."""
    c = (case.get("params") or {}).get("connecting") or {}
    what = (f"aclose() during a connection attempt started by {c.get('via')} (slow {c.get('slow')}), close ended "
            f"{outcome} (cancelled at {_field(real, 'at') or '-'})")
    if _field(real, "closing") != "1":
        return f"tcpconnect: is_closing() is false after the close ended; {what}"
    pending = _field(real, "connect-pending")
    if pending not in ("0", ""):
        return f"tcpconnect: the connection attempt is still running long after the close ended ({_field(real, 'connect')}); {what}"
    flags = dict(x.split("=") for x in _field(real, "inner-later").split())
    open_ = [n for n, v in flags.items() if v != "1"]
    if open_:
        return (f"tcpconnect: the client came up with an OPEN transport after the close ended (connecting calls: "
                f"{_field(real, 'connect')}, is_connected {_field(real, 'connected')}); {what}")
    second = _field(real, "second")
    if second and not second.startswith("ok dt=0"):
        return f"tcpconnect: second close: {second}; {what}"
    return None


def nontrivial(case: dict, real: list[str]) -> str | None:
    if case["path"] == "teardown":
        return ct.nontrivial(case, real)
    if case["path"] == "lsn":
        return cl.nontrivial(case, real)
    if case["path"] == "aio":
        return ca.nontrivial(case, real)
    p = case.get("params") or {}
    feats = []
    if case.get("step") is not None and _field(real, "at"):
        feats.append("cancel@" + _field(real, "at").split(".")[-1])
    if any((p.get(k) or {}).get("err") for k in ("inner", "send", "recv")):
        feats.append("close-err")
    if p.get("send_err") or p.get("recv_err"):
        feats.append("io-err")
    if p.get("peer") == "silent" or p.get("hs") == "silent":
        feats.append("timeout")
    if p.get("busy"):
        feats.append("busy")
    if p.get("via"):
        feats.append("via-" + p["via"])
    if p.get("connecting"):
        c = p["connecting"]
        feats.append(f"connecting-{c.get('via')}-{c.get('slow')}-{p.get('close', 'task')}")
    if case["path"] == "tls" and float(p.get("shutdown_timeout", 30)) == 0:
        feats.append("timeout0")
    if p.get("read_eof"):
        feats.append("eof-read")
    if p.get("sync_send"):
        feats.append("sync-send")
    if not feats:
        return None
    return case["path"] + "/" + "+".join(feats)


def shrink(case: dict):
    if case["path"] == "teardown":
        yield from ct.shrink(case)
        return
    if case["path"] == "lsn":
        yield from cl.shrink(case)
        return
    if case["path"] == "aio":
        yield from ca.shrink(case)
        return
    p = case.get("params") or {}
    for k in ("inner", "send", "recv"):
        if k in p and p[k]:
            if p[k].get("steps"):
                yield {**case, "params": {**p, k: {**p[k], "steps": 0}}}
            if p[k].get("err"):
                yield {**case, "params": {**p, k: {**p[k], "err": False}}}
    for k in ("send_err", "recv_err", "data"):
        if p.get(k):
            yield {**case, "params": {**p, k: 0}}
    c = p.get("connecting")
    if c:
        if "+" in c.get("via", ""):
            for v in c["via"].split("+"):
                yield {**case, "params": {**p, "connecting": {**c, "via": v}}}
        if c.get("slow") != "resolve":
            yield {**case, "params": {**p, "connecting": {**c, "slow": "resolve"}}}
    if case.get("step") and case["step"] > 1:
        yield {**case, "step": case["step"] - 1}


def known_key(case: dict, real: list[str], why: str) -> str:
    if case["path"] == "teardown":
        return ct.known_key(case, real, why)
    if case["path"] == "lsn":
        return cl.known_key(case, real, why)
    if case["path"] == "aio":
        return ca.known_key(case, real, why)
    p = case.get("params") or {}
    at = _field(real, "at").split(".")[-1] or "-"
    if at in ("__aenter__", "acquire") and p.get("busy"):
        at = "send-lock"
    via = ",via=scope" if p.get("via") == "scope" else ""
    return f"path={case['path']},busy={int(bool(p.get('busy')))},at={at}{via}"


# ------------------------------------------------------------------------------------------------------------
# model
# ------------------------------------------------------------------------------------------------------------

def client_fixed() -> bool:
    """does the AsyncTCPNetworkClient.aclose under test have the cancellation fallback (docs/C14-fix-1.patch)?"""
    from easynetwork.clients.async_tcp import AsyncTCPNetworkClient
    return "aclose_forcefully" in inspect.getsource(AsyncTCPNetworkClient.aclose)


def decisions(case: dict, real: list[str], aux: dict) -> list[str] | None:
    """one decision per suspension of the real operation, in order (see Model/ClosePaths.lean)"""
    chains = aux.get("chains") or []
    k = case.get("step")
    outcome = _field(real, "outcome")
    out: list[str] = []
    in_retry = False
    last = "ok"
    p = case.get("params") or {}
    if (case["path"] == "tls" and p.get("sc", True) and (p.get("read_eof") or p.get("sync_send"))
            and (not chains or any(q.endswith("PipeEnd.aclose") for q in chains[0]))):
        # the closing handshake (unwrap + flush of our close_notify) completed without a single suspension: the retry loop is
        # over before the first decision is consumed
        out.append("stop")
    for j, ch in enumerate(chains, start=1):
        retry = any(q.endswith("_retry_ssl_method") for q in ch)
        if in_retry and not retry and last == "ok":
            # the loop was left without an exception at a suspension: normally, or by an error of the SSL object itself
            # (visible only in wrap(): the next thing the task does is aclose_forcefully)
            out.append("fail" if (case["path"] == "tlswrap" and any(q == "aclose_forcefully" for q in ch)) else "stop")
        in_retry = retry
        if k is not None and j == k:
            last = "cancel"
        elif j in (aux.get("err_steps") or []):
            last = "err"
        elif j in (aux.get("timeout_steps") or []):
            last = "timeout"
        else:
            last = "ok"
        out.append(last)
    if in_retry and last == "ok":
        out.append("fail" if outcome == "exc:OSError" else "stop")
    return out


def model_input(case: dict, real: list[str]):
    if case["path"] == "teardown":
        return None      # oracle only
    if case["path"] == "lsn":
        return cl.model_input(case, real)
    aux = _aux.get(core.case_digest(case))
    if aux is None or case["path"] in ("srvclient", "sockadapter"):
        return None
    if case["path"] == "udpclient" and (case.get("params") or {}).get("via") == "scope":
        return None      # cancellation through a scope around the call: oracle only (the model's cancellations are task.cancel())
    p = case.get("params") or {}
    if (case["path"] == "tls" and p.get("sc", True) and float(p.get("shutdown_timeout", 30)) == 0
            and case.get("step") is not None):
        # an external task.cancel() landing on the suspension at which the already-expired shutdown scope delivers its own
        # cancellation: which of the two the scope reports (`cancelled_caught`, close returns) or lets through (CancelledError)
        # is a matter of the cancel-scope implementation (C13), not of this control-flow model ("the external one wins"):
        # these runs are judged by the oracle only (the wrapped transport must be closed either way)
        return None

    def ic(d):
        d = d or {}
        return f"{d.get('steps', 0)} {1 if d.get('err') else 0}"

    path = case["path"]
    if path == "stapled":
        head = f"c14 stapled {ic(p.get('send'))} {ic(p.get('recv'))}"
    elif path == "endpoint":
        head = f"c14 endpoint {ic(p.get('inner'))}"
    elif path == "tls":
        head = f"c14 tls {1 if p.get('sc', True) else 0} {ic(p.get('inner'))}"
    elif path == "tlswrap":
        head = f"c14 tlswrap {ic(p.get('inner'))}"
    elif path == "tcpclient":
        head = f"c14 tcpclient {1 if client_fixed() else 0} {1 if p.get('busy') else 0} {ic(p.get('inner'))}"
    elif path == "udpclient":
        # AsyncUDPNetworkClient.aclose() has the control flow of the (fixed) TCP client's: same program of the model
        head = f"c14 tcpclient 1 {1 if p.get('busy') else 0} {ic(p.get('inner'))}"
    else:
        return None
    ds = decisions(case, real, aux)
    if ds is None:
        return None
    return head, [f"d {d}" for d in ds]


def real_for_diff(case: dict, real: list[str]) -> list[str]:
    keep = ("outcome ", "inner ", "closing ")
    return [ln for ln in real if ln.startswith(keep)]


def model_post(case: dict, lines: list[str]) -> list[str]:
    names = {"stapled": ["send", "recv"]}.get(case["path"], ["t"])
    out = []
    for ln in lines:
        if ln.startswith("inner "):
            vals = ln.split()[1:]
            out.append("inner " + " ".join(f"{n}={v}" for n, v in zip(names, vals)))
        elif ln.startswith(("outcome ", "closing ")):
            out.append(ln)
    return out


# ------------------------------------------------------------------------------------------------------------
# generation: exhaustive crash points per configuration
# ------------------------------------------------------------------------------------------------------------

def _inner_variants():
    return [{"steps": 0}, {"steps": 1}, {"steps": 2}, {"steps": 1, "err": True}, {"steps": 0, "err": True}]


def configurations(tier: str) -> list[tuple[str, dict]]:
    cfgs: list[tuple[str, dict]] = []
    iv = _inner_variants()
    for a, b in itertools.product(iv, iv):
        cfgs.append(("stapled", {"send": a, "recv": b}))
    for a in iv:
        cfgs.append(("endpoint", {"inner": a}))
        cfgs.append(("tcpclient", {"inner": a}))
        cfgs.append(("tcpclient", {"inner": a, "busy": True}))
        cfgs.append(("udpclient", {"inner": a}))
        cfgs.append(("udpclient", {"inner": a, "busy": True}))
        cfgs.append(("udpclient", {"inner": a, "via": "scope"}))
        cfgs.append(("udpclient", {"inner": a, "busy": True, "via": "scope"}))
        cfgs.append(("srvclient", {"inner": a}))
        cfgs.append(("srvclient", {"inner": a, "busy": True}))
        cfgs.append(("srvclient", {"inner": a, "via": "scope"}))
        cfgs.append(("srvclient", {"inner": a, "busy": True, "via": "scope"}))
    for peer in ("open", "closed", "data"):
        for wrap in ("none", "endpoint"):
            cfgs.append(("sockadapter", {"peer": peer, "wrap": wrap}))
    for a in iv:
        for peer in ("reply", "silent", "first", "drop"):
            cfgs.append(("tls", {"sc": True, "peer": peer, "inner": a, "shutdown_timeout": 5}))
        cfgs.append(("tls", {"sc": False, "peer": "reply", "inner": a}))
        cfgs.append(("tls", {"sc": True, "peer": "reply", "inner": a, "data": 1}))
        for n in (1, 2):
            cfgs.append(("tls", {"sc": True, "peer": "reply", "inner": a, "send_err": n}))
            cfgs.append(("tls", {"sc": True, "peer": "reply", "inner": a, "recv_err": n}))
        for hs in ("ok", "garbage", "eof", "silent"):
            cfgs.append(("tlswrap", {"hs": hs, "inner": a, "handshake_timeout": 4}))
        for n in (1, 2, 3):
            cfgs.append(("tlswrap", {"hs": "ok", "inner": a, "send_err": n}))
            cfgs.append(("tlswrap", {"hs": "ok", "inner": a, "recv_err": n}))
    # --- shutdown_timeout 0 / tiny x what the peer already did x a wrapped transport whose send does not suspend: the number
    #     of suspensions of the closing handshake goes down to ZERO (peer's close_notify already read, our alert written
    #     without blocking), so the scope can be expired (cancel_called) without ever having delivered its cancellation
    iv2 = iv if tier == "thorough" else [{"steps": 0}, {"steps": 1}, {"steps": 1, "err": True}]
    for a in iv2:
        for st in (0, 0.001, 5):
            for peer in ("reply", "silent", "first", "firstgone", "drop"):
                for sync in (False, True):
                    if st == 5 and not sync and peer != "firstgone":
                        continue        # (already listed above)
                    cfgs.append(("tls", {"sc": True, "peer": peer, "inner": a, "shutdown_timeout": st, "sync_send": sync}))
            for peer in ("first", "firstgone"):
                for sync in (False, True):
                    cfgs.append(("tls", {"sc": True, "peer": peer, "inner": a, "shutdown_timeout": st, "sync_send": sync,
                                         "read_eof": True}))
        cfgs.append(("tls", {"sc": False, "peer": "first", "inner": a, "shutdown_timeout": 0, "sync_send": True,
                             "read_eof": True}))
    # --- close while the connection attempt is in progress
    for a in iv2:
        for slow in ("resolve", "tls", "tlssilent"):
            for via in ("wait", "send", "eof", "recv", "wait+send"):
                for close in ("task", "scope", "moveon"):
                    cfgs.append(("tcpconnect", {"connecting": {"via": via, "slow": slow, "delay": 5}, "close": close,
                                                "bound": 1, "inner": a}))
    if tier == "thorough":
        for steps in (3, 5):
            a = {"steps": steps}
            cfgs.append(("stapled", {"send": a, "recv": a}))
            cfgs.append(("endpoint", {"inner": a}))
            for peer in ("reply", "silent", "first", "drop"):
                for data in (0, 1):
                    for sc in (True, False):
                        cfgs.append(("tls", {"sc": sc, "peer": peer, "inner": a, "shutdown_timeout": 3, "data": data}))
            for n in (1, 2, 3, 4):
                cfgs.append(("tls", {"sc": True, "peer": "first", "inner": a, "send_err": n}))
                cfgs.append(("tls", {"sc": True, "peer": "first", "inner": a, "recv_err": n}))
            for hs in ("ok", "garbage", "eof", "silent"):
                cfgs.append(("tlswrap", {"hs": hs, "inner": a, "handshake_timeout": 2}))
    return cfgs


def corpus() -> list[dict]:
    return cl.corpus() + [
        {"path": "tls", "params": {"sc": True, "peer": "silent", "inner": {"steps": 1}, "shutdown_timeout": 5}, "step": 2},
        {"path": "stapled", "params": {"send": {"steps": 1, "err": True}, "recv": {"steps": 1}}, "step": None},
        {"path": "tlswrap", "params": {"hs": "garbage", "inner": {"steps": 1}}, "step": None},
        {"path": "tcpclient", "params": {"inner": {"steps": 1}}, "step": 1},
        # shutdown_timeout=0, the peer's close_notify already read, flushing ours does not suspend: the closing handshake has
        # no suspension at all; the wrapped transport must still be closed
        {"path": "tls", "params": {"sc": True, "peer": "first", "inner": {"steps": 0}, "shutdown_timeout": 0,
                                   "sync_send": True, "read_eof": True}, "step": None},
        {"path": "tls", "params": {"sc": True, "peer": "firstgone", "inner": {"steps": 1}, "shutdown_timeout": 0,
                                   "sync_send": True, "read_eof": True}, "step": 1},
        {"path": "tls", "params": {"sc": True, "peer": "silent", "inner": {"steps": 1}, "shutdown_timeout": 0,
                                   "sync_send": True}, "step": None},
        # aclose() while a send_packet() of another task is still connecting (it owns the send lock), cancelled / bounded
        {"path": "tcpconnect", "params": {"connecting": {"via": "send", "slow": "tls", "delay": 5}, "close": "task",
                                          "inner": {"steps": 0}}, "step": 1},
        {"path": "tcpconnect", "params": {"connecting": {"via": "send", "slow": "resolve", "delay": 5}, "close": "moveon",
                                          "bound": 1, "inner": {"steps": 0}}, "step": None},
        {"path": "tcpconnect", "params": {"connecting": {"via": "wait", "slow": "tls", "delay": 5}, "close": "scope",
                                          "inner": {"steps": 1}}, "step": None},
    ] + ca.corpus()


def generate(rng, tier: str, boost: int):
    # the listener machine (Model/Listener.lean): random histories of accept / close events on the real ListenerSocketAdapter
    lrng = core.sub_rng(rng.getrandbits(32), "c14-lsn")
    for _ in range((400 if tier == "quick" else 6000) * boost):
        yield cl.gen_case(lrng)
    # the server-side teardown of an accepted connection: the whole end-reason x clean-up grid, then random parameters
    trng = core.sub_rng(rng.getrandbits(32), "c14-teardown")
    yield from ct.grid()
    for _ in range((150 if tier == "quick" else 3000) * boost):
        yield ct.gen_case(trng)
    cfgs = configurations(tier) + [("aio", params) for params in ca.configurations(tier)]
    rng.shuffle(cfgs)            # (the set is the same for every seed; only the order depends on it)
    for path, params in cfgs:
        base = {"path": path, "params": params, "step": None}
        if path == "aio":
            # real sockets of the asyncio backend: the cancellation points come from the undisturbed run of the configuration
            lines, aux = ca.run_case(base)
            yield base
            for k in ca.steps_of(params, aux):
                yield {"path": path, "params": params, "step": k}
            continue
        lines, aux = cr.run_case(base)
        yield base
        n = aux.get("n", 0)
        for k in range(1, max(n, 1) + 1):
            yield {"path": path, "params": params, "step": k}


def extra_coverage(stats) -> dict:
    return {"paths": "stapled, endpoint, tls aclose, tls wrap, tcpclient and lsn (the TCP listener machine) are compared with the Lean model; srvclient "
                     "(server-side client inside AsyncTCPNetworkServer), sockadapter, tcpconnect and aio (real sockets of the "
                     "asyncio backend) and teardown (AsyncStreamServer client task: end reason x handler clean-up, in-memory listener) "
                     "run against the oracle only",
            "exhaustive_over": "cancellation after every task step 1..N of every listed configuration"}
